#!/usr/bin/env python3
"""fill in the whole-suite result of kept seeded changes once /tmp/wt/out-Cxx/mK/suite.txt exists"""
import json
from pathlib import Path
for m in sorted(Path("/verif/seeded").glob("*/meta.json")):
    e = json.loads(m.read_text())
    prop, k = e["id"].split("-")
    rnd = ""
    if k.startswith("r"):
        rnd, k = k[1], k[2:]
    st = Path(f"/tmp/wt/out{rnd}-{prop}/{k}/suite.txt")
    if not st.exists():
        print("pending", e["id"]); continue
    line = [l for l in st.read_text().split("\n") if " passed" in l]
    if not line:
        print("NO RESULT", e["id"]); continue
    new = line[-1].strip() + " (whole suite, pytest -n 4/5, scratch worktree with the patch; the 7 failures need the network and fail on the clean tree too)"
    if e["confirmed"]["existing_tests"] != new:
        e["confirmed"]["existing_tests"] = new
        m.write_text(json.dumps(e, indent=1)); print("updated", e["id"])
