#!/usr/bin/env python3
"""Regenerate the generated blocks of DESIGN.md (section 9.3 findings table from known_findings.json,
section 9.5 seeded-change matrix from seeded/*/meta.json). Coordinator tool, not part of any check."""
import json, re
from pathlib import Path
V = Path(__file__).resolve().parents[1]
d = json.loads((V / "known_findings.json").read_text())
rows = ["| id | property | status | commit | key | what |", "|---|---|---|---|---|---|"]
for e in sorted(d["findings"], key=lambda e: (e["property"], e["id"])):
    rows.append(f"| {e['id']} | {e['property']} | {e['status']} | {e.get('commit','-')} | `{e['key']}` | {e['what'].replace('|','/')} |")
findings = "\n".join(rows)
rows = ["| seeded change | property | needs, in order to manifest | result | note |", "|---|---|---|---|---|"]
for m in sorted((V / "seeded").glob("*/meta.json")):
    e = json.loads(m.read_text())
    rows.append(f"| {e['id']} | {e['property']} | {e['needs_to_manifest']} | {e['check_result']} | {e['check_note']} |")
seeded = "\n".join(rows)
p = V / "DESIGN.md"
s = p.read_text()
for tag, body in (("FINDINGS", findings), ("SEEDED", seeded)):
    pat = re.compile(rf"(<!-- {tag}:BEGIN -->).*?(<!-- {tag}:END -->)", re.S)
    if not pat.search(s):
        raise SystemExit(f"marker {tag} missing in DESIGN.md")
    s = pat.sub(lambda m: m.group(1) + "\n" + body + "\n" + m.group(2), s)
p.write_text(s)
print("DESIGN.md tables regenerated")

# ---- section 9.7: final state table
import re as _re
props = sorted(json.loads(l)["id"] for l in open(V / "properties.jsonl"))
kf = json.loads((V / "known_findings.json").read_text())["findings"]
rows = ["| property | theorems (all closed) | translator tie | fixed findings | open findings | seeded changes kept (caught at once / after strengthening) | quick wall s (last run) |", "|---|---|---|---|---|---|---|"]
tot = [0, 0, 0, 0, 0]
for pid in props:
    pf = V / "coq" / "theories" / "Properties" / f"{pid}.v"
    n = len(_re.findall(r"^\s*Theorem\s", pf.read_text(), flags=_re.M)) if pf.exists() else 0
    ent = V / "manifest_entries" / f"{pid}.json"
    tr = "yes" if ent.exists() and json.loads(ent.read_text()).get("translator") else "-"
    fx = sum(1 for e in kf if e["property"] == pid and e["status"] == "fixed")
    op = sum(1 for e in kf if e["property"] == pid and e["status"] == "open")
    sc = sm = 0
    for m in (V / "seeded").glob(f"{pid}-*/meta.json"):
        r = json.loads(m.read_text())["check_result"]
        if r == "CAUGHT": sc += 1
        else: sm += 1
    ev = V / "evidence" / f"{pid}.json"
    wall = "-"
    if ev.exists():
        try: wall = str(round(json.loads(ev.read_text()).get("wall_s", 0)))
        except Exception: pass
    rows.append(f"| {pid} | {n} | {tr} | {fx} | {op} | {sc} / {sm} | {wall} |")
    tot[0] += n; tot[1] += fx; tot[2] += op; tot[3] += sc; tot[4] += sm
rows.append(f"| total | {tot[0]} | | {tot[1]} | {tot[2]} | {tot[3]} / {tot[4]} | |")
s = p.read_text()
pat = re.compile(r"(<!-- FINAL:BEGIN -->).*?(<!-- FINAL:END -->)", re.S)
if pat.search(s):
    s = pat.sub(lambda m: m.group(1) + "\n" + "\n".join(rows) + "\n" + m.group(2), s)
    p.write_text(s)
    print("final-state table regenerated")
