#!/usr/bin/env python3
"""Regenerate the generated blocks of DESIGN.md (section 9.3 findings table from known_findings.json,
section 9.5 seeded-change matrix from seeded/*/meta.json). Coordinator tool, not part of any check."""
import json, re
from pathlib import Path
V = Path(__file__).resolve().parents[1]
d = json.loads((V / "known_findings.json").read_text())
rows = ["| id | property | status | commit | key | what |", "|---|---|---|---|---|---|"]
for e in sorted(d["findings"], key=lambda e: (e["property"], e["id"])):
    rows.append(f"| {e['id']} | {e['property']} | {e['status']} | {e.get('commit','-')} | `{e['key']}` | {e['what'].replace('|','/')} |")
findings = "\n".join(rows)
rows = ["| seeded change | property | needs, in order to manifest | result | note |", "|---|---|---|---|---|"]
for m in sorted((V / "seeded").glob("*/meta.json")):
    e = json.loads(m.read_text())
    rows.append(f"| {e['id']} | {e['property']} | {e['needs_to_manifest']} | {e['check_result']} | {e['check_note']} |")
seeded = "\n".join(rows)
p = V / "DESIGN.md"
s = p.read_text()
for tag, body in (("FINDINGS", findings), ("SEEDED", seeded)):
    pat = re.compile(rf"(<!-- {tag}:BEGIN -->).*?(<!-- {tag}:END -->)", re.S)
    if not pat.search(s):
        raise SystemExit(f"marker {tag} missing in DESIGN.md")
    s = pat.sub(lambda m: m.group(1) + "\n" + body + "\n" + m.group(2), s)
p.write_text(s)
print("DESIGN.md tables regenerated")
