#!/bin/bash
# usage: tools/tryfix.sh <patch.diff> [pytest args...]   -- apply a proposed fix in the scratch worktree /tmp/wt/base,
# run the (whole, or given part of the) test-suite there, revert. Never touches /repo.
set -u
wt=/tmp/wt/base
[ -d $wt ] || git -C /repo worktree add -q --detach $wt HEAD
git -C $wt checkout -q --detach $(git -C /repo rev-parse HEAD) 2>/dev/null
git -C $wt checkout -q -- .
p=$(readlink -f "$1"); shift
(cd $wt && (git apply "$p" 2>/dev/null || patch -p1 -s < "$p")) || { echo "APPLY FAILED"; exit 2; }
git -C $wt diff --stat
cd $wt && PYTHONPATH=$wt/src NUMBA_CACHE_DIR=/tmp/wt/numba-base /venv/bin/python -m pytest -q -p no:cacheprovider -n 6 --timeout=900 --continue-on-collection-errors "$@" 2>&1 | tail -6
git -C $wt checkout -q -- .
