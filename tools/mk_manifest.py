#!/usr/bin/env python3
"""Regenerate /verif/MANIFEST.json from manifest_entries/Cxx.json (one file per
claimed property: text, note, technique, design_ref, translator) and
properties.jsonl; properties without an entry go to not_applicable with the
reason from manifest_entries/_not_applicable.json (or a default)."""
import json
from pathlib import Path

V = Path(__file__).resolve().parents[1]
props = [json.loads(l) for l in open(V / "properties.jsonl")]
entries = {}
for f in sorted((V / "manifest_entries").glob("C*.json")):
    e = json.loads(f.read_text())
    entries[e["property_id"]] = e
na_file = V / "manifest_entries" / "_not_applicable.json"
na_reasons = json.loads(na_file.read_text()) if na_file.exists() else {}
checks = []
for pid, c in entries.items():
    checks.append(dict(
        property_id=pid, quick_cmd=f"./check {pid} --tier quick", thorough_cmd=f"./check {pid} --tier thorough",
        evidence_file=f"evidence/{pid}.json", replay_cmd_template=f"./check {pid} --replay {{path}}",
        engine="coq-development+correspondence-harness" + ("+translators" if c.get("translator") else ""),
        level_claimed=dict(category="proof", text=c["text"], design_ref=c.get("design_ref", f"5 {pid}")),
        level_note=c["note"], technique=c["technique"]))
na = [dict(property_id=p["id"], reason=na_reasons.get(p["id"], "check not built yet (work in progress; planned per DESIGN.md section 5)"))
      for p in props if p["id"] not in entries]
claimed = list(entries)
hooks_file = V / "manifest_entries" / "_hooks.json"
hooks = json.loads(hooks_file.read_text()) if hooks_file.exists() else dict(
    guard="COGENT3_VERIF",
    enable="checks run /repo/src directly with COGENT3_VERIF=1 in the environment; no source hook exists, nothing in /repo reads the variable",
    baseline_off_cmd="cd /repo && env -u COGENT3_VERIF /venv/bin/python -m pytest -ra -q -p no:cacheprovider --timeout=900 --continue-on-collection-errors",
    source_commits=[], add_only=True)
m = dict(
    version=1, setup_cmd="./check --setup", hooks=hooks,
    engines=[
        dict(name="coq-development", path="coq/theories", serves_properties=claimed,
             kind_free_text="Coq 8.16.1 models, specifications, proofs; Properties/Cxx.v hold only theorem statements"),
        dict(name="correspondence-harness", path="harness", serves_properties=claimed,
             kind_free_text="Python: generators, implementation runners, vm_compute model evaluation, oracles, evidence/replay writers"),
        dict(name="translators", path="harness/translators", serves_properties=[p for p, c in entries.items() if c.get("translator")],
             kind_free_text="fail-closed regeneration of Gallina from the current source text"),
    ],
    checks=checks, not_applicable=na,
    notes="single CLI ./check; fix: commits in /repo are listed in known_findings.json")
import jsonschema
jsonschema.validate(m, json.load(open("/root/.vp/MANIFEST.schema.json")))
json.dump(m, open(V / "MANIFEST.json", "w"), indent=1)
print("manifest ok", len(checks), "claimed,", len(na), "not applicable")
