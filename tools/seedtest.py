#!/usr/bin/env python3
"""Confirm a seeded change and run a check against it, without touching /repo:
a scratch worktree of /repo HEAD gets the patch, the demonstration is run with
and without it, then `./check <prop>` is run with VERIF_REPO pointing at the
worktree.  usage: tools/seedtest.py Cxx <dir with patch.diff + demo.py> [--tier quick] [--tests "pytest args"]"""
import argparse
import json
import os
import shutil
import subprocess
import sys
import time

ap = argparse.ArgumentParser()
ap.add_argument("prop")
ap.add_argument("seed_dir")
ap.add_argument("--tier", default="quick")
ap.add_argument("--tests", default="")
ap.add_argument("--keep", action="store_true")
a = ap.parse_args()

wt = f"/tmp/seedtest_{a.prop}_{os.getpid()}"
subprocess.run(["git", "-C", "/repo", "worktree", "add", "--detach", wt, "HEAD"], check=True, capture_output=True)
out = {"prop": a.prop, "seed": a.seed_dir}
try:
    env = dict(os.environ, PYTHONPATH=f"{wt}/src", PYTHONDONTWRITEBYTECODE="1", PYTHONHASHSEED="0")
    demo = os.path.join(a.seed_dir, "demo.py")

    def run_demo():
        r = subprocess.run(["/venv/bin/python", demo], env=env, capture_output=True, text=True, timeout=900, cwd=wt)
        return r.returncode, (r.stdout + r.stderr)[-400:]

    out["demo_clean"] = run_demo()
    r = subprocess.run(["git", "-C", wt, "apply", os.path.abspath(os.path.join(a.seed_dir, "patch.diff"))], capture_output=True, text=True)
    if r.returncode != 0:
        out["apply_error"] = r.stderr
        print(json.dumps(out, indent=1))
        sys.exit(2)
    out["demo_patched"] = run_demo()
    if a.tests:
        t0 = time.time()
        r = subprocess.run(f"/venv/bin/python -m pytest -q -p no:cacheprovider -x {a.tests}", shell=True, env=env, capture_output=True,
                           text=True, cwd=wt, timeout=3600)
        out["tests"] = (r.returncode, r.stdout.strip().split("\n")[-1], round(time.time() - t0))
    t0 = time.time()
    r = subprocess.run(["./check", a.prop, "--tier", a.tier], env=dict(os.environ, VERIF_REPO=wt), capture_output=True, text=True,
                       cwd="/verif", timeout=7200)
    lines = [l for l in r.stdout.split("\n") if l.startswith(("VIOLATION", "KNOWN-FINDING", "CHECK-ERROR", "["))]
    out["check_rc"] = r.returncode
    out["check_lines"] = lines[:6] + (["..."] if len(lines) > 6 else [])
    out["check_s"] = round(time.time() - t0)
    out["verdict"] = "CAUGHT" if r.returncode == 1 and any(l.startswith("VIOLATION") for l in lines) else "MISSED"
finally:
    if not a.keep:
        subprocess.run(["git", "-C", "/repo", "worktree", "remove", "--force", wt], capture_output=True)
        shutil.rmtree(wt, ignore_errors=True)
print(json.dumps(out, indent=1))
