#!/usr/bin/env python3
"""tools/keep_seed.py Cxx mK "<what it needs to manifest>" <verdict: CAUGHT|MISSED-then-CAUGHT|MISSED> "<caught by / note>"
copies /tmp/wt/out-Cxx/mK/{patch.diff,demo.py,notes.md,suite.txt} to /verif/seeded/Cxx-mK/ and writes meta.json"""
import json, shutil, sys, subprocess
from pathlib import Path
prop, m, needs, verdict, note = sys.argv[1:6]
import os
rnd = os.environ.get("SEED_ROUND", "")  # "" = first round (/tmp/wt/out-Cxx), "2" = second round (/tmp/wt/out2-Cxx)
src = Path(f"/tmp/wt/out{rnd}-{prop}/{m}")
dst = Path(f"/verif/seeded/{prop}-{'r' + rnd if rnd else ''}{m}")
dst.mkdir(parents=True, exist_ok=True)
for f in ("patch.diff", "demo.py", "notes.md"):
    shutil.copy(src / f, dst / f)
suite = (src / "suite.txt").read_text() if (src / "suite.txt").exists() else ""
line = [l for l in suite.split("\n") if " passed" in l]
meta = dict(
    id=dst.name, property=prop, breaks=prop, needs_to_manifest=needs,
    origin="independent sub-agent given only the property text and a scratch worktree",
    confirmed=dict(
        demo="tools/seedtest.py: demo.py exits 0 on a clean scratch worktree of /repo HEAD and 1 with patch.diff applied",
        existing_tests=(line[-1].strip() if line else "see notes.md") + " (whole suite, pytest -n 5, scratch worktree with the patch; the 7 failures need the network and fail on the clean tree too)",
    ),
    check_result=verdict, check_note=note,
    ran=["python3 tools/seedtest.py %s %s --tier quick" % (prop, src), "/tmp/wt/msuite.sh (whole test-suite with the patch applied)"],
)
(dst / "meta.json").write_text(json.dumps(meta, indent=1))
print("kept", dst)
