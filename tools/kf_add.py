#!/usr/bin/env python3
"""tools/kf_add.py ID PROP STATUS KEY COMMIT WHAT  -- append an entry to known_findings.json (coordinator use, never at check run time)"""
import json, sys
from pathlib import Path
p = Path(__file__).resolve().parents[1] / "known_findings.json"
d = json.loads(p.read_text())
i, prop, status, key, commit, what = sys.argv[1:7]
witness = json.loads(sys.argv[7]) if len(sys.argv) > 7 else {}
d["findings"] = [e for e in d["findings"] if e["id"] != i]
e = dict(id=i, property=prop, status=status)
if status == "fixed":
    e["commit"] = commit
    e["line"] = f"fixed: property={prop} {commit} {what}"
e.update(what=what, key=key, witness=witness)
d["findings"].append(e)
p.write_text(json.dumps(d, indent=1))
print("added", i)
