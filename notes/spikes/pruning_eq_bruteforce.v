From Coq Require Import List Arith Lia Permutation.
Import ListNotations.
Section SR.
Variable R : Type.
Variables (add mul : R -> R -> R) (zero one : R).
Infix "+" := add. Infix "*" := mul.
Hypothesis add_comm : forall a b, a + b = b + a.
Hypothesis add_assoc : forall a b c, a + (b + c) = (a + b) + c.
Hypothesis add_0_l : forall a, zero + a = a.
Hypothesis mul_comm : forall a b, a * b = b * a.
Hypothesis mul_assoc : forall a b c, a * (b * c) = (a * b) * c.
Hypothesis mul_1_l : forall a, one * a = a.
Hypothesis mul_0_l : forall a, zero * a = zero.
Hypothesis distr_l : forall a b c, a * (b + c) = a * b + a * c.

Definition sum {A} (f : A -> R) (l : list A) : R := fold_right (fun x acc => f x + acc) zero l.
Definition prod {A} (f : A -> R) (l : list A) : R := fold_right (fun x acc => f x * acc) one l.

Lemma add_0_r a : a + zero = a. Proof. rewrite add_comm; apply add_0_l. Qed.
Lemma mul_0_r a : a * zero = zero. Proof. rewrite mul_comm; apply mul_0_l. Qed.
Lemma mul_1_r a : a * one = a. Proof. rewrite mul_comm; apply mul_1_l. Qed.
Lemma distr_r a b c : (a + b) * c = a * c + b * c.
Proof. rewrite (mul_comm (a+b)), distr_l, (mul_comm c a), (mul_comm c b); reflexivity. Qed.

Lemma sum_app {A} (f : A -> R) l1 l2 : sum f (l1 ++ l2) = sum f l1 + sum f l2.
Proof. induction l1 as [|x l1 IH]; simpl; [now rewrite add_0_l| now rewrite IH, add_assoc]. Qed.
Lemma sum_mul_l {A} (f : A -> R) c l : c * sum f l = sum (fun x => c * f x) l.
Proof. induction l as [|x l IH]; simpl; [apply mul_0_r| now rewrite distr_l, IH]. Qed.
Lemma sum_mul_r {A} (f : A -> R) c l : sum f l * c = sum (fun x => f x * c) l.
Proof. induction l as [|x l IH]; simpl; [apply mul_0_l| now rewrite distr_r, IH]. Qed.
Lemma sum_ext {A} (f g : A -> R) l : (forall x, In x l -> f x = g x) -> sum f l = sum g l.
Proof. induction l as [|x l IH]; simpl; intros H; [reflexivity|]. rewrite H by auto. f_equal. apply IH; auto. Qed.
Lemma sum_map {A B} (g : A -> B) (f : B -> R) l : sum f (map g l) = sum (fun x => f (g x)) l.
Proof. induction l as [|x l IH]; simpl; [reflexivity| now rewrite IH]. Qed.
Lemma sum_flat_map {A B} (g : A -> list B) (f : B -> R) l :
  sum f (flat_map g l) = sum (fun x => sum f (g x)) l.
Proof. induction l as [|x l IH]; simpl; [reflexivity| now rewrite sum_app, IH]. Qed.

(* states *)
Variable states : list nat.

(* tree: leaf profile, or node with children each with a transition matrix *)
Inductive tree : Type :=
| Leaf (prof : nat -> R)
| Node (ch : list (tree * (nat -> nat -> R))).

(* pruning *)
Fixpoint partial (t : tree) (i : nat) : R :=
  match t with
  | Leaf p => p i
  | Node ch =>
      (fix go (l : list (tree * (nat -> nat -> R))) : R :=
         match l with
         | [] => one
         | (c, P) :: l' => sum (fun j => P i j * partial c j) states * go l'
         end) ch
  end.

(* global assignments: a state-tree of same shape *)
Inductive stree := SLeaf | SNode (ch : list (nat * stree)).

Fixpoint assignments (t : tree) : list stree :=
  match t with
  | Leaf _ => [SLeaf]
  | Node ch =>
      map SNode
      ((fix go (l : list (tree * (nat -> nat -> R))) : list (list (nat * stree)) :=
         match l with
         | [] => [[]]
         | (c, _) :: l' =>
             flat_map (fun j => flat_map (fun s => map (fun rest => (j, s) :: rest) (go l')) (assignments c)) states
         end) ch)
  end.

Fixpoint weight (t : tree) (i : nat) (s : stree) : R :=
  match t, s with
  | Leaf p, SLeaf => p i
  | Node ch, SNode sch =>
      (fix go (l : list (tree * (nat -> nat -> R))) (sl : list (nat * stree)) : R :=
         match l, sl with
         | [], [] => one
         | (c, P) :: l', (j, s') :: sl' => (P i j * weight c j s') * go l' sl'
         | _, _ => zero
         end) ch sch
  | _, _ => zero
  end.

Definition brute (t : tree) (i : nat) : R := sum (weight t i) (assignments t).

(* nested induction principle *)
Section ind.
  Variable Pt : tree -> Prop.
  Hypothesis HL : forall p, Pt (Leaf p).
  Hypothesis HN : forall ch, Forall (fun cp => Pt (fst cp)) ch -> Pt (Node ch).
  Fixpoint tree_ind' (t : tree) : Pt t :=
    match t with
    | Leaf p => HL p
    | Node ch => HN ch ((fix go l : Forall (fun cp => Pt (fst cp)) l :=
                           match l with
                           | [] => Forall_nil _
                           | cp :: l' => Forall_cons cp (tree_ind' (fst cp)) (go l')
                           end) ch)
    end.
End ind.

Theorem pruning_eq_bruteforce : forall t i, partial t i = brute t i.
Proof.
  induction t as [p|ch IH] using tree_ind'; intro i.
  - unfold brute; simpl. now rewrite add_0_r.
  - unfold brute. cbn [assignments partial]. rewrite sum_map. cbn [weight].
    induction ch as [|[c P] ch IHch].
    + simpl. now rewrite add_0_r.
    + inversion IH as [|? ? Hc Hrest]; subst. simpl in Hc.
      specialize (IHch Hrest).
      cbn [fst]. rewrite IHch. clear IHch.
      rewrite sum_flat_map.
      rewrite sum_mul_r. apply sum_ext; intros j _.
      rewrite sum_flat_map.
      rewrite Hc. unfold brute.
      match goal with |- _ * _ * ?S = _ => set (SS := S) end.
      rewrite sum_mul_l. rewrite sum_mul_r. subst SS.
      apply sum_ext; intros s _.
      rewrite sum_map. rewrite sum_mul_l. reflexivity.
Qed.
End SR.
Print Assumptions pruning_eq_bruteforce.
