From Coq Require Import ZArith Lia ZifyBool.
Open Scope Z_scope.
Ltac Zify.zify_post_hook ::= Z.to_euclidean_division_equations.

(* python: len = abs((start-stop)//step); for step>0,start<=stop this is ceil *)
Definition cdiv (x s : Z) : Z := - ((- x) / s).

Lemma cdiv_spec x s : 0 < s -> s * (cdiv x s - 1) < x <= s * cdiv x s.
Proof. unfold cdiv; intros; nia. Qed.

Lemma cdiv_uniq x s q : 0 < s -> s * (q - 1) < x <= s * q -> cdiv x s = q.
Proof. intros Hs H. pose proof (cdiv_spec x s Hs). nia. Qed.

Lemma pylen_forward start stop step : 0 < step -> start <= stop ->
  Z.abs ((start - stop) / step) = cdiv (stop - start) step.
Proof. intros. unfold cdiv. replace (-(stop-start)) with (start-stop) by lia.
  assert ((start-stop)/step <= 0) by (apply Z.div_le_upper_bound; lia). lia. Qed.

(* nested ceil *)
Lemma cdiv_cdiv x s c : 0 < s -> 0 < c -> cdiv x (s * c) = cdiv (cdiv x s) c.
Proof.
  intros Hs Hc. apply cdiv_uniq; [nia|].
  pose proof (cdiv_spec x s Hs). pose proof (cdiv_spec (cdiv x s) c Hc).
  set (u := cdiv x s) in *. set (w := cdiv u c) in *. nia.
Qed.

(* key count lemma for forward slice of forward view, nonneg a b *)
Lemma fwd_fwd_count start stop step a b :
  0 < step -> 0 <= start <= stop -> 0 <= a -> a <= b ->
  let L := cdiv (stop - start) step in
  a < L ->
  cdiv (Z.min stop (start + b * step) - (start + a * step)) step = Z.min L b - a.
Proof.
  intros Hs Hss Ha Hab L HaL. subst L.
  pose proof (cdiv_spec (stop-start) step Hs) as HL.
  set (L := cdiv (stop - start) step) in *.
  apply cdiv_uniq; [lia|].
  destruct (Z.min_spec stop (start + b*step)) as [[Hlt ->]|[Hge ->]];
  destruct (Z.min_spec L b) as [[Hlt2 ->]|[Hge2 ->]]; nia.
Qed.
Print Assumptions fwd_fwd_count.
