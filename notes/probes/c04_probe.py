import random, traceback
from cogent3 import make_seq
DC = str.maketrans("ACGT", "TGCA")
def run(seed, new_type, iters=3000):
    rnd = random.Random(seed); fails = {}
    for it in range(iters):
        L = rnd.randint(6, 14)
        s = "".join(rnd.choice("ACGT") for _ in range(L))
        kw = dict(new_type=True) if new_type else {}
        seq = make_seq(s, name="s1", moltype="dna", **kw)
        feats = []
        for fi in range(rnd.randint(1, 3)):
            nsp = rnd.randint(1, 3)
            pts = sorted(rnd.sample(range(L + 1), 2 * nsp))
            spans = [(pts[2 * i], pts[2 * i + 1]) for i in range(nsp)]
            strand = rnd.choice("+-")
            seq.add_feature(biotype="gene", name=f"f{fi}", spans=spans, strand=strand)
            feats.append((f"f{fi}", spans, strand))
        idx = list(range(L)); strand_v = 1; hist = []; v = seq
        ok = True
        for d in range(rnd.randint(0, 3)):
            if rnd.random() < 0.4:
                hist.append("rc"); v = v.rc(); idx = idx[::-1]; strand_v = -strand_v
            else:
                n = len(idx)
                a = rnd.randint(0, n); b = rnd.randint(a, n)
                hist.append((a, b)); v = v[a:b]; idx = idx[a:b]
        if not idx: continue
        allow_partial = rnd.choice([True, False])
        try:
            got = {f.name: f for f in v.get_features(allow_partial=allow_partial)}
        except Exception as e:
            tb = traceback.extract_tb(e.__traceback__)[-1]
            fails.setdefault(("EXC-get", type(e).__name__, str(e)[:40], f"{tb.filename.split('/')[-1]}:{tb.lineno}"), (s, feats, hist, allow_partial)); continue
        lo, hi = min(idx), max(idx) + 1
        for name, spans, st in feats:
            fpos = [p for a, b in spans for p in range(a, b)]
            inside = all(lo <= p < hi for p in fpos)
            overlaps = any(lo <= p < hi for p in fpos)
            # db semantic uses bounding box: start/stop extremes
            fs, fe = spans[0][0], spans[-1][1]
            box_overlap = fs < hi and fe > lo
            expect_present = (box_overlap if allow_partial else (lo <= fs and fe <= hi))
            if (name in got) != expect_present:
                fails.setdefault(("MEMBER", allow_partial, name in got, overlaps, inside), (s, feats, hist, (lo, hi), name)); continue
            if name not in got: continue
            keep = [p for p in fpos if lo <= p < hi]
            exp = "".join(s[p] for p in keep)
            if st == "-": exp = exp.translate(DC)[::-1]
            try:
                sl = str(got[name].get_slice())
            except Exception as e:
                tb = traceback.extract_tb(e.__traceback__)[-1]
                fails.setdefault(("EXC-slice", type(e).__name__, str(e)[:40], f"{tb.filename.split('/')[-1]}:{tb.lineno}"), (s, feats, hist, name)); continue
            if sl != exp:
                fails.setdefault(("SLICE", strand_v, st, len(spans) > 1, inside), (s, feats, hist, name, sl, exp))
    return fails
for nt in (False, True):
    f = run(5, nt)
    print("new_type", nt, len(f))
    for k, v in sorted(f.items(), key=str)[:20]: print("  ", k, "\n       ", v)
