import random, warnings
warnings.filterwarnings("ignore")
from cogent3 import make_aligned_seqs, make_seq
from cogent3.app.align import pairwise_to_multiple
def rand_pair(rnd, ref, other):
    # random pairwise alignment of ref and other: sequence of ops M (both), X (ref only), Y (other only)
    i = j = 0; r = []; o = []
    while i < len(ref) or j < len(other):
        ch = rnd.choice("MMMXY")
        if ch == "M" and i < len(ref) and j < len(other): r.append(ref[i]); o.append(other[j]); i += 1; j += 1
        elif ch == "X" and i < len(ref): r.append(ref[i]); o.append("-"); i += 1
        elif ch == "Y" and j < len(other): r.append("-"); o.append(other[j]); j += 1
    return "".join(r), "".join(o)
def project(rows, a, b):
    cols = [(x, y) for x, y in zip(rows[a], rows[b]) if not (x == "-" and y == "-")]
    return "".join(c[0] for c in cols), "".join(c[1] for c in cols)
rnd = random.Random(7); bad = 0; shown = 0; N = 3000
for it in range(N):
    ref = "".join(rnd.choice("ACGT") for _ in range(rnd.randint(1, 6)))
    k = rnd.randint(1, 3); pw = []; exp = {}
    for n in range(k):
        other = "".join(rnd.choice("ACGT") for _ in range(rnd.randint(1, 6)))
        r, o = rand_pair(rnd, ref, other)
        exp[f"s{n}"] = (r, o)
        aln = make_aligned_seqs({"ref": r, f"s{n}": o}, moltype="dna", array_align=False)
        pw.append((f"s{n}", aln))
    try:
        res = pairwise_to_multiple(pw, make_seq(ref, name="ref", moltype="dna"), "dna").to_dict()
    except Exception as e:
        bad += 1
        if shown < 6: shown += 1; print("EXC", type(e).__name__, str(e)[:60], ref, exp)
        continue
    ok = len({len(v) for v in res.values()}) == 1 and res["ref"].replace("-", "") == ref
    for n, (r, o) in exp.items():
        ok = ok and res[n].replace("-", "") == o.replace("-", "") and project(res, "ref", n) == (r, o)
    if not ok:
        bad += 1
        if shown < 6: shown += 1; print("BAD", ref, exp, res)
print("cases", N, "bad", bad)
