import tempfile, pathlib, os, warnings
warnings.filterwarnings("ignore")
from cogent3 import make_tree, make_table, load_table, get_code, make_seq, make_unaligned_seqs, get_app
# C09
t = make_tree("((a:1,b:2):3,(c:4,d:5):6);")
d0 = t.get_distances(); u = t.unrooted(); d1 = u.get_distances()
print("C09 unrooted changed dists:", {k: (d0[k], d1[k]) for k in d0 if abs(d0[k]-d1[k])>1e-9})
t2 = make_tree("((a:1,b:2):3,(c:4,d:7):6);"); before = t2.get_newick(with_distances=True)
m = t2.root_at_midpoint(); after = t2.get_newick(with_distances=True)
print("C09 midpoint mutates self:", before != after, before, after)
dm = m.get_distances(); d2 = make_tree(before).get_distances()
print("C09 midpoint dists preserved:", all(abs(dm[k]-d2[k])<1e-9 for k in d2))
# C13
from cogent3.app.data_store import DataStoreDirectory
with tempfile.TemporaryDirectory() as td:
    ds = DataStoreDirectory(pathlib.Path(td)/"out", mode="w", suffix="txt")
    ds.write_not_completed(unique_id="ba", data="nc-ba")
    ds.write(unique_id="a", data="done-a")
    print("C13 after write a: completed", [m.unique_id for m in ds.completed], "not_completed", [str(m.unique_id) for m in ds.not_completed])
# C20
with tempfile.TemporaryDirectory() as td:
    for cell in ['a"b', '"ab', 'a,"b', 'a,b', '']:
        tb = make_table(header=["x", "y"], data=[[cell, "1"]])
        p = pathlib.Path(td)/"t.csv"; tb.write(p)
        try:
            r = load_table(p); got = r.to_list()
        except Exception as e: got = repr(e)
        print("C20 csv cell", repr(cell), "->", got, repr(p.read_text()))
# C12
gc = get_code(1, new_type=True); gco = get_code(1)
s = "ATGGCCTAAG"  # len 10
from cogent3.core.moltype import DNA
for start in range(3):
    exp = gco.translate(str(DNA.make_seq(s).rc())[start:]) if hasattr(gco, "translate") else None
    print("C12 rc frame", start, "new:", gc.translate(s, start, rc=True), "expected(translate(rc(s)[start:])):", exp)
pass
# C19
from cogent3.format.alignment import save_to_filename
with tempfile.TemporaryDirectory() as td:
    p = pathlib.Path(td)/"x.fasta"; p.write_text(">old\nACGT\n")
    class Bad: 
        def __getitem__(self, k): raise RuntimeError("boom")
        def keys(self): return ["a"]
        def __iter__(self): return iter(["a"])
    try: save_to_filename(Bad(), str(p), "fasta")
    except Exception as e: print("C19 exc", type(e).__name__)
    print("C19 dest after failed format exists:", p.exists(), "listing:", os.listdir(td))
