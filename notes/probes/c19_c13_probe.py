import sys, os, tempfile, pathlib, warnings
warnings.filterwarnings("ignore")
events = []
def hook(ev, args):
    if ev in ("open", "os.remove", "os.rename", "os.mkdir", "os.rmdir", "shutil.rmtree", "tempfile.mkdtemp", "os.unlink"):
        a = tuple(str(x) for x in args[:2])
        if any("/tmp/" in x for x in a): events.append((ev, a))
sys.addaudithook(hook)
from cogent3 import make_aligned_seqs
from cogent3.app.data_store import DataStoreDirectory
from cogent3.app.sqlite_data_store import DataStoreSqlite
with tempfile.TemporaryDirectory() as td:
    p = pathlib.Path(td) / "x.fasta"; p.write_text(">old\nA\n")
    aln = make_aligned_seqs({"a": "ACGT", "b": "AC-T"}, moltype="dna")
    events.clear(); aln.write(p)
    for e in events: print("C19 ev", e[0], [x.replace(td, "TD") for x in e[1]])
    # C13 item 12
    ds = DataStoreDirectory(pathlib.Path(td) / "o", mode="w", suffix="fasta")
    m = ds.write(unique_id="fasta_seq.fasta", data="xyz")
    print("C13 md5 for id containing suffix:", ds.md5("fasta_seq.fasta"), os.listdir(pathlib.Path(td) / "o" / "md5"))
    print("C13 validate:", ds.validate().to_list())
    # item 13
    sq = DataStoreSqlite(pathlib.Path(td) / "s.sqlitedb", mode="w")
    sq.write(unique_id="a", data="done"); sq.write_not_completed(unique_id="a", data="nc")
    print("C13 sqlite cache: completed", [m.unique_id for m in sq.completed], "nc", [m.unique_id for m in sq.not_completed])
    sq.close()
    sq2 = DataStoreSqlite(pathlib.Path(td) / "s.sqlitedb", mode="r")
    print("C13 sqlite reopened: completed", [m.unique_id for m in sq2.completed], "nc", [m.unique_id for m in sq2.not_completed], "data", sq2.completed[0].read() if sq2.completed else None)
