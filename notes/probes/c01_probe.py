import itertools, sys
from cogent3.core.sequence import SeqView
from cogent3.core.new_sequence import SeqView as NSeqView
def run(SV, maxn=6):
    bad = 0; total = 0
    vals = [None] + list(range(-8, 9))
    steps = [None, 1, 2, 3, -1, -2, -3]
    for n in range(0, maxn + 1):
        s = "abcdefghij"[:n]
        for a, b, c in itertools.product(vals, vals, steps):
            try:
                v1 = SV(seq=s)[a:b:c] if SV is SeqView else SV(parent=s, parent_len=len(s))[a:b:c]
            except Exception as e:
                print("EXC1", n, (a, b, c), repr(e)); bad += 1; continue
            e1 = s[a:b:c]
            total += 1
            if str(v1) != e1:
                bad += 1
                if bad < 15: print("L1", n, (a, b, c), repr(str(v1)), repr(e1), v1)
            if n > 4: continue
            for a2, b2, c2 in itertools.product(vals[::2], vals[::2], steps):
                try:
                    v2 = v1[a2:b2:c2]
                except Exception as e:
                    print("EXC2", n, (a, b, c), (a2, b2, c2), repr(e)); bad += 1; continue
                e2 = e1[a2:b2:c2]
                total += 1
                if str(v2) != e2 or len(v2) != len(e2):
                    bad += 1
                    if bad < 15: print("L2", n, (a, b, c), (a2, b2, c2), repr(str(v2)), repr(e2), v1, v2)
    print(SV.__module__, "total", total, "bad", bad)
run(SeqView)
try:
    run(NSeqView)
except Exception as e:
    import traceback; traceback.print_exc()
