import random, sys
from cogent3 import make_seq
comp = str.maketrans("ACGTUacgtu", "TGCAAtgcaa")
def model_rc(s, rna): 
    t = s.translate(str.maketrans("ACGU","UGCA")) if rna else s.translate(str.maketrans("ACGT","TGCA"))
    return t[::-1]
def run(new_type, seed, n=4000, offs=0):
    rnd = random.Random(seed)
    fails = {}
    for it in range(n):
        L = rnd.randint(0, 12)
        s = "".join(rnd.choice("ACGT") for _ in range(L))
        kw = dict(new_type=True) if new_type else {}
        off = rnd.choice([0, 0, 3, 17])
        try:
            seq = make_seq(s, name="s1", moltype="dna", annotation_offset=off, **kw)
        except TypeError:
            seq = make_seq(s, name="s1", moltype="dna", **kw); off = 0
        m = s; rna = False
        # model of parent coords: list of parent indices (plus strand) & strand
        idx = list(range(L)); strand = 1
        hist = []
        for d in range(rnd.randint(1, 4)):
            op = rnd.choice(["slice", "slice", "rc", "to_rna", "to_dna"])
            try:
                if op == "slice":
                    a = rnd.choice([None] + list(range(-14, 15))); b = rnd.choice([None] + list(range(-14, 15))); c = rnd.choice([None, 1, 1, 2, 3, -1, -1, -2, -3])
                    hist.append((a, b, c))
                    seq = seq[a:b:c]
                    if c is not None and c < 0:
                        m = model_rc(m, rna)[:: 1]  # full rc then forward slice equiv? do directly
                        # direct: m[a:b:c] complemented
                        pass
                    # recompute directly
                elif op == "rc":
                    hist.append("rc"); seq = seq.rc()
                elif op == "to_rna":
                    hist.append("to_rna"); seq = seq.to_rna()
                else:
                    hist.append("to_dna"); seq = seq.to_dna()
            except Exception as e:
                fails.setdefault(("EXC", op, type(e).__name__, str(e)[:60]), (s, off, list(hist)))
                break
            # model recompute from history
            m = s; rna = False; idx = list(range(L)); strand = 1
            for h in hist:
                if h == "rc":
                    m = model_rc(m, rna); idx = idx[::-1]; strand = -strand
                elif h == "to_rna": m = m.replace("T", "U"); rna = True
                elif h == "to_dna": m = m.replace("U", "T"); rna = False
                else:
                    a, b, c = h
                    m = m[a:b:c]; idx = idx[a:b:c]
                    if c is not None and c < 0:
                        m = m.translate(str.maketrans("ACGU","UGCA") if rna else str.maketrans("ACGT","TGCA")); strand = -strand
            if str(seq) != m:
                fails.setdefault(("STR", tuple(type(h).__name__ if not isinstance(h,str) else h for h in hist)), (s, off, list(hist), str(seq), m))
                break
            if len(seq) != len(m) or list(seq) != list(m):
                fails.setdefault(("LEN",), (s, off, list(hist), len(seq), len(m)))
            # parent coords
            try:
                sid, ps, pe, st = seq.parent_coordinates()
            except Exception as e:
                fails.setdefault(("PCEXC", type(e).__name__, str(e)[:50]), (s, off, list(hist))); continue
            if idx:
                lo, hi = min(idx) + off, max(idx) + 1 + off
                if (ps, pe, st) != (lo, hi, strand) and not ("to_rna" in hist or "to_dna" in hist):
                    fails.setdefault(("PC", st == strand, ps == lo, pe == hi), (s, off, list(hist), (ps, pe, st), (lo, hi, strand)))
    return fails
for nt in (False, True):
    f = run(nt, 1)
    print("new_type", nt, len(f))
    for k, v in list(f.items())[:25]: print("  ", k, v)
