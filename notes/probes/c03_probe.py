import random, traceback, numpy
from cogent3 import make_aligned_seqs
DC = str.maketrans("ACGTRYKMSWBDHVN-?", "TGCAYRMKSWVHDBN-?")
RC = str.maketrans("ACGURYKMSWBDHVN-?", "UGCAYRMKSWVHDBN-?")
def rc(s, rna): return s.translate(RC if rna else DC)[::-1]
def run(seed, iters=1500):
    rnd = random.Random(seed); fails = {}
    for it in range(iters):
        nseq = rnd.randint(1, 4); L = rnd.randint(0, 10)
        names = [f"s{i}" for i in range(nseq)]
        alpha = "ACGT" * 3 + "----" + "NRY"
        data = {n: "".join(rnd.choice(alpha) for _ in range(L)) for n in names}
        for arr in (False, True):
            try:
                aln = make_aligned_seqs(data, moltype="dna", array_align=arr)
            except Exception as e:
                fails.setdefault(("mk", arr, type(e).__name__), (data, str(e))); continue
            m = dict(data); rna = False; hist = []
            r2 = random.Random(seed * 100003 + it)
            for d in range(r2.randint(1, 4)):
                op = r2.choice(["slice", "slice", "rc", "take_pos", "take_pos_neg", "take_seqs", "omit_gap_pos", "no_degen", "degap_rel", "to_type", "to_dna"])
                Lc = len(next(iter(m.values()))) if m else 0
                try:
                    if op == "slice":
                        a = r2.choice([None] + list(range(-12, 13))); b = r2.choice([None] + list(range(-12, 13)))
                        hist.append((op, a, b)); aln = aln[a:b]; m = {k: v[a:b] for k, v in m.items()}
                    elif op == "rc":
                        hist.append(op); aln = aln.rc(); m = {k: rc(v, rna) for k, v in m.items()}
                    elif op in ("take_pos", "take_pos_neg"):
                        if Lc == 0: continue
                        cols = [r2.randrange(Lc) for _ in range(r2.randint(1, 4))]
                        neg = op.endswith("neg"); hist.append((op, cols))
                        aln = aln.take_positions(cols, negate=neg)
                        if neg: m = {k: "".join(c for i, c in enumerate(v) if i not in cols) for k, v in m.items()}
                        else: m = {k: "".join(v[i] for i in cols) for k, v in m.items()}
                    elif op == "take_seqs":
                        ks = list(m); sub = r2.sample(ks, r2.randint(1, len(ks))); hist.append((op, sub))
                        aln = aln.take_seqs(sub); m = {k: m[k] for k in sub}
                    elif op == "omit_gap_pos":
                        hist.append(op); aln = aln.omit_gap_pos()
                        keep = [i for i in range(Lc) if not all(v[i] in "-?" for v in m.values())]
                        # default allowed_gap_frac = 1-eps : drop columns that are all gaps
                        m = {k: "".join(v[i] for i in keep) for k, v in m.items()}
                    elif op == "no_degen":
                        hist.append(op); aln = aln.no_degenerates()
                        keep = [i for i in range(Lc) if all(v[i] in "ACGTU" for v in m.values())]
                        m = {k: "".join(v[i] for i in keep) for k, v in m.items()}
                    elif op == "degap_rel":
                        ref = r2.choice(list(m)); hist.append((op, ref)); aln = aln.get_degapped_relative_to(ref)
                        keep = [i for i in range(Lc) if m[ref][i] not in "-?"]
                        m = {k: "".join(v[i] for i in keep) for k, v in m.items()}
                    elif op == "add":
                        hist.append(op); aln = aln + aln; m = {k: v + v for k, v in m.items()}
                    elif op == "to_type":
                        arr2 = r2.choice([True, False]); hist.append((op, arr2)); aln = aln.to_type(array_align=arr2)
                    elif op == "to_rna":
                        hist.append(op); aln = aln.to_rna(); m = {k: v.replace("T", "U") for k, v in m.items()}; rna = True
                    elif op == "to_dna":
                        hist.append(op); aln = aln.to_dna(); m = {k: v.replace("U", "T") for k, v in m.items()}; rna = False
                    elif op == "filtered":
                        hist.append(op); aln = aln.filtered(lambda x: "-" not in "".join(map(str, x)) if not isinstance(x, numpy.ndarray) else True)
                        continue
                except Exception as e:
                    tb = traceback.extract_tb(e.__traceback__)[-1]
                    fails.setdefault(("EXC", arr, op, type(e).__name__, str(e)[:50]), (data, list(hist), f"{tb.filename.split('/')[-1]}:{tb.lineno}")); break
                try:
                    got = aln.to_dict()
                except Exception as e:
                    tb = traceback.extract_tb(e.__traceback__)[-1]
                    fails.setdefault(("EXC-to_dict", arr, tuple(h if isinstance(h, str) else h[0] for h in hist), type(e).__name__, str(e)[:50]), (data, list(hist), f"{tb.filename.split('/')[-1]}:{tb.lineno}")); break
                if got != m or list(got) != list(m):
                    fails.setdefault(("DIFF", arr, tuple(h if isinstance(h, str) else h[0] for h in hist)), (data, list(hist), got, m)); break
    return fails
f = run(3, 4000)
print(len(f))
for k, v in sorted(f.items(), key=lambda kv: str(kv[0]))[:60]: print(k, "\n      ", v)
