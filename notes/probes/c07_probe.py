import numpy, warnings
warnings.filterwarnings("ignore")
from cogent3.recalculation.definition import ParamDefn, CalcDefn, CalculationDefn, PositiveParamDefn
a = PositiveParamDefn("a", default=2.0); b = PositiveParamDefn("b", default=3.0); c = PositiveParamDefn("c", default=5.0)
ab = CalcDefn(lambda x, y: x * y, name="ab")(a, b)
class Rec(CalculationDefn):
    name = "rec"; recycling = True
    def calc(self, recycled, x, y):
        if recycled is None: recycled = numpy.zeros(2)
        recycled[0] = x; recycled[1] = y
        return recycled
r = Rec(ab, c)
top = CalcDefn(lambda arr, z: float(arr.sum() + z), name="top")(r, c)
pc = top.make_likelihood_function()
print("value", pc.get_final_result())
calc = pc.make_calculator()
print("optpars", [p.name for p in calc.opt_pars], "cells", [getattr(x, "name", None) for x in calc._cells])
x0 = calc.get_value_array(); print("x0", x0)
def show(tag):
    print(tag, "switch", int(calc._switch), "last_values", [round(float(v), 3) for v in calc.last_values], "undo", calc.last_undo,
          "cv", [[(v.tolist() if hasattr(v, "tolist") else v) for v in row] for row in calc.cell_values],
          "alias", [calc.cell_values[0][k] is calc.cell_values[1][k] for k in calc.recycled_cells])
show("init")
print(calc.change([(0, 1.0)])); show("A")
print(calc.change([(1, 2.0)])); show("B")
print(calc.change([(1, float(x0[1]))])); show("revertB")
print(calc.change([(0, 0.5)])); show("A2")
import math
vals = calc.last_values
