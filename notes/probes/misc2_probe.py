import tempfile, pathlib, warnings
warnings.filterwarnings("ignore")
from cogent3 import make_unaligned_seqs, load_unaligned_seqs, make_seq, get_model, make_tree, make_aligned_seqs
from cogent3.parse.fasta import iter_fasta_records, MinimalFastaParser
# 17
with tempfile.TemporaryDirectory() as td:
    for names in (["a>b", "c"], ["a b|c", "d"], ["x", "y"]):
        seqs = make_unaligned_seqs({names[0]: "ACGT", names[1]: "GGCC"}, moltype="dna")
        p = pathlib.Path(td) / "s.fasta"; seqs.write(p)
        txt = p.read_bytes()
        print("C06", names, "bytes:", list(iter_fasta_records(txt)), "lines:", list(MinimalFastaParser(txt.decode().splitlines())), "load:", load_unaligned_seqs(p, moltype="dna").to_dict())
    seqs = make_unaligned_seqs({"e": "", "f": "AC"}, moltype="dna"); p = pathlib.Path(td) / "e.fasta"; seqs.write(p)
    try: print("C06 empty seq load:", load_unaligned_seqs(p, moltype="dna").to_dict())
    except Exception as e: print("C06 empty seq load EXC", type(e).__name__, e)
# 18
sm = get_model("HKY85"); tree = make_tree("(a:0.1,b:0.2,c:0.3)")
aln = make_aligned_seqs({"a": "ACGTACGT", "b": "ACGTACGA", "c": "ACGAACGT"}, moltype="dna")
lf = sm.make_likelihood_function(tree); lf.set_alignment(aln)
l0 = lf.lnL
try:
    with lf.updates_postponed():
        lf.set_param_rule("kappa", init=3.0)
        raise RuntimeError("user error inside block")
except RuntimeError: pass
lf.set_param_rule("kappa", init=5.0)
l1 = lf.lnL
lf2 = sm.make_likelihood_function(tree); lf2.set_alignment(aln); lf2.set_param_rule("kappa", init=5.0)
print("C07 after exception in postponed block: lnL", l1, "fresh", lf2.lnL, "suspended flag", lf._update_suspended)
# 7
s = make_seq("CTAGAGT", name="s1", moltype="dna")
s.add_feature(biotype="gene", name="f1", spans=[(0, 2), (3, 4), (6, 7)], strand="+")
v = s.rc()[4:5].rc()
try: print("C04", [(f.name, str(f.get_slice())) for f in v.get_features(allow_partial=True)])
except Exception as e: print("C04 EXC", type(e).__name__, e)
