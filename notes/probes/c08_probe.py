import itertools, numpy, random
from cogent3.core.location import IndelMap, FeatureMap, Span, LostSpan
from cogent3 import make_seq
def mk(mask):  # mask: string of '-' and 'x'
    s = "".join("A" if c == "x" else "-" for c in mask)
    seq = make_seq(s, moltype="dna")
    m, ung = seq.parse_out_gaps()
    return m
def mask_of(m):
    out = []
    for sp in m.spans:
        out.append(("-" if sp.lost else "x") * len(sp))
    return "".join(out)
fails = {}
def F(k, v): fails.setdefault(k, v)
N = 7
cnt = 0
for n in range(0, N + 1):
    for mask in map("".join, itertools.product("x-", repeat=n)):
        try: m = mk(mask)
        except Exception as e: F(("mk", type(e).__name__), (mask, str(e))); continue
        if mask_of(m) != mask: F(("abs",), (mask, mask_of(m), m))
        if len(m) != n: F(("len",), (mask, len(m)))
        # seq index
        for i in range(n + 1):
            try:
                si = m.get_seq_index(i)
                exp = mask[:i].count("x")
                if si != exp: F(("seqidx", i == n), (mask, i, si, exp))
            except Exception as e: F(("seqidxEXC", type(e).__name__, i == n), (mask, i, str(e)))
        ung = mask.count("x")
        for s in range(ung):
            exp = [i for i, c in enumerate(mask) if c == "x"][s]
            try:
                ai = m.get_align_index(s)
                if ai != exp: F(("alignidx",), (mask, s, ai, exp))
            except Exception as e: F(("alignidxEXC", type(e).__name__), (mask, s, str(e)))
        for a in range(0, n + 1):
            for b in range(a, n + 1):
                cnt += 1
                try:
                    sl = m[a:b]
                    got = mask_of(sl); exp = mask[a:b]
                    if a == b: 
                        if len(sl) != 0: F(("slice-empty",), (mask, a, b, got))
                        continue
                    if got != exp or len(sl) != len(exp) or sl.parent_length != exp.count("x"):
                        F(("slice", ), (mask, a, b, got, exp, sl))
                except Exception as e: F(("sliceEXC", type(e).__name__), (mask, a, b, str(e)))
        # nucleic_reversed
        try:
            r = m.nucleic_reversed()
            if mask_of(r) != mask[::-1]: F(("nrev",), (mask, mask_of(r)))
        except Exception as e: F(("nrevEXC", type(e).__name__), (mask, str(e)))
        # mul
        try:
            r = m * 3
            if mask_of(r) != "".join(c * 3 for c in mask): F(("mul",), (mask, mask_of(r)))
        except Exception as e: F(("mulEXC", type(e).__name__), (mask, str(e)))
        # gap coordinates
        # add
        if n <= 4:
            for n2 in range(0, 4):
                for mask2 in map("".join, itertools.product("x-", repeat=n2)):
                    try:
                        m2 = mk(mask2); r = m + m2
                        if mask_of(r) != mask + mask2 or len(r) != n + n2:
                            F(("add",), (mask, mask2, mask_of(r), r))
                        else:
                            # subsequent ops on concatenated
                            tot = mask + mask2
                            for a in range(len(tot) + 1):
                                for b in range(a + 1, len(tot) + 1):
                                    try:
                                        if mask_of(r[a:b]) != tot[a:b]: F(("add-slice",), (mask, mask2, a, b, mask_of(r[a:b]), tot[a:b], r))
                                    except Exception as e: F(("add-sliceEXC", type(e).__name__), (mask, mask2, a, b, str(e), r))
                                try:
                                    if r.get_seq_index(a) != tot[:a].count("x"): F(("add-seqidx",), (mask, mask2, a, r))
                                except Exception as e: F(("add-seqidxEXC", type(e).__name__), (mask, mask2, a, str(e), r))
                    except Exception as e: F(("addEXC", type(e).__name__), (mask, mask2, str(e)))
print("slices", cnt, "fail kinds", len(fails))
for k, v in fails.items(): print(k, v)
