import sys, json, random, time
sys.path.insert(0,'/verif/harness')
from props import c17
from vcheck import core
rng = random.Random(17)
cases = [c17.lattice_case("basic"), c17.lattice_case("gff")] + [c17.random_case(rng) for _ in range(20)]
t=time.time()
for i,c in enumerate(cases):
    try:
        r = core.run_impl("c17_impl.py", {"cases":[c]}, timeout=20)
        x = r["results"][0]
        print(i, c["kind"], [o["op"] for o in c["ops"]][:12], "EXC "+x["tb"][-300:] if isinstance(x, dict) else "ok", round(time.time()-t,1), flush=True)
    except Exception as e:
        print(i, "FAIL", type(e), str(e)[:300], [o["op"]+":"+o.get("how","") for o in c["ops"]], flush=True)
