"""helpers for the implementation-side runners (imported inside the /repo interpreter)"""
import contextlib
import json
import signal
import sys
import traceback

from .val import exc_code


class CaseTimeout(Exception):
    pass


@contextlib.contextmanager
def time_limit(seconds: int):
    def handler(signum, frame):
        raise CaseTimeout(f"case exceeded {seconds}s")

    old = signal.signal(signal.SIGALRM, handler)
    signal.alarm(seconds)
    try:
        yield
    finally:
        signal.alarm(0)
        signal.signal(signal.SIGALRM, old)


def serve(run_case, limit=60, with_payload=False):
    """standard main loop.  Input: {"cases": [...], ...} on stdin.  Output: one
    JSON document per line, one line per case, flushed as soon as the case is
    done (so the parent can tell which case hung or killed the interpreter).
    A case that raises is reported as {"exc": code, "tb": ...}.  A case that
    exceeds `limit` seconds even inside C code makes the process exit with
    status 17 (watchdog thread); the parent records it as a hang and restarts
    the remaining cases in a new interpreter."""
    import os
    import threading

    from .val import jsonable

    payload = json.load(sys.stdin)
    out = sys.stdout
    state = {"deadline": None}

    def watchdog():
        import time

        while True:
            time.sleep(0.5)
            d = state["deadline"]
            if d is not None and time.time() > d:
                os._exit(17)

    threading.Thread(target=watchdog, daemon=True).start()
    import time

    for case in payload["cases"]:
        state["deadline"] = time.time() + limit + 5
        try:
            with time_limit(limit):
                r = run_case(case, payload) if with_payload else run_case(case)
            doc = jsonable(r)
        except CaseTimeout as e:
            doc = {"exc": 9, "tb": str(e), "timeout": True}
        except Exception as e:  # noqa: BLE001
            doc = {"exc": exc_code(e), "tb": traceback.format_exc()[-1200:]}
        state["deadline"] = None
        out.write(json.dumps(doc) + "\n")
        out.flush()
