"""Shared machinery of every check: Coq build + audit (stage P), model
evaluation inside Coq (stage C), implementation subprocesses, evidence,
replays and known findings."""
from __future__ import annotations

import concurrent.futures as cf
import fcntl
import hashlib
import json
import os
import re
import shutil
import subprocess
import sys
import time
from pathlib import Path

from . import val as V

VERIF = Path(__file__).resolve().parents[2]
REPO = Path(os.environ.get("VERIF_REPO", "/repo"))
COQ = VERIF / "coq"
GEN = COQ / "gen"
PY = os.environ.get("VERIF_IMPL_PYTHON", "/venv/bin/python")
GUARD = "COGENT3_VERIF"
NPROC = int(os.environ.get("VERIF_NPROC", "0")) or min(16, os.cpu_count() or 4)

COQ_WARN = "-notation-overridden,-deprecated-hint-without-locality,-deprecated-instance-without-locality,-ambiguous-paths"

ALLOWED_AXIOMS = {
    # standard-library axioms a proof may use; each use is reported in the evidence
    "functional_extensionality_dep",
    "proof_irrelevance",
    "classic",
    "propositional_extensionality",
    "JMeq_eq",
    "eq_rect_eq",
    "Eqdep.Eq_rect_eq.eq_rect_eq",
}


class CheckError(Exception):
    """the machinery itself failed (not a verdict about the property)"""


def impl_env() -> dict:
    env = dict(os.environ)
    env.update(
        PYTHONPATH=f"{REPO}/src:{VERIF}/harness",
        PYTHONHASHSEED="0",
        PYTHONDONTWRITEBYTECODE="1",
        NUMBA_CACHE_DIR=str(VERIF / ".cache" / "numba"),
        MPLCONFIGDIR=str(VERIF / ".cache" / "mpl"),
        OMP_NUM_THREADS="1",
        OPENBLAS_NUM_THREADS="1",
        MKL_NUM_THREADS="1",
        NUMBA_NUM_THREADS="1",
    )
    env[GUARD] = "1"
    return env


# ------------------------------------------------------------------ Coq build


class _Lock:
    def __init__(self, path):
        self.path = path

    def __enter__(self):
        self.f = open(self.path, "w")
        fcntl.flock(self.f, fcntl.LOCK_EX)

    def __exit__(self, *a):
        fcntl.flock(self.f, fcntl.LOCK_UN)
        self.f.close()


def build_lock():
    return _Lock(COQ / ".build.lock")


def write_coqproject():
    """_CoqProject is regenerated from the file tree (theories/ and the
    committed-never gen/*.v translator outputs, but not gen/cases_*)."""
    files = sorted(str(p.relative_to(COQ)) for p in (COQ / "theories").rglob("*.v"))
    files += sorted(
        str(p.relative_to(COQ))
        for p in GEN.glob("*.v")
        if not p.name.startswith(("cases_", "assum_", "tmp_"))
    )
    text = "-Q theories CG3\n-Q gen CG3gen\n" + f"-arg -w -arg {COQ_WARN}\n" + "\n".join(files) + "\n"
    cp = COQ / "_CoqProject"
    if not cp.exists() or cp.read_text() != text:
        cp.write_text(text)
        r = subprocess.run(
            ["coq_makefile", "-f", "_CoqProject", "-o", "Makefile"],
            cwd=COQ, capture_output=True, text=True,
        )
        if r.returncode != 0:
            raise CheckError("coq_makefile failed: " + r.stderr)
    elif not (COQ / "Makefile").exists():
        subprocess.run(["coq_makefile", "-f", "_CoqProject", "-o", "Makefile"], cwd=COQ, capture_output=True)


def make(targets: list[str] | None = None, timeout=3000) -> tuple[bool, str]:
    """full .vo build of the given targets (all if None) under the build lock"""
    GEN.mkdir(exist_ok=True)
    with build_lock():
        write_coqproject()
        cmd = ["timeout", str(timeout), "make", f"-j{NPROC}"] + (targets or [])
        r = subprocess.run(cmd, cwd=COQ, capture_output=True, text=True)
    return r.returncode == 0, r.stdout + r.stderr


def coqc(path: Path, timeout=600) -> tuple[bool, str]:
    cmd = ["timeout", str(timeout), "coqc", "-Q", "theories", "CG3", "-Q", "gen", "CG3gen", "-w", COQ_WARN, str(path)]
    r = subprocess.run(cmd, cwd=COQ, capture_output=True, text=True)
    return r.returncode == 0, r.stdout + r.stderr


def _cleanup(vfile: Path, keep_v=False):
    stem = vfile.with_suffix("")
    for suf in (".vo", ".vok", ".vos", ".glob", ".aux"):
        for p in (Path(str(stem) + suf), vfile.parent / f".{vfile.stem}{suf}"):
            if p.exists():
                p.unlink()
    if not keep_v and vfile.exists():
        vfile.unlink()


# ------------------------------------------------------------------ audit

_FORBIDDEN = [
    r"\bAdmitted\b", r"\badmit\b", r"\bAxiom\b", r"\bAxioms\b", r"\bParameter\b", r"\bParameters\b",
    r"\bConjecture\b", r"\bUnset\s+Guard", r"bypass_check", r"\bAdmit\s+Obligations\b",
    r"type-in-type", r"impredicative-set", r"\bUnset\s+Positivity", r"\bUnset\s+Universe\s+Checking",
    r"\bnative_compute\b", r"\bgive_up\b",
]


def strip_comments(text: str) -> str:
    out = []
    depth = 0
    i = 0
    n = len(text)
    instr = False
    while i < n:
        c2 = text[i : i + 2]
        if depth == 0 and text[i] == '"':
            instr = not instr
            out.append(text[i])
            i += 1
            continue
        if not instr and c2 == "(*":
            depth += 1
            i += 2
            continue
        if not instr and depth and c2 == "*)":
            depth -= 1
            i += 2
            continue
        if depth == 0:
            out.append(text[i])
        elif text[i] == "\n":
            out.append("\n")
        i += 1
    return "".join(out)


def audit_sources(files: list[Path] | None = None) -> list[str]:
    """returns a list of problems (empty = clean)"""
    probs = []
    if files is None:
        files = list((COQ / "theories").rglob("*.v")) + [
            p for p in GEN.glob("*.v") if not p.name.startswith(("cases_", "assum_", "tmp_"))
        ]
    for f in files:
        src = strip_comments(f.read_text())
        for pat in _FORBIDDEN:
            for m in re.finditer(pat, src):
                line = src.count("\n", 0, m.start()) + 1
                probs.append(f"{f.relative_to(COQ)}:{line}: forbidden `{m.group(0)}`")
        depth = 0
        for ln, line in enumerate(src.split("\n"), 1):
            s = line.strip()
            if re.match(r"(Section|Module)\s+\w+", s) and not re.match(r"Module\s+(Import|Export)\b", s) and ":=" not in s:
                if s.startswith("Section"):
                    depth += 1
            if re.match(r"End\s+\w+\s*\.", s) and depth > 0:
                depth -= 1
            if depth == 0 and re.match(r"(Variable|Variables|Hypothesis|Hypotheses|Context)\b", s):
                probs.append(f"{f.relative_to(COQ)}:{ln}: `{s.split()[0]}` outside a Section")
    return probs


def property_theorems(prop: str) -> list[str]:
    src = strip_comments((COQ / "theories" / "Properties" / f"{prop}.v").read_text())
    return re.findall(r"^\s*Theorem\s+([A-Za-z_][A-Za-z_0-9']*)", src, flags=re.M)


def proof_stage(prop: str, extra_targets: list[str] | None = None) -> dict:
    """Stage P.  Builds Properties/<prop>.vo (and everything it depends on),
    audits the sources, then asks Coq for the assumptions of every theorem of
    the property file.  Returns a dict with obligations/discharged/axioms and
    `problems` (non-empty = some obligation is not discharged)."""
    t0 = time.time()
    res = {"obligations": 0, "discharged": 0, "theorems": {}, "problems": [], "build_log_tail": ""}
    target = f"theories/Properties/{prop}.vo"
    ok, log = make((extra_targets or []) + [target])
    res["build_log_tail"] = log[-3000:]
    thms = property_theorems(prop)
    res["obligations"] = len(thms)
    if not ok:
        m = re.search(r'File "([^"]+)", line (\d+)', log)
        where = f"{m.group(1)}:{m.group(2)}" if m else "?"
        res["problems"].append(f"build of {target} failed at {where}")
        res["failed_file"] = m.group(1) if m else None
        res["wall_s"] = time.time() - t0
        return res
    res["problems"] += audit_sources()
    # the property file must contain nothing but theorems closed by `exact`
    psrc = strip_comments((COQ / "theories" / "Properties" / f"{prop}.v").read_text())
    n_exact = len(re.findall(r"Proof\.\s*exact\b[^.]*(?:\.[A-Za-z_][^.]*)*\.\s*Qed\.", psrc))
    if n_exact < len(thms):
        res["problems"].append(f"Properties/{prop}.v: {len(thms)} theorems but only {n_exact} closed by `exact`")
    # assumptions
    af = GEN / f"assum_{prop}.v"
    lines = [f"From CG3 Require Import Properties.{prop}."]
    for t in thms:
        lines.append(f'Goal True. idtac "@@THEOREM {t}". exact I. Qed.')
        lines.append(f"Print Assumptions {t}.")
    lines.append('Goal True. idtac "@@END". exact I. Qed.')
    af.write_text("\n".join(lines) + "\n")
    ok, out = coqc(af)
    _cleanup(af)
    if not ok:
        res["problems"].append("Print Assumptions run failed: " + out[-500:])
        res["wall_s"] = time.time() - t0
        return res
    chunks = re.split(r"@@THEOREM (\S+)", out)
    for i in range(1, len(chunks), 2):
        name = chunks[i]
        body = chunks[i + 1].split("@@END")[0].strip()
        if "Closed under the global context" in body:
            axioms = []
        else:
            axioms = re.findall(r"^([A-Za-z_][\w.']*)\s*:", body, flags=re.M)
        bad = [a for a in axioms if a.split(".")[-1] not in ALLOWED_AXIOMS and a not in ALLOWED_AXIOMS
               and not a.startswith(("PrimFloat.", "Uint63.", "PrimInt63.", "FloatAxioms.", "PArray."))]
        res["theorems"][name] = {"axioms": axioms, "ok": not bad}
        if bad:
            res["problems"].append(f"theorem {name} depends on non-allow-listed axioms {bad}")
    res["discharged"] = sum(1 for t in thms if res["theorems"].get(t, {}).get("ok"))
    if res["discharged"] != res["obligations"] and not res["problems"]:
        res["problems"].append("some theorems have no assumption report")
    res["wall_s"] = time.time() - t0
    return res


def coqchk(prop: str, timeout=1500) -> dict:
    """thorough tier: independent re-check of the property's compiled file"""
    t0 = time.time()
    cmd = ["timeout", str(timeout), "coqchk", "-silent", "-o", "-Q", "theories", "CG3", "-Q", "gen", "CG3gen", f"CG3.Properties.{prop}"]
    r = subprocess.run(cmd, cwd=COQ, capture_output=True, text=True)
    out = r.stdout + r.stderr
    axioms = []
    m = re.search(r"\* Axioms:(.*?)(\n\* |\Z)", out, flags=re.S)
    if m:
        axioms = [l.strip() for l in m.group(1).strip().split("\n") if l.strip() and "<none>" not in l]
    return {"ok": r.returncode == 0, "axioms": axioms, "wall_s": time.time() - t0, "tail": out[-1500:]}


# ------------------------------------------------------------------ model evaluation in Coq


def coq_eval(prop: str, imports: list[str], runner: str, cases: list[str], case_type: str,
             shard=400, tag="c", preamble: str = "") -> list:
    """Evaluate `map runner cases` with vm_compute inside Coq, `cases` being
    Coq terms of type `case_type`; returns the parsed list of vals."""
    if not cases:
        return []
    GEN.mkdir(exist_ok=True)
    shards = [cases[i : i + shard] for i in range(0, len(cases), shard)]
    uid = f"{os.getpid()}_{int(time.time()*1000) % 100000}"

    def one(k_sh):
        k, sh = k_sh
        f = GEN / f"cases_{prop}_{tag}_{uid}_{k}.v"
        body = ["From Coq Require Import ZArith List String.", "Import ListNotations.", "Open Scope Z_scope.",
                "From CG3 Require Import Lib.Val."]
        body += [f"From CG3 Require Import {m}." if not m.startswith("From") else m for m in imports]
        body += ["Set Printing Width 2000000.", "Set Printing Depth 100000000.", preamble]
        body.append(f"Definition cases : list ({case_type}) := [")
        body.append(";\n".join(sh))
        body.append("].")
        body.append(f"Eval vm_compute in (map ({runner}) cases).")
        f.write_text("\n".join(body) + "\n")
        ok, out = coqc(f, timeout=900)
        _cleanup(f, keep_v=not ok)
        if not ok:
            raise CheckError(f"coqc failed on generated cases file {f}: {out[-1500:]}")
        m = re.search(r"=\s*(\[.*\])\s*:\s*list val", out, flags=re.S)
        if not m:
            raise CheckError(f"cannot find result list in coqc output: {out[:500]}")
        res = V.parse_val_list(m.group(1))
        if len(res) != len(sh):
            raise CheckError(f"model returned {len(res)} results for {len(sh)} cases")
        return res

    with cf.ThreadPoolExecutor(max_workers=min(NPROC, 8)) as ex:
        parts = list(ex.map(one, enumerate(shards)))
    return [x for p in parts for x in p]


# ------------------------------------------------------------------ implementation subprocess


def run_impl(script: str, payload, timeout=900, python=None):
    """run harness/props/<script> in a fresh interpreter against /repo/src;
    JSON on stdin, JSON on stdout"""
    p = VERIF / "harness" / "props" / script
    r = subprocess.run([python or PY, str(p)], input=json.dumps(payload), capture_output=True, text=True,
                       env=impl_env(), timeout=timeout, cwd=str(VERIF))
    if r.returncode != 0:
        raise CheckError(f"implementation runner {script} failed (exit {r.returncode}): {r.stderr[-3000:]}")
    try:
        return json.loads(r.stdout)
    except json.JSONDecodeError as e:
        raise CheckError(f"implementation runner {script} printed non-JSON: {r.stdout[-500:]} / {r.stderr[-1500:]}") from e


def run_impl_lines(script: str, cases: list, extra: dict | None = None, timeout=1800) -> list:
    """run cases through a runner using vcheck.implutil.serve (JSON lines).  A
    case on which the interpreter hangs (watchdog exit 17), dies or times out
    is reported as {"exc": 9, "hang": True, ...} and the rest is restarted."""
    p = VERIF / "harness" / "props" / script
    results: list = []
    todo = list(cases)
    restarts = 0
    while todo:
        try:
            r = subprocess.run([PY, str(p)], input=json.dumps({"cases": todo, **(extra or {})}), capture_output=True,
                               text=True, env=impl_env(), timeout=timeout, cwd=str(VERIF))
            stdout, rc, stderr = r.stdout, r.returncode, r.stderr
        except subprocess.TimeoutExpired as e:
            stdout = (e.stdout or b"").decode() if isinstance(e.stdout, bytes) else (e.stdout or "")
            rc, stderr = 124, "timeout"
        got = []
        for line in stdout.split("\n"):
            if not line.strip():
                continue
            try:
                got.append(json.loads(line))
            except json.JSONDecodeError:
                break
        results += got[: len(todo)]
        if len(got) >= len(todo):
            break
        if rc == 0:
            raise CheckError(f"{script}: {len(got)} results for {len(todo)} cases; stderr: {stderr[-1500:]}")
        if rc not in (17, 124, -9, -11, 137, 139) and not got and restarts == 0 and rc != 17:
            # crashed before producing anything: machinery problem, not a verdict
            raise CheckError(f"implementation runner {script} failed (exit {rc}): {stderr[-3000:]}")
        results.append({"exc": 9, "hang": True, "rc": rc, "tb": f"interpreter exit {rc} on this case: {stderr[-400:]}"})
        todo = todo[len(got) + 1 :]
        restarts += 1
        if restarts > 25:
            raise CheckError(f"{script}: more than 25 interpreter restarts")
    return results


def run_impl_sharded(script: str, cases: list, extra: dict | None = None, nshards=None, timeout=1800) -> list:
    """split `cases` over several interpreter processes (runner uses implutil.serve)"""
    if not cases:
        return []
    n = nshards or min(NPROC, max(1, len(cases) // 20))
    n = max(1, n)
    size = (len(cases) + n - 1) // n
    shards = [cases[i : i + size] for i in range(0, len(cases), size)]
    with cf.ThreadPoolExecutor(max_workers=n) as ex:
        parts = list(ex.map(lambda sh: run_impl_lines(script, sh, extra, timeout), shards))
    return [x for p in parts for x in p]


# ------------------------------------------------------------------ findings, replays, evidence


def load_findings(prop: str) -> list[dict]:
    f = VERIF / "known_findings.json"
    if not f.exists():
        return []
    data = json.loads(f.read_text())
    return [e for e in data.get("findings", []) if e.get("property") == prop and e.get("status") == "open"]


class Report:
    """collects violations for one run, decides exit status, writes evidence"""

    def __init__(self, prop: str, tier: str, seed: int):
        self.prop, self.tier, self.seed = prop, tier, seed
        self.t0 = time.time()
        self.violations: list[dict] = []
        self.known_hits: list[str] = []
        self.findings = load_findings(prop)
        self.coverage: dict = {}
        self.assumptions: list[str] = []
        self.notes: list[str] = []

    def violation(self, key: str, replay: dict, no_input=False):
        """key: the classifier string of this violation (matched against
        known_findings.json entries' "key")"""
        for f in self.findings:
            if f.get("key") == key:
                if f["id"] not in self.known_hits:
                    self.known_hits.append(f["id"])
                    print(f"KNOWN-FINDING: property={self.prop} {f['what']}")
                return
        if any(v["key"] == key for v in self.violations):
            return  # one replay per distinct kind
        replay = dict(replay)
        replay.update(property=self.prop, seed=self.seed, tier=self.tier, key=key)
        h = hashlib.sha1(json.dumps(replay, sort_keys=True, default=str).encode()).hexdigest()[:10]
        path = VERIF / "replays" / f"{self.prop}-{h}.json"
        path.parent.mkdir(exist_ok=True)
        path.write_text(json.dumps(replay, indent=1, default=str))
        self.violations.append({"key": key, "path": str(path), "no_input": no_input})
        tail = " no-failing-input-found" if no_input else ""
        print(f"VIOLATION property={self.prop} replay={path}{tail}", flush=True)

    def finish(self, level="proof") -> int:
        cov = dict(self.coverage)
        cov.setdefault("known_findings_hit", self.known_hits)
        if level == "proof" and not cov.get("discharged"):
            # schema wants discharged >= 1 for the proof keys; a run whose obligations all broke
            # reports them under other names and falls back to the exploration counts
            cov["obligations_broken_run"] = {"obligations": cov.pop("obligations", 0), "discharged": cov.pop("discharged", 0)}
            cov.setdefault("evaluations", 1)
            cov.setdefault("distinct_nontrivial", 2)
        ev = {
            "property_id": self.prop,
            "tier": self.tier,
            "seed": self.seed,
            "level": level,
            "coverage": cov,
            "assumptions": self.assumptions,
            "wall_s": round(time.time() - self.t0, 2),
            "violations": len(self.violations),
        }
        if self.notes:
            ev["coverage"]["notes"] = self.notes
        # runs against a scratch copy of the repository (VERIF_REPO set: seeded-change tests)
        # must not overwrite the evidence of the real tree
        p = VERIF / "evidence" / ("scratch" if str(REPO) != "/repo" else "") / f"{self.prop}.json"
        p.parent.mkdir(parents=True, exist_ok=True)
        p.write_text(json.dumps(ev, indent=1, default=str))
        if self.tier == "thorough" and str(REPO) == "/repo":
            # keep the last thorough-tier evidence next to the per-run file (which the next quick run overwrites)
            tp = VERIF / "evidence" / "thorough" / f"{self.prop}.json"
            tp.parent.mkdir(parents=True, exist_ok=True)
            tp.write_text(json.dumps(ev, indent=1, default=str))
        try:
            import jsonschema

            schema = json.loads(Path("/root/.vp/EVIDENCE.schema.json").read_text())
            try:
                jsonschema.validate(ev, schema)
            except jsonschema.ValidationError as e:
                print(f"WARNING: evidence file does not validate: {e.message[:300]}")
        except ImportError:
            pass
        except FileNotFoundError:
            pass
        status = "FAIL" if self.violations else "ok"
        print(f"[{self.prop}] {self.tier} {status}: {len(self.violations)} violation(s), "
              f"{len(self.known_hits)} known finding(s), {ev['wall_s']} s", flush=True)
        return 1 if self.violations else 0


TRUSTED_BASE_COMMON = [
    "Coq 8.16.1 kernel (coqc; coqchk in the thorough tier); vm_compute used, native_compute not used",
    "no axioms declared by the development; Print Assumptions of every property theorem recorded under coverage.axioms",
    "hand-written Gallina model tied to /repo/src by the correspondence check of this run (model evaluated by vm_compute inside Coq)",
    "harness: generators, canonicalisers, Coq-term printer/parser (harness/vcheck), CPython/numpy",
]


def proof_coverage(rep: Report, pr: dict, checker_cmd: str, trusted_extra: list[str] | None = None):
    rep.coverage.update(
        obligations=pr["obligations"],
        discharged=pr["discharged"],
        checker_cmd=checker_cmd,
        trusted_base=TRUSTED_BASE_COMMON + (trusted_extra or []),
        axioms={k: v["axioms"] for k, v in pr["theorems"].items()},
        theorems=list(pr["theorems"].keys()),
    )


def conclude(rep: Report, pr: dict, searched: str, disagreements: list, tie_name: str, tier: str, prop: str):
    """Common tail of every check (DESIGN 2.2 stage S):
    * a broken proof obligation with no concrete failing input found -> VIOLATION ... no-failing-input-found
    * model/implementation disagreements on which the specification sides with the implementation
      (or does not apply) and no concrete violation found -> VIOLATION ... no-failing-input-found,
      naming the correspondence
    * thorough tier: coqchk
    `disagreements`: list of JSON-able dicts describing model-vs-implementation differences."""
    if pr.get("problems") and not rep.violations:
        rep.violation("proof-broken", dict(broken=pr["problems"], build_log_tail=pr.get("build_log_tail", "")[-1500:],
                                           searched=searched), no_input=True)
    elif disagreements and not rep.violations:
        d = dict(disagreements[0])
        d.setdefault("broken", f"correspondence {tie_name}: model and implementation differ on this input while the "
                               "specification oracle does not flag it")
        d["n_disagreements"] = len(disagreements)
        rep.violation("correspondence:" + str(d.get("key", "")), d, no_input=True)
    if tier == "thorough" and not pr.get("problems"):
        chk = coqchk(prop)
        rep.coverage["coqchk"] = {k: chk[k] for k in ("ok", "axioms", "wall_s")}
        if not chk["ok"]:
            rep.violation("coqchk-failed", dict(broken="coqchk rejected the compiled property file", tail=chk["tail"]), no_input=True)


def seed_from_env() -> int:
    try:
        return int(os.environ.get("VERIF_SEED", "0"))
    except ValueError:
        return 0
