"""CLI: ./check Cxx [--tier quick|thorough] [--replay FILE] | ./check --setup | ./check --audit"""
from __future__ import annotations

import argparse
import importlib
import os
import sys
import traceback

from . import core


def claimed_props() -> list[str]:
    import json

    m = json.loads((core.VERIF / "MANIFEST.json").read_text())
    return [c["property_id"] for c in m["checks"]]


def setup() -> int:
    """build what the claimed checks need: per-property setup() hooks run the
    translators first (gen/*.v), then the Coq cone of every claimed property"""
    for d in ("evidence", "replays", ".cache/numba", ".cache/mpl", "coq/gen"):
        (core.VERIF / d).mkdir(parents=True, exist_ok=True)
    props = claimed_props()
    mods = {}
    for pid in props:
        try:
            mods[pid] = importlib.import_module(f"props.{pid.lower()}")
        except ModuleNotFoundError:
            print(f"setup: no module for claimed property {pid}")
            return 2
    rc = 0
    for pid, mod in mods.items():
        if hasattr(mod, "pre_build"):
            try:
                mod.pre_build()
            except Exception:  # noqa: BLE001
                traceback.print_exc()
                rc = 2
    targets = []
    for pid, mod in mods.items():
        targets.append(f"theories/Properties/{pid}.vo")
        targets += list(getattr(mod, "COQ_TARGETS", []))
    ok, log = core.make(sorted(set(targets)), timeout=3400)
    print(log[-3000:])
    if not ok:
        print("setup: Coq build FAILED")
        return 2
    for pid, mod in mods.items():
        if hasattr(mod, "setup"):
            try:
                mod.setup()
            except Exception:  # noqa: BLE001
                traceback.print_exc()
                rc = 2
    print("setup:", "ok" if rc == 0 else "FAILED")
    return rc


def main(argv=None) -> int:
    ap = argparse.ArgumentParser(prog="check")
    ap.add_argument("prop", nargs="?")
    ap.add_argument("--tier", default=os.environ.get("VERIF_TIER", "quick"), choices=["quick", "thorough"])
    ap.add_argument("--replay")
    ap.add_argument("--setup", action="store_true")
    ap.add_argument("--audit", action="store_true")
    a = ap.parse_args(argv)
    sys.path.insert(0, str(core.VERIF / "harness"))
    if a.setup:
        return setup()
    if a.audit:
        probs = core.audit_sources()
        print("\n".join(probs) or "audit clean")
        return 1 if probs else 0
    if not a.prop:
        ap.error("property id required")
    prop = a.prop.upper()
    try:
        mod = importlib.import_module(f"props.{prop.lower()}")
    except ModuleNotFoundError:
        print(f"no check for {prop}")
        return 2
    seed = core.seed_from_env()
    try:
        if a.replay:
            return int(mod.replay(a.replay))
        return int(mod.run(a.tier, seed))
    except core.CheckError as e:
        print(f"CHECK-ERROR property={prop}: {e}")
        return 2


if __name__ == "__main__":
    sys.exit(main())
