"""CLI: ./check Cxx [--tier quick|thorough] [--replay FILE] | ./check --setup | ./check --audit"""
from __future__ import annotations

import argparse
import importlib
import os
import sys
import traceback

from . import core


def setup() -> int:
    ok, log = core.make(None, timeout=3400)
    print(log[-4000:])
    if not ok:
        print("setup: Coq build FAILED")
        return 2
    probs = core.audit_sources()
    for p in probs:
        print("audit:", p)
    for d in ("evidence", "replays", ".cache/numba", ".cache/mpl"):
        (core.VERIF / d).mkdir(parents=True, exist_ok=True)
    # optional per-property setup hooks (e.g. building OCaml drivers, warming numba caches)
    for f in sorted((core.VERIF / "harness" / "props").glob("c[0-9][0-9].py")):
        mod = importlib.import_module(f"props.{f.stem}")
        if hasattr(mod, "setup"):
            try:
                mod.setup()
            except Exception:  # noqa: BLE001
                traceback.print_exc()
                return 2
    print("setup: ok")
    return 2 if probs else 0


def main(argv=None) -> int:
    ap = argparse.ArgumentParser(prog="check")
    ap.add_argument("prop", nargs="?")
    ap.add_argument("--tier", default=os.environ.get("VERIF_TIER", "quick"), choices=["quick", "thorough"])
    ap.add_argument("--replay")
    ap.add_argument("--setup", action="store_true")
    ap.add_argument("--audit", action="store_true")
    a = ap.parse_args(argv)
    sys.path.insert(0, str(core.VERIF / "harness"))
    if a.setup:
        return setup()
    if a.audit:
        probs = core.audit_sources()
        print("\n".join(probs) or "audit clean")
        return 1 if probs else 0
    if not a.prop:
        ap.error("property id required")
    prop = a.prop.upper()
    try:
        mod = importlib.import_module(f"props.{prop.lower()}")
    except ModuleNotFoundError:
        print(f"no check for {prop}")
        return 2
    seed = core.seed_from_env()
    try:
        if a.replay:
            return int(mod.replay(a.replay))
        return int(mod.run(a.tier, seed))
    except core.CheckError as e:
        print(f"CHECK-ERROR property={prop}: {e}")
        return 2


if __name__ == "__main__":
    sys.exit(main())
