"""The universal observation type shared with coq/theories/Lib/Val.v.

Python side            Coq side
  int                    VZ z
  bool                   VB b
  str / bytes            VS [code points]
  list / tuple           VL [...]
  None                   VN
  Exc(code)              VE code
"""
from __future__ import annotations

E_INDEX, E_VALUE, E_TYPE, E_IO, E_KEY, E_OTHER = 1, 2, 3, 4, 5, 9


class Exc:
    """an exception observed, canonicalised to a small enum"""

    __slots__ = ("code",)

    def __init__(self, code: int):
        self.code = int(code)

    def __eq__(self, other):
        return isinstance(other, Exc) and other.code == self.code

    def __hash__(self):
        return hash(("Exc", self.code))

    def __repr__(self):
        return f"Exc({self.code})"


def exc_code(e: BaseException) -> int:
    if isinstance(e, IndexError):
        return E_INDEX
    if isinstance(e, KeyError):
        return E_KEY
    if isinstance(e, ValueError):
        return E_VALUE
    if isinstance(e, (TypeError, AttributeError)):
        return E_TYPE
    if isinstance(e, OSError):
        return E_IO
    return E_OTHER


def observe(fn, *a, **kw):
    """call fn, mapping exceptions to Exc"""
    try:
        return fn(*a, **kw)
    except Exception as e:  # noqa: BLE001
        return Exc(exc_code(e))


def canon(v):
    """canonical python value (tuples -> lists, numpy ints -> int)"""
    if isinstance(v, Exc) or v is None or isinstance(v, (bool, str)):
        return v
    if isinstance(v, bytes):
        return v.decode("latin1")
    if isinstance(v, int):
        return int(v)
    if isinstance(v, (list, tuple)):
        return [canon(x) for x in v]
    try:
        import numpy

        if isinstance(v, numpy.bool_):
            return bool(v)
        if isinstance(v, numpy.integer):
            return int(v)
        if isinstance(v, numpy.ndarray):
            return [canon(x) for x in v.tolist()]
    except ImportError:  # pragma: no cover
        pass
    raise TypeError(f"cannot canonicalise {type(v)}: {v!r}")


def zlit(z: int) -> str:
    return f"({z})" if z < 0 else str(z)


def to_coq(v) -> str:
    """render a canonical value as a Coq [val] term"""
    if isinstance(v, Exc):
        return f"(VE {zlit(v.code)})"
    if v is None:
        return "VN"
    if isinstance(v, bool):
        return "(VB true)" if v else "(VB false)"
    if isinstance(v, int):
        return f"(VZ {zlit(v)})"
    if isinstance(v, str):
        return "(VS [" + ";".join(str(ord(c)) for c in v) + "])"
    if isinstance(v, (list, tuple)):
        return "(VL [" + ";".join(to_coq(x) for x in v) + "])"
    raise TypeError(f"no val for {type(v)}")


def zlist(xs) -> str:
    return "[" + ";".join(zlit(int(x)) for x in xs) + "]"


def zstr(s: str) -> str:
    """python str -> Coq list Z literal of code points"""
    return "[" + ";".join(str(ord(c)) for c in s) + "]"


def zopt(x) -> str:
    return "None" if x is None else f"(Some {zlit(int(x))})"


def cbool(b) -> str:
    return "true" if b else "false"


def jsonable(v):
    """canonical value -> JSON-friendly (Exc -> {"exc": code})"""
    if isinstance(v, Exc):
        return {"exc": v.code}
    if isinstance(v, list):
        return [jsonable(x) for x in v]
    return v


def from_jsonable(v):
    if isinstance(v, dict) and set(v) == {"exc"}:
        return Exc(v["exc"])
    if isinstance(v, list):
        return [from_jsonable(x) for x in v]
    return v


# ---------------------------------------------------------------- parsing

import re

_TOK = re.compile(r"\s*(\[|\]|\(|\)|;|-?\d+|[A-Za-z_][A-Za-z_0-9.']*|%[A-Za-z_]+|,|\"(?:[^\"]|\"\")*\")")


def _tokens(s: str):
    pos = 0
    out = []
    n = len(s)
    while pos < n:
        m = _TOK.match(s, pos)
        if not m:
            if s[pos:].strip() == "":
                break
            raise ValueError(f"cannot tokenise Coq output at {s[pos:pos+40]!r}")
        t = m.group(1)
        pos = m.end()
        if t.startswith("%"):
            continue  # scope annotations
        out.append(t)
    return out


class _P:
    def __init__(self, toks):
        self.t = toks
        self.i = 0

    def peek(self):
        return self.t[self.i] if self.i < len(self.t) else None

    def next(self):
        t = self.t[self.i]
        self.i += 1
        return t

    def expect(self, t):
        x = self.next()
        if x != t:
            raise ValueError(f"expected {t!r} got {x!r} at token {self.i}")

    def zlist(self):
        self.expect("[")
        out = []
        while self.peek() != "]":
            out.append(self.zatom())
            if self.peek() == ";":
                self.next()
        self.expect("]")
        return out

    def zatom(self):
        t = self.next()
        if t == "(":
            v = self.zatom()
            self.expect(")")
            return v
        return int(t)

    def vallist(self):
        self.expect("[")
        out = []
        while self.peek() != "]":
            out.append(self.val())
            if self.peek() == ";":
                self.next()
        self.expect("]")
        return out

    def val(self):
        t = self.next()
        if t == "(":
            v = self.val()
            self.expect(")")
            return v
        if t == "VN":
            return None
        if t == "VZ":
            return self.zatom()
        if t == "VB":
            b = self.next()
            if b == "(":
                b = self.next()
                self.expect(")")
            return b == "true"
        if t == "VS":
            return "".join(chr(c) for c in self.zlist())
        if t == "VL":
            return self.vallist()
        if t == "VE":
            return Exc(self.zatom())
        raise ValueError(f"unexpected token {t!r} in val")


def parse_val_list(text: str):
    """parse the `[v1; v2; ...]` printed by `Eval vm_compute in (… : list val)`"""
    p = _P(_tokens(text))
    out = p.vallist()
    return out
