"""C15 implementation runner: drives the real distance calculators, nj and upgma.

Floats are reported as JSON floats (repr round-trips exactly); nan -> None."""
import math
import warnings

from vcheck.val import exc_code


def fl(x, keep_nan=False):
    if x is None:
        return None
    x = float(x)
    if math.isnan(x):
        return "nan" if keep_nan else None
    if math.isinf(x):
        return "inf" if x > 0 else "-inf"
    return x


# ------------------------------------------------------------------ distances

def run_dist(case):
    import numpy

    from cogent3 import make_aligned_seqs
    from cogent3.evolve import fast_distance as fd

    names, seqs = case["names"], case["seqs"]
    aln = make_aligned_seqs(dict(zip(names, seqs)), moltype=case.get("moltype", "dna"))
    aln_before = (list(aln.names), aln.to_dict())
    kw = {}
    if case["calc"] == "logdet":
        kw["use_tk_adjustment"] = bool(case.get("tk", True))
    with warnings.catch_warnings():
        warnings.simplefilter("ignore")
        calc = fd.get_distance_calculator(case["calc"], moltype=case.get("moltype", "dna"), alignment=aln, **kw)
        calc.run(show_progress=False)
        dm = calc.get_pairwise_distances()
        order = list(calc.names)
        d = dm.to_dict() if dm is not None else {}
        # every ordered pair i != j in the calculator's own name order
        cells = [fl(d.get((a, b))) if (a, b) in d else "absent" for a in order for b in order if a != b]
        # symmetric / zero-diagonal view of the DistanceMatrix object itself
        arr = dm.array
        dnames = list(dm.names)
        diag = [fl(arr[i, i]) for i in range(len(dnames))]
        # the kernel and the formula on every pair i < j, directly
        dim = len(list(calc.moltype))
        direct = []
        for i in range(len(order)):
            for j in range(i + 1, len(order)):
                m = numpy.zeros((dim, dim), numpy.float64)
                fd.fill_diversity_matrix(m, calc.indexed_seqs[i], calc.indexed_seqs[j])
                m2 = numpy.zeros((dim, dim), numpy.float64)
                fd._fill_diversity_matrix(m2, calc.indexed_seqs[i], calc.indexed_seqs[j])
                r = calc.func(m.copy(), *calc._func_args)
                direct.append(dict(counts=[[int(x) for x in row] for row in m.tolist()],
                                   counts_py=[[int(x) for x in row] for row in m2.tolist()],
                                   total=fl(r[0]), p=fl(r[1]), dist=fl(r[2], keep_nan=True)))
        api = None
        if case.get("api"):
            try:
                api_dm = aln.distance_matrix(calc=case["calc"], drop_invalid=False)
                ad = api_dm.to_dict()
                api = [fl(ad.get((a, b))) for a in order for b in order if a != b]
            except ArithmeticError:
                api = "arith"
    return dict(order=order, states="".join(list(calc.moltype)), cells=cells, diag=diag, direct=direct,
                dupes=sorted(calc._dupes or []), api=api, dm_names=sorted(dnames),
                input_unchanged=(list(aln.names), aln.to_dict()) == aln_before)


def dm_cells(dm, names):
    """cells of every ordered pair of `names` (in that order) + the names the matrix really has"""
    d = dm.to_dict()
    return dict(cells=[fl(d.get((a, b))) if (a, b) in d else "absent" for a in names for b in names if a != b],
                dm_names=sorted(dm.names))


def run_dist_history(case):
    """ONE calculator object and ONE fast_slow_dist app instance run over several alignments in turn;
    next to each result the result of a fresh calculator on the same alignment"""
    from cogent3 import make_aligned_seqs
    from cogent3.app.dist import fast_slow_dist
    from cogent3.evolve import fast_distance as fd

    kw = {}
    if case["calc"] == "logdet":
        kw["use_tk_adjustment"] = bool(case.get("tk", True))
    out = []
    with warnings.catch_warnings():
        warnings.simplefilter("ignore")
        mt = case.get("moltype", "dna")
        calc = fd.get_distance_calculator(case["calc"], moltype=mt, **kw)
        app = fast_slow_dist(fast_calc=case["calc"], moltype=mt) if case.get("tk", True) else None
        for step in case["steps"]:
            names, seqs = step["names"], step["seqs"]
            aln = make_aligned_seqs(dict(zip(names, seqs)), moltype=mt)
            before = (list(aln.names), aln.to_dict())
            order = list(aln.names)
            o = dict(order=order)
            calc.run(alignment=aln, show_progress=False)
            o["reused_calc"] = dm_cells(calc.get_pairwise_distances(), order)
            if app is not None:
                r = app(aln)
                o["reused_app"] = dm_cells(r, order) if hasattr(r, "to_dict") and hasattr(r, "names") else {"error": str(r)[:300]}
            fresh = fd.get_distance_calculator(case["calc"], moltype=mt, alignment=aln, **kw)
            fresh.run(show_progress=False)
            o["fresh"] = dm_cells(fresh.get_pairwise_distances(), order)
            o["input_unchanged"] = (list(aln.names), aln.to_dict()) == before
            out.append(o)
    return dict(steps=out)


# ------------------------------------------------------------------ trees

def tip_paths(tree):
    """{tip name: [(id(node), length), ...] up to the root} by walking .parent"""
    out = {}
    for tip in tree.tips():
        path = []
        n = tip
        while n.parent is not None:
            path.append((id(n), float(n.length) if n.length is not None else 0.0))
            n = n.parent
        out[tip.name] = path
    return out


def tree_obs(tree):
    paths = tip_paths(tree)
    names = sorted(paths)
    dists = []
    for x in range(len(names)):
        for y in range(x + 1, len(names)):
            pa, pb = dict(paths[names[x]]), dict(paths[names[y]])
            common = set(pa) & set(pb)
            dd = sum(v for k, v in pa.items() if k not in common) + sum(v for k, v in pb.items() if k not in common)
            dists.append([names[x], names[y], dd])
    depths = [[n, sum(v for _, v in paths[n])] for n in names]
    clades = []
    for node in tree.traverse(self_before=True, self_after=False) if hasattr(tree, "traverse") else []:
        if node.parent is None or not node.children:
            continue
        clades.append(sorted(t.name for t in node.tips()))
    lengths = sorted(float(n.length) for n in tree.traverse() if n.parent is not None and n.length is not None)
    return dict(dists=dists, depths=depths, clades=sorted(clades), nchildren_root=len(tree.children), lengths=lengths)


def full_dict(names, matrix):
    return {(names[i], names[j]): float(matrix[i][j]) for i in range(len(names)) for j in range(len(names)) if i != j}


def run_nj(case):
    from cogent3.evolve.fast_distance import DistanceMatrix
    from cogent3.phylo import nj as njm

    names, matrix = case["names"], case["matrix"]
    dists = full_dict(names, matrix)
    dists_before = dict(dists)
    trace = []
    final = {}
    orig_join = njm.PartialTree.join
    orig_final = njm.PartialTree.asScoreTreeTuple

    def join(self, i, j):
        res = orig_join(self, i, j)
        L = len(self.nodes)
        # the new node is where nodes[i] went: index i, or j when i was the last index
        pos = int(i) if int(i) != L - 1 else int(j)
        new_node = res.nodes[pos]
        left = right = None
        for (ln, child) in new_node:
            if child is self.nodes[i]:
                left = float(ln)
            if child is self.nodes[j]:
                right = float(ln)
        trace.append(dict(i=int(i), j=int(j), L=L, d_before=self.d.tolist(), d=res.d.tolist(), left=left, right=right,
                          tips=[sorted(t) for t in res.tips], score=float(res.score)))
        return res

    def as_tuple(self):
        final["d"] = self.d.tolist()
        final["tips"] = [sorted(t) for t in self.tips]
        return orig_final(self)

    njm.PartialTree.join = join
    njm.PartialTree.asScoreTreeTuple = as_tuple
    try:
        tree = njm.nj(dists, show_progress=False)
    finally:
        njm.PartialTree.join = orig_join
        njm.PartialTree.asScoreTreeTuple = orig_final
    from cogent3.phylo.util import distance_dict_to_2D

    order, _ = distance_dict_to_2D(dists)
    out = dict(order=list(order), trace=trace, final=final, tree=tree_obs(tree))
    out["input_unchanged"] = dists == dists_before
    if case.get("also_quick_tree"):
        qt = DistanceMatrix(dists).quick_tree()
        out["quick_tree"] = tree_obs(qt)
        from cogent3.app.tree import quick_tree

        app_tree = quick_tree()(DistanceMatrix(dists))
        out["app_quick_tree"] = tree_obs(app_tree) if hasattr(app_tree, "tips") else {"error": str(app_tree)[:300]}
        (res,) = njm.gnj(dists, keep=1, show_progress=False)
        out["gnj_score"] = float(res[0])
        out["gnj"] = tree_obs(res[1])
    return out


def run_upgma(case):
    from cogent3.cluster import UPGMA as up
    from cogent3.util.dict_array import DictArray

    names, matrix = case["names"], case["matrix"]
    dists = full_dict(names, matrix)
    dists_before = dict(dists)
    merges = []
    orig = up.condense_matrix

    def condense(matrix, smallest_index, large_value):
        merges.append([int(smallest_index[0]), int(smallest_index[1])])
        return orig(matrix, smallest_index, large_value)

    up.condense_matrix = condense
    try:
        tree = up.upgma(dists)
    finally:
        up.condense_matrix = orig
    order = [n.name for n in up.inputs_from_dict_array(DictArray(dists))[1]]
    return dict(order=order, merges=merges, tree=tree_obs(tree), big=float(up.BIG_NUM), input_unchanged=dists == dists_before)


def run_dm_history(case):
    """a sequence of tree builders called on ONE DistanceMatrix object; after every call: the tree and
    whether the object still holds the input"""
    import numpy

    from cogent3.cluster import UPGMA as up
    from cogent3.evolve.fast_distance import DistanceMatrix
    from cogent3.phylo import nj as njm

    names, matrix = case["names"], case["matrix"]
    dm = DistanceMatrix(full_dict(names, matrix))
    snap_names = list(dm.names)
    snap = dm.array.copy()
    out = []
    for op in case["ops"]:
        o = dict(op=op)
        try:
            if op == "upgma":
                tree = up.upgma(dm)
            elif op == "nj":
                tree = njm.nj(dm, show_progress=False)
            elif op == "quick_tree":
                tree = dm.quick_tree()
            else:
                raise ValueError(op)
            o["tree"] = tree_obs(tree)
        except Exception as e:  # noqa: BLE001
            o["exc"] = exc_code(e)
            o["msg"] = f"{type(e).__name__}: {e}"[:200]
        o["input_unchanged"] = bool(list(dm.names) == snap_names and dm.array.shape == snap.shape
                                    and numpy.array_equal(dm.array, snap))
        out.append(o)
    return dict(steps=out)


def run_tree_order(case):
    """tree builders on a distance object whose rows are NOT in sorted name order"""
    import numpy

    from cogent3.cluster import UPGMA as up
    from cogent3.evolve.fast_distance import DistanceMatrix
    from cogent3.phylo import nj as njm
    from cogent3.util.dict_array import DictArray

    names, matrix, ctor = case["names"], case["matrix"], case["ctor"]

    def build():
        arr = numpy.array(matrix, dtype=float)
        if ctor == "from_array_names":
            return DistanceMatrix.from_array_names(arr, names)
        if ctor == "dictarray":
            return DictArray.from_array_names(arr, names, names)
        if ctor == "take_dists":
            # a larger unsorted matrix with one extra tip in front, reduced to the wanted names
            big = numpy.zeros((len(names) + 1, len(names) + 1))
            big[1:, 1:] = arr
            big[0, 1:] = big[1:, 0] = 97.0
            return DistanceMatrix.from_array_names(big, ["zz_extra"] + list(names)).take_dists(list(names))
        raise ValueError(ctor)

    out = []
    for op in case["ops"]:
        o = dict(op=op)
        try:
            obj = build()
            o["obj_names"] = [str(x) for x in (obj.names if hasattr(obj, "names") else obj.keys())]
            snap = obj.array.copy()
            if op == "upgma":
                tree = up.upgma(obj)
            elif op == "nj":
                tree = njm.nj(obj, show_progress=False)
            elif op == "gnj":
                (res,) = njm.gnj(obj, keep=1, show_progress=False)
                tree = res[1]
            elif op == "quick_tree":
                tree = obj.quick_tree()
            else:
                raise ValueError(op)
            o["tree"] = tree_obs(tree)
            o["input_unchanged"] = bool(numpy.array_equal(obj.array, snap))
        except Exception as e:  # noqa: BLE001
            o["exc"] = exc_code(e)
            o["msg"] = f"{type(e).__name__}: {e}"[:200]
        out.append(o)
    return dict(steps=out)


def run_case(case):
    k = case["kind"]
    try:
        if k == "dist":
            return run_dist(case)
        if k == "nj":
            return run_nj(case)
        if k == "upgma":
            return run_upgma(case)
        if k == "dist_history":
            return run_dist_history(case)
        if k == "dm_history":
            return run_dm_history(case)
        if k == "tree_order":
            return run_tree_order(case)
        raise ValueError(k)
    except Exception as e:  # noqa: BLE001
        import traceback

        return {"exc": exc_code(e), "msg": f"{type(e).__name__}: {e}"[:200], "tb": traceback.format_exc()[-800:]}


def warm_up():
    """import everything and compile the numba kernel before the per-case time limit applies
    (a cold numba cache under load can take longer than a case may)"""
    import numpy

    import cogent3  # noqa: F401
    from cogent3.app.tree import quick_tree  # noqa: F401
    from cogent3.cluster import UPGMA  # noqa: F401
    from cogent3.evolve import fast_distance as fd
    from cogent3.phylo import nj  # noqa: F401

    m = numpy.zeros((4, 4), numpy.float64)
    a = numpy.array([0, 1, -9], dtype=numpy.int32)
    fd.fill_diversity_matrix(m, a, a)


if __name__ == "__main__":
    from vcheck.implutil import serve

    warm_up()

    serve(run_case, limit=60)
