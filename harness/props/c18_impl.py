"""C18 implementation runner: drives the real aligners of cogent3.

case kinds
  pair : global_pairwise / local_pairwise (optionally with HIRSCHBERG_LIMIT forced to 0)
  star : app.align.pairwise_to_multiple on given pairwise alignments
  ref  : get_app("align_to_ref") + the pairwise alignments it is built from
  prog : get_app("progressive_align")
floats are returned as floats (scores); the driver compares them with tolerances."""
import warnings

warnings.filterwarnings("ignore")

_STATE = {}


def _mods():
    if not _STATE:
        import cogent3
        import cogent3.align.pairwise as pw
        from cogent3.align import align as al
        from cogent3.app import align as app_align

        _STATE.update(cogent3=cogent3, pw=pw, al=al, app_align=app_align, limit=pw.HIRSCHBERG_LIMIT)
    return _STATE


def _sdict(S):
    """S: {"AC": score, ...} -> {(a, b): score}"""
    return {(k[0], k[1]): v for k, v in S.items()}


DYADIC_T = {"T1": [[.5, 0, .5], [0, .5, .5], [.25, .25, .5]], "T3": [[.5, .25, .25], [.25, .5, .25], [.25, .25, .5]]}


def run_dyadic(c):
    """_align_pairwise (the function under classic_align_pairwise) with power-of-two tables, without logs"""
    import numpy
    from cogent3.align import indel_model

    m = _mods()
    s1 = m["cogent3"].make_seq(c["a"], name="a", moltype="dna")
    s2 = m["cogent3"].make_seq(c["b"], name="b", moltype="dna")
    alpha = "".join(s1.moltype.alphabet)
    k = c["dyadic"]["k"]
    psub = numpy.array([[2.0 ** k[alpha[i] + alpha[j]] for j in range(len(alpha))] for i in range(len(alpha))])
    TM = indel_model.pair_transition_matrix("XYM", numpy.array(DYADIC_T[c["dyadic"]["T"]]))
    mprobs = numpy.ones(len(alpha), float) / len(alpha)
    aln, score = m["al"]._align_pairwise(s1, s2, mprobs, psub, TM, c["local"], return_score=True,
                                         use_logs=False, use_scaling=False)
    d = aln.to_dict()
    return {"rows": [d["a"], d["b"]], "score": float(score), "n": len(alpha), "alphabet": alpha}


def middle_row(c, s1, s2, S):
    """the divide step of PairEmissionProbs.hirschberg on the real objects: forward and backward scores of the
    middle row from the implementation's own scores_at_rows (same T2 edits as _half_row_scores), summed"""
    import numpy
    from cogent3.align import indel_model, pairwise
    from cogent3.evolve.likelihood_tree import make_likelihood_tree_leaf

    alpha = s1.moltype.alphabet
    Sm = numpy.zeros([len(alpha), len(alpha)], float)
    for i, m1 in enumerate(alpha):
        for j, m2 in enumerate(alpha):
            Sm[i, j] = S[m1, m2]
    psub = numpy.exp(Sm)
    mprobs = numpy.ones(len(psub), float) / len(psub)
    TM = indel_model.classic_gap_scores(c["d"], c["e"])
    leaves = [make_likelihood_tree_leaf(seq, seq.moltype.alphabet, seq.name) for seq in (s1, s2)]
    p1, p2 = [pairwise.AlignableSeq(leaf) for leaf in leaves]
    EP = pairwise.Pair(p1, p2).make_simple_emission_probs(mprobs, [psub])
    hmm = EP.make_pair_HMM(TM)
    (states, T) = hmm._transition_matrix
    dp_options = pairwise.DPFlags(viterbi=True, local=False)
    links = EP.pair.children[0].midlinks()

    def half(backward):
        T2 = T.copy()
        if backward:
            T2[0, 1:-1] = 1.0
        else:
            T2[1:-1:, -1] = 1.0
        return EP.scores_at_rows((states, T2), dp_options, last_row=[link[backward] for link in links],
                                 backward=bool(backward))

    with numpy.errstate(all="ignore"):
        mid = half(0) + half(1)
    out = []
    for row in mid[0]:
        out.append([None if (v == -numpy.inf or numpy.isnan(v)) else float(v) for v in row])
    return {"k": int(links[0][0]), "rows": out}


def run_pair(c):
    if c.get("dyadic"):
        return run_dyadic(c)
    m = _mods()
    mt = c.get("moltype", "dna")
    s1 = m["cogent3"].make_seq(c["a"], name="a", moltype=mt)
    s2 = m["cogent3"].make_seq(c["b"], name="b", moltype=mt)
    if c.get("gmatch") is not None:
        S = m["al"].make_generic_scoring_dict(c["gmatch"], mt)
    else:
        S = _sdict(c["S"])
    opts = c.get("opts") or {}
    limit = _limit(c)

    def call():
        """the aligner in the configuration of the case -> (rows or None, score or None)"""
        kw = {k: opts[k] for k in ("use_logs", "use_scaling", "backward") if k in opts}
        if opts.get("order") or opts.get("score_only"):
            # _align_pairwise (the body of classic_align_pairwise) with the classic tables built here, so that the
            # state order of the transition matrix / return_alignment=False can be varied
            import numpy
            from cogent3.align import indel_model

            alpha = s1.moltype.alphabet
            Sm = numpy.zeros([len(alpha), len(alpha)], float)
            for i, m1 in enumerate(alpha):
                for j, m2 in enumerate(alpha):
                    Sm[i, j] = S[m1, m2]
            # _align_pairwise emits the column (x in s1, y in s2) with psub[y, x]: these tables are built HERE (not by
            # classic_align_pairwise), so they are built for the documented reading Sd[x, y]
            psub = numpy.exp(Sm).T
            mprobs = numpy.ones(len(psub), float) / len(psub)
            if opts.get("order") == "MXY":
                inf = numpy.inf
                C = numpy.array([[0, c["d"], c["d"]], [0, c["e"], inf], [0, inf, c["e"]]])
                T = numpy.exp(-1.0 * C)
                T = T / numpy.sum(T, axis=1)[..., numpy.newaxis]
                TM = indel_model.pair_transition_matrix("MXY", T)
            else:
                TM = indel_model.classic_gap_scores(c["d"], c["e"])
            if opts.get("score_only"):
                return None, float(m["al"]._align_pairwise(s1, s2, mprobs, psub, TM, c["local"], return_alignment=False, **kw))
            aln, score = m["al"]._align_pairwise(s1, s2, mprobs, psub, TM, c["local"], return_score=True, **kw)
        elif c.get("api") == "classic":
            if opts.get("no_score"):
                aln, score = m["al"].classic_align_pairwise(s1, s2, S, c["d"], c["e"], c["local"], **kw), None
            else:
                aln, score = m["al"].classic_align_pairwise(s1, s2, S, c["d"], c["e"], c["local"], return_score=True, **kw)
        else:
            f = m["al"].local_pairwise if c["local"] else m["al"].global_pairwise
            if opts.get("no_score"):
                aln, score = f(s1, s2, S, c["d"], c["e"]), None
            else:
                aln, score = f(s1, s2, S, c["d"], c["e"], return_score=True)
        d = aln.to_dict()
        return [d["a"], d["b"]], (None if score is None else float(score))

    m["pw"].HIRSCHBERG_LIMIT = m["limit"] if limit is None else limit
    try:
        rows, score = call()
    finally:
        m["pw"].HIRSCHBERG_LIMIT = m["limit"]
    out = {"rows": rows, "score": score, "n": len(s1.moltype.alphabet), "alphabet": "".join(s1.moltype.alphabet)}
    if limit is not None:
        # the same input and configuration through the full dynamic programme (default threshold)
        rows2, score2 = call()
        out["full"] = {"rows": rows2, "score": score2}
    if c.get("middle"):
        out["middle"] = middle_row(c, s1, s2, S)
    return out


def _limit(c):
    """HIRSCHBERG_LIMIT of the case: None = the module default"""
    if c.get("hlimit") is not None:
        return int(c["hlimit"])
    return 0 if c.get("hirsch") else None


def _pairwise_alns(c):
    m = _mods()
    out = []
    for k, (r, o) in enumerate(c["pw"]):
        aln = m["cogent3"].make_aligned_seqs({"ref": r, f"s{k}": o}, moltype="dna", array_align=False)
        out.append((f"s{k}", aln))
    return out


def run_star(c):
    m = _mods()
    ref = m["cogent3"].make_seq(c["ref"], name="ref", moltype="dna")
    res = m["app_align"].pairwise_to_multiple(_pairwise_alns(c), ref, "dna").to_dict()
    return {"rows": [res["ref"]] + [res[f"s{k}"] for k in range(len(c["pw"]))]}


def run_ref(c):
    """align_to_ref app; also the pairwise alignments (same scoring) it must preserve"""
    m = _mods()
    seqs = m["cogent3"].make_unaligned_seqs(c["seqs"], moltype="dna")
    kw = {}
    if c.get("d") is not None:
        kw = dict(insertion_penalty=c["d"], extension_penalty=c["e"])
    app = m["cogent3"].get_app("align_to_ref", ref_seq=c["ref"], **kw)
    limit = _limit(c)
    m["pw"].HIRSCHBERG_LIMIT = m["limit"] if limit is None else limit
    try:
        return _run_ref_body(c, m, app, seqs)
    finally:
        m["pw"].HIRSCHBERG_LIMIT = m["limit"]


def _run_ref_body(c, m, app, seqs):
    res = app(seqs)
    if not res:  # NotCompleted
        raise RuntimeError(str(res)[:300])
    d = res.to_dict()
    ref_name = c["ref"]
    if ref_name == "longest":
        # the app's rule: max over (length, name)
        ref_name = max((len(s), n) for n, s in c["seqs"].items())[1]
    S = m["al"].make_dna_scoring_dict(10, -1, -8)
    refseq = m["cogent3"].make_seq(c["seqs"][ref_name], name=ref_name, moltype="dna")
    pairs = {}
    for n, s in c["seqs"].items():
        if n == ref_name:
            continue
        other = m["cogent3"].make_seq(s, name=n, moltype="dna")
        d_cfg = 20 if c.get("d") is None else c["d"]
        e_cfg = 2 if c.get("e") is None else c["e"]
        aln = m["al"].global_pairwise(refseq, other, S, d_cfg, e_cfg).to_dict()
        pairs[n] = [aln[ref_name], aln[n]]
    return {"rows": d, "ref": ref_name, "pairs": pairs}


def run_prog(c):
    m = _mods()
    seqs = m["cogent3"].make_unaligned_seqs(c["seqs"], moltype="dna")
    kw = dict(model=c.get("model", "HKY85"))
    if c.get("tree"):
        kw["guide_tree"] = c["tree"]
    app = m["cogent3"].get_app("progressive_align", **kw)
    # the same app with the linear-space (Hirschberg) code path forced, when asked
    limit = _limit(c)
    m["pw"].HIRSCHBERG_LIMIT = m["limit"] if limit is None else limit
    try:
        res = app(seqs)
    finally:
        m["pw"].HIRSCHBERG_LIMIT = m["limit"]
    if not res:
        # NotCompleted: e.g. the guide-tree distance estimate failed; not an alignment result
        return {"not_completed": str(res)[:300]}
    return {"rows": res.to_dict()}


def _mk_hmm(c):
    """the PairHMM of classic_align_pairwise / _align_pairwise, built the same way (tables for the reading Sd[x, y])"""
    import numpy
    from cogent3.align import indel_model, pairwise
    from cogent3.evolve.likelihood_tree import make_likelihood_tree_leaf

    m = _mods()
    s1 = m["cogent3"].make_seq(c["a"], name="a", moltype="dna")
    s2 = m["cogent3"].make_seq(c["b"], name="b", moltype="dna")
    S = _sdict(c["S"])
    alpha = s1.moltype.alphabet
    Sm = numpy.zeros([len(alpha), len(alpha)], float)
    for i, m1 in enumerate(alpha):
        for j, m2 in enumerate(alpha):
            Sm[i, j] = S[m1, m2]
    psub = numpy.exp(Sm).T
    mprobs = numpy.ones(len(psub), float) / len(psub)
    TM = indel_model.classic_gap_scores(c["d"], c["e"])
    leaves = [make_likelihood_tree_leaf(seq, seq.moltype.alphabet, seq.name) for seq in (s1, s2)]
    p1, p2 = [pairwise.AlignableSeq(leaf) for leaf in leaves]
    EP = pairwise.Pair(p1, p2).make_simple_emission_probs(mprobs, [psub])
    return EP.make_pair_HMM(TM)


def _query(hmm, q):
    kw = {}
    if q.get("ucf") is not None:
        kw["use_cost_function"] = q["ucf"]
    how = q["how"]
    if how == "forward":
        return {"rows": None, "score": float(hmm.get_forward_score(**kw))}
    if how == "score_and_alignment":
        score, aln = hmm.get_viterbi_score_and_alignment(local=q["local"], **kw)
    else:
        vp = hmm.get_viterbi_path(local=q["local"], **kw)
        score, aln = vp.get_score(), vp.get_alignment()
    d = aln.to_dict()
    return {"rows": [d["a"], d["b"]], "score": float(score)}


def run_hist(c):
    """a history of queries on ONE PairHMM object, and each query again on a fresh object"""
    shared = _mk_hmm(c)
    out = {"shared": [], "fresh": [], "n": 4}
    for q in c["queries"]:
        out["shared"].append(_query(shared, q))
        out["fresh"].append(_query(_mk_hmm(c), q))
    return out


def run_case(c):
    k = c["kind"]
    if k == "hist":
        return run_hist(c)
    if k == "pair":
        return run_pair(c)
    if k == "star":
        return run_star(c)
    if k == "ref":
        return run_ref(c)
    if k == "prog":
        return run_prog(c)
    raise ValueError(k)


if __name__ == "__main__":
    from vcheck.implutil import serve

    serve(run_case, limit=120)
