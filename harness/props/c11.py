"""C11 — Likelihood is invariant under relabelling, reordering and re-rooting.

Stage P: Properties/C11.v (column permutation, repetition, merging, child
reordering at any depth, row order, consistent renaming, pulley principle /
re-rooting along any path for reversible matrices, edge split for matrices
that multiply) on the model shared with C02.
Stage C/S: every base configuration is transformed (columns permuted in motif
blocks, rows reordered, children reordered at every node, taxa and edges
renamed, alignment repeated k times / every column repeated k times, root moved
to internal nodes for reversible models, edges split for time-homogeneous
models) and the REAL likelihood function is run on the original and on every
transformed input: lnL' must equal k * lnL and the per-position likelihoods must
map onto each other.  For 4-state models the Coq model (vm_compute, exact
integers) is evaluated on every variant too and compared with the
implementation, and its own [reroot_path] is compared with the original.
"""
from __future__ import annotations

import copy
import json
import random
from fractions import Fraction

from vcheck import core
from vcheck.val import Exc

from . import c02

PROP = "C11"
COQ_TARGETS = ["theories/Model/LikRun.vo"]

LNL_TOL = 1e-8      # |lnL' - k lnL| <= LNL_TOL * max(1, |k lnL|)  (+ conditioning slack for reroot/split, see site_slack)
SITE_TOL = 1e-9     # relative, per position
P_ABS = 1e-13       # reroot/split recompute P = exp(Qt) for other lengths: expm is accurate to ~1e-15 ABSOLUTE per entry,
                    # so a position whose likelihood is itself ~1e-13 carries no relative accuracy (conditioning, not a defect)
APPROX = ("reroot", "split")


# ------------------------------------------------------------------ base configurations

USER_MODES = ["sym", "pair", "single", "pair+sym"]
WORD_BASES = [("codon", "monomers"), ("trinuc", "monomers"), ("dinuc", "monomers"), ("codon", "conditional"), ("codon", "monomer"),
              ("trinuc", "conditional"), ("dinuc", "tuple"), ("codon", "tuple"), ("trinuc", "monomer")]


def rand_user_predicates(rng, mode=None):
    """a random predicate set for a user-built TimeReversibleNucleotide: undirected pairs, a complementary
    directed pair (A>G and G>A as separate parameters) or a single directed predicate.  A set that is not
    balanced must be refused by the constructor; whatever is accepted must give a root-invariant lnL."""
    pairs = [("A", "G"), ("C", "T"), ("A", "C"), ("A", "T"), ("C", "G"), ("G", "T")]
    rng.shuffle(pairs)
    mode = mode or rng.choice(USER_MODES)
    preds = []
    if mode in ("pair", "pair+sym"):
        x, y = pairs.pop()
        preds += [[f"{x}to{y}", x, y, True], [f"{y}to{x}", y, x, True]]
    if mode == "single":
        x, y = pairs.pop()
        if rng.random() < 0.5:
            x, y = y, x
        preds.append([f"{x}to{y}", x, y, True])
    if mode in ("sym", "pair+sym", "single"):
        for x, y in pairs[:rng.randint(1, 3)]:
            preds.append([f"p{x}{y}", x, y, False])
    return preds, mode


def built_base_case(rng, tier, k=0):
    """directly built models in the re-rooting block: user predicate sets (nucleotide) and word models with every
    motif-prob model / motifs= subset / recode_gaps setting"""
    if k % 5 != 4:
        preds, mode = rand_user_predicates(rng, USER_MODES[k % 5 % 4] if k % 2 else "sym")
        c = c02.built_case(rng, tier, "nuc")
        c["build"] = {"kind": "nuc", "mprob_model": None, "predicates": preds, "may_refuse": True, "mode": mode}
    else:
        # word models, position-specific ('monomers') probabilities on 3-letter words first: the runner gives every
        # position of the word its own monomer distribution
        kind_, mp_ = WORD_BASES[(k // 5) % len(WORD_BASES)]
        c = c02.built_case(rng, tier, kind_, mp_, gaps=False)
    # regenerate on a tree with internal nodes so that the root can move
    kind = c["build"]["kind"]
    ntips = rng.randint(4, 6 if kind == "nuc" else 5)
    tree = c02.rand_tree(rng, ntips)
    names = c02.tips(tree)
    rng.shuffle(names)
    words = c["build"].get("motifs") or (c02.sense_codons(c.get("gc")) if kind == "codon" else list(c02.DINUCS) if kind == "dinuc"
                                         else list(c02.ALL_CODONS) if kind == "trinuc" else None)
    ncols = rng.randint(3, 6) if kind != "nuc" else rng.randint(4, 14)
    c.update(tree=c02.newick(tree), _t=tree, scoped=None, bins=c02.rand_bins(rng, [2, 3], [0.5, 2.0]) if rng.random() < 0.25 else None,
             aln=c02.rand_alignment(rng, names, "codon" if kind == "codon" else "dna", ncols, words, c["recode_gaps"]),
             light=kind != "nuc", xf="base", factor=1)
    c.pop("block", None)
    return c


FROM_ALIGN_XF = ("cols", "rows", "children", "repeat", "repeat_each")


def from_align_base(rng, tier, k):
    """motif probabilities taken FROM the alignment (make_likelihood_function(..., motif_probs_from_align=True),
    constant, with or without an explicit motif_pseudocount at set_alignment).  What the property promises there:
    the probabilities are a function of the column composition only, so permuting columns / rows / children leaves
    lnL unchanged and repeating the alignment (or every column) k times leaves the composition unchanged and
    multiplies lnL by k.  (Re-rooting / edge splits hold too but are exercised with fixed probabilities.)"""
    model = ["HKY85", "GTR", "F81", "TN93", "HKY85", "GTR"][k % 6]   # reversible models: motif probs constant by default (GN frees them: a pseudocount is then legitimate)
    tree = c02.rand_tree(rng, rng.randint(3, 6))
    names = c02.tips(tree)
    rng.shuffle(names)
    recode = rng.random() < 0.6
    return dict(model=model, moltype="dna", tree=c02.newick(tree), _t=tree,
                aln=c02.rand_alignment(rng, names, "dna", rng.randint(6, 16), None, recode), mprobs=None, pseed=rng.randrange(1 << 30),
                scoped=None, bins=None, light=False, xf="base", factor=1, recode_gaps=recode,
                from_align={"pseudocount": [None, 0.5, 1.0, 2.0, 0.25][k % 5]})


def base_case(rng, tier):
    r = rng.random()
    if r < 0.45:
        model = rng.choice(c02.NUC_REV)
    elif r < 0.6:
        model = rng.choice(c02.NUC_NONREV)
    elif r < 0.75:
        model = rng.choice(c02.PROTEIN[:2] if tier == "quick" else c02.PROTEIN)
    elif r < 0.82:
        model = rng.choice(c02.DINUC)
    else:
        model = rng.choice(c02.CODON[:4] if tier == "quick" else c02.CODON)
    cls = c02.model_class(model)
    kind = "codon" if cls == "codon" else "protein" if cls == "protein" else "dna"
    big = cls in ("codon", "protein", "dinuc")
    ntips = rng.randint(3, 5 if big else 6)
    tree = c02.rand_tree(rng, ntips)
    names = c02.tips(tree)
    rng.shuffle(names)
    ncols = rng.randint(3, 6) if big else rng.randint(4, 16)
    if cls == "dinuc":
        ncols *= 2
    recode = rng.random() < 0.65
    words = list(c02.DINUCS) if cls == "dinuc" else None
    if words:
        ncols //= 2
    case = dict(model=model, moltype="protein" if kind == "protein" else "dna", tree=c02.newick(tree), _t=tree,
                aln=c02.rand_alignment(rng, names, kind, ncols, words, recode), mprobs=None, pseed=rng.randrange(1 << 30), scoped=None,
                bins=None, light=big, xf="base", factor=1, recode_gaps=recode)
    if model not in c02.EQUAL_FREQ and cls.startswith("nuc"):
        case["mprobs"] = c02.rand_mprobs(rng, c02.DNA)
    if (cls.startswith("nuc") or cls in ("codon", "dinuc")) and rng.random() < 0.25:
        inner = [x["name"] for x in c02.nodes(tree) if x["len"] is not None]
        case["scoped"] = {"edges": sorted(rng.sample(inner, rng.randint(1, max(1, len(inner) // 2))))}
    if cls in ("nuc-rev", "codon") and rng.random() < 0.4:
        case["bins"] = c02.rand_bins(rng, [2, 3], [0.5, 1.0, 2.0])
    return case


def mlen_of(case):
    return c02.case_mlen(case)


def with_tree(case, tree, **kw):
    c = dict(case)
    c["_t"] = tree
    c["tree"] = c02.newick(tree)
    c.update(kw)
    return c


# ------------------------------------------------------------------ transformations

def xf_cols(rng, case):
    m = mlen_of(case)
    L = len(case["aln"][0][1]) // m
    perm = list(range(L))
    rng.shuffle(perm)
    aln = [[n, "".join(s[p * m:(p + 1) * m] for p in perm)] for n, s in case["aln"]]
    return dict(case, aln=aln, xf="cols", perm=perm)


def xf_rows(rng, case):
    aln = list(case["aln"])
    rng.shuffle(aln)
    if aln == case["aln"]:
        aln = aln[::-1]
    return dict(case, aln=aln, xf="rows")


def xf_children(rng, case):
    t = copy.deepcopy(case["_t"])
    for x in c02.nodes(t):
        if x["ch"]:
            before = [c["name"] for c in x["ch"]]
            rng.shuffle(x["ch"])
            if [c["name"] for c in x["ch"]] == before:
                x["ch"].reverse()
    return with_tree(case, t, xf="children")


def xf_relabel(rng, case):
    t = copy.deepcopy(case["_t"])
    allnodes = [x for x in c02.nodes(t) if x["len"] is not None]
    new = [f"Z{i}" if not x["ch"] else f"w{i}" for i, x in enumerate(allnodes)]
    rng.shuffle(new)
    ren = {x["name"]: n for x, n in zip(allnodes, new)}
    for x in allnodes:
        x["name"] = ren[x["name"]]
    aln = [[ren[n], s] for n, s in case["aln"]]
    sc = case.get("scoped")
    if sc:
        sc = {"edges": sorted(ren[e] for e in sc["edges"])}
    return with_tree(case, t, aln=aln, scoped=sc, xf="relabel")


def xf_repeat(rng, case):
    k = rng.choice([2, 3])
    return dict(case, aln=[[n, s * k] for n, s in case["aln"]], xf="repeat", factor=k)


def xf_repeat_each(rng, case):
    k = rng.choice([2, 3])
    m = mlen_of(case)
    aln = [[n, "".join(s[i:i + m] * k for i in range(0, len(s) - len(s) % m, m))] for n, s in case["aln"]]
    return dict(case, aln=aln, xf="repeat_each", factor=k)


def find_path(t, name):
    if t["name"] == name:
        return [t]
    for c in t["ch"]:
        p = find_path(c, name)
        if p:
            return [t] + p
    return None


def xf_reroot(rng, case, target, merge):
    """the internal node `target` becomes the root; every edge keeps its length.  When the old root is left
    with a single child it is either kept as a unary node or (merge) suppressed, adding the two lengths."""
    path = find_path(case["_t"], target)

    def flip(i):
        node, nxt = path[i], path[i + 1]
        ch = [copy.deepcopy(c) for c in node["ch"] if c is not nxt]
        if i > 0:
            ch.append(flip(i - 1))
        sub = {"name": node["name"] if i > 0 else "r0", "len": nxt["len"], "ch": ch}
        if i == 0 and len(ch) == 1 and merge:
            only = ch[0]
            sub = dict(only, len=only["len"] + nxt["len"])
        return sub

    tgt = path[-1]
    new = {"name": "root", "len": None, "ch": [copy.deepcopy(c) for c in tgt["ch"]] + [flip(len(path) - 2)]}
    idx = []
    for a, b in zip(path, path[1:]):
        idx.append([c["name"] for c in a["ch"]].index(b["name"]))
    return with_tree(case, new, xf="reroot", reroot_path=idx, merged=bool(merge and len(path[0]["ch"]) == 2))


def xf_split(rng, case, target, extreme=None):
    t = copy.deepcopy(case["_t"])
    path = find_path(t, target)
    parent, node = path[-2], path[-1]
    # ordinary fractions, and cuts within 1e-9 / 1e-12 of either end of the edge (tiny but positive lengths)
    r = rng.choice([0.5, 0.25, 0.3, 0.8, 1e-9, 1e-12, 1 - 1e-9, 1e-9, 1e-12]) if extreme is None else extreme
    total = node["len"]
    upper = {"name": "s0", "len": total * r, "ch": [node]}
    node["len"] = total - total * r
    parent["ch"][[c["name"] for c in parent["ch"]].index(target)] = upper
    sc = case.get("scoped")
    if sc and target in sc["edges"]:
        sc = {"edges": sorted(sc["edges"] + ["s0"])}
    return with_tree(case, t, scoped=sc, xf="split")


def variants(rng, case, tier):
    out = [xf_cols(rng, case), xf_rows(rng, case), xf_children(rng, case), xf_relabel(rng, case), xf_repeat(rng, case),
           xf_repeat_each(rng, case)]
    if case.get("from_align"):
        return [v for v in out if v["xf"] in FROM_ALIGN_XF]
    t = case["_t"]
    inner = [x["name"] for x in c02.nodes(t) if x["ch"] and x["len"] is not None]
    edges = [x["name"] for x in c02.nodes(t) if x["len"] is not None]
    nmax = 2 if tier == "quick" else 4
    if (case["model"] in c02.REVERSIBLE or case.get("build")) and not case.get("scoped") and inner:
        for tg in rng.sample(inner, min(nmax, len(inner))):
            out.append(xf_reroot(rng, case, tg, merge=rng.random() < 0.5))
    for tg in rng.sample(edges, min(nmax, len(edges))):
        out.append(xf_split(rng, case, tg))
    out.append(xf_split(rng, case, rng.choice(edges), extreme=rng.choice([1e-9, 1e-12, 1 - 1e-10])))
    return out


def large_pair(rng, ncols=140000):
    """6 protein sequences x 140000 random columns on a tree whose non-root node x has 4 tips below it (about
    93000 distinct site patterns there), and the same alignment with its columns permuted"""
    names = ["a", "b", "c", "d", "e", "f"]
    tree = "((a:0.1,b:0.2,c:0.15,d:0.3)x:0.1,e:0.2,f:0.25);"
    rows = [rng.choices(c02.AA, k=ncols) for _ in names]
    perm = list(range(ncols))
    rng.shuffle(perm)
    base = dict(model="JTT92", moltype="protein", tree=tree, aln=[[n, "".join(r)] for n, r in zip(names, rows)], mprobs=None,
                pseed=1, scoped=None, bins=None, light="lnL", xf="base", factor=1)
    permuted = dict(base, aln=[[n, "".join(r[p] for p in perm)] for n, r in zip(names, rows)], xf="cols", perm=perm)
    return base, permuted


# ------------------------------------------------------------------ transformations done by the real cogent3 API

def unrooted_tree(rng, ntips):
    while True:
        t = c02.rand_tree(rng, ntips)
        if len(t["ch"]) >= 3:
            return t


def canon_splits(tree):
    """node name -> (unrooted edge as the sorted tip set not containing the smallest tip name, tip set below the node)"""
    alltips = sorted(c02.tips(tree))
    out = {}
    for x in c02.nodes(tree):
        if x["len"] is None:
            continue
        below = set(c02.tips(x))
        side = below if alltips[0] not in below else set(alltips) - below
        out[x["name"]] = (tuple(sorted(side)), below)
    return out


def expected_selected(tree, a, c, o, stem, clade):
    """edges named by tip_names=[a, c] relative to the outgroup o, as unrooted edges: among the edges whose side
    away from o contains a and c, the one with the smallest such side is the stem; the clade is every edge lying
    strictly inside that side.  Independent of where the tree is rooted."""
    alltips = set(c02.tips(tree))
    sp = canon_splits(tree)
    away = {nm: (below if o not in below else alltips - below) for nm, (_, below) in sp.items()}
    cands = [s_ for s_ in away.values() if a in s_ and c in s_]
    star = min(cands, key=len)
    stem = bool(stem) if stem is not None else False
    clade = bool(clade) if clade is not None else (not stem)
    sel = set()
    for nm, s_ in away.items():
        if (stem and s_ == star) or (clade and s_ < star):
            sel.add(sp[nm][0])
    return sorted(list(x) for x in sel)


API_MODELS = ["HKY85", "GTR", "TN93", "GY94", "MG94HKY", "Y98", "HKY85", "K80"]


def api_base(rng, tier, model=None, ntips=None):
    model = model or rng.choice(API_MODELS)
    cls = c02.model_class(model)
    codon = cls == "codon"
    ntips = ntips or rng.randint(5, 5 if codon else 7)
    tree = unrooted_tree(rng, ntips)
    names = c02.tips(tree)
    rng.shuffle(names)
    recode = rng.random() < 0.6
    gc = rng.choice([None, 2, 4]) if codon else None
    words = c02.sense_codons(gc) if codon else None
    case = dict(model=model, moltype="dna", tree=c02.newick(tree), _t=tree,
                aln=c02.rand_alignment(rng, names, "codon" if codon else "dna", rng.randint(3, 5) if codon else rng.randint(6, 14), words, recode),
                mprobs=c02.rand_mprobs(rng, c02.DNA) if (cls.startswith("nuc") and model not in c02.EQUAL_FREQ) else None,
                pseed=rng.randrange(1 << 30), scoped=None, bins=None, recode_gaps=recode, gc=gc, xf="api")
    return case


def rand_rootings(rng, tree, k):
    inner = [["rooted_at", x["name"]] for x in c02.nodes(tree) if x["ch"] and x["len"] is not None]
    tp = [["rooted_with_tip", t] for t in c02.tips(tree)]
    pool = inner + rng.sample(tp, min(len(tp), 3))
    rng.shuffle(pool)
    out = pool[:k]
    if inner and not any(r[0] == "rooted_at" for r in out):
        out[0] = rng.choice(inner)
    return out


def api_cases(rng, tier):
    quick = tier == "quick"
    out = []
    opts = [dict(clade=True), dict(stem=True), dict(stem=True, clade=True), dict()]
    for k in range(10 if quick else 120):
        c = api_base(rng, tier, model=API_MODELS[k % len(API_MODELS)])
        a, cc, o = rng.sample(c02.tips(c["_t"]), 3)
        c["scoped"] = dict(tip_names=[a, cc], outgroup_name=o, **opts[k % len(opts)])
        c["api"] = {"op": "scoped_reroot", "rootings": rand_rootings(rng, c["_t"], 2 if quick else 3)}
        out.append(c)
    for k in range(7 if quick else 80):
        c = api_base(rng, tier, model=API_MODELS[(k + 3) % len(API_MODELS)])
        if k % 2:
            named = [x["name"] for x in c02.nodes(c["_t"]) if x["len"] is not None]
            c["scoped"] = {"edges": sorted(rng.sample(named, rng.randint(1, len(named) // 2)))}
        c["api"] = {"op": "annotated_roundtrip", "rootings": rand_rootings(rng, c["_t"], 2 if quick else 3)}
        out.append(c)
    for k in range(7 if quick else 80):
        c = api_base(rng, tier, model=(API_MODELS + ["GN", "JTT92x"])[k % 9] if False else API_MODELS[(k + 5) % len(API_MODELS)])
        tp = c02.tips(c["_t"])
        mode = ["swap", "rotate3", "shuffle", "swap+internal"][k % 4]
        if mode.startswith("swap"):
            x, y = rng.sample(tp, 2)
            mapping = {x: y, y: x}
            if mode == "swap+internal":
                inner = [n["name"] for n in c02.nodes(c["_t"]) if n["ch"] and n["len"] is not None]
                if len(inner) >= 2:
                    u, v = rng.sample(inner, 2)
                    mapping.update({u: v, v: u})
        elif mode == "rotate3":
            x, y, z = rng.sample(tp, 3)
            mapping = {x: y, y: z, z: x}
        else:
            sh = tp[:]
            while sh == tp:
                rng.shuffle(sh)
            mapping = {x: y for x, y in zip(tp, sh) if x != y}
        c["api"] = {"op": "relabel_perm", "mapping": mapping, "mode": mode}
        out.append(c)
    for k in range(3 if quick else 30):
        c = api_base(rng, tier, model=API_MODELS[(k + 1) % len(API_MODELS)])
        inner = ["root"] + [n["name"] for n in c02.nodes(c["_t"]) if n["ch"] and n["len"] is not None]
        c["api"] = {"op": "inplace_reorder", "nodes": sorted(rng.sample(inner, rng.randint(1, len(inner))))}
        out.append(c)
    return out


def lnl_close(x, y):
    return abs(x - y) <= LNL_TOL * max(1.0, abs(x))


def check_api(rep, case, obs, stats):
    """comparisons for one API case; returns True when a violation was reported"""
    op = case["api"]["op"]
    shape = c02.shape_key(case)
    small = strip(case)
    stats["api"][op] = stats["api"].get(op, 0) + 1
    if isinstance(obs, dict) and "exc" in obs:
        rep.violation(f"raised:api-{op}:{shape}", dict(case=small, observed_impl=obs, broken="the API history made the implementation raise or hang"))
        return True
    if op == "relabel_perm":
        want_tips = sorted(c02.tips(case["_t"])) if "_t" in case else sorted(n for n, _ in case["aln"])
        if obs["tips_after"] != want_tips or not lnl_close(obs["lnL"], obs["lnL_relabelled"]):
            rep.violation(f"relabel-perm:{shape}", dict(case=small, expected_by_spec=obs["lnL"], observed_impl=obs["lnL_relabelled"],
                                                        tips_after=obs["tips_after"], newick_after=obs.get("newick_after"),
                                                        broken="lnL changes (or tip labels are lost) when tips are renamed by a permutation of the "
                                                               "existing labels with tree.reassign_names + aln.rename_seqs"))
            return True
        return False
    if op == "inplace_reorder":
        stats["pairs"] += 1
        if not lnl_close(obs["lnL"], obs["lnL_reordered"]):
            rep.violation("inplace-reorder", dict(case=small, expected_by_spec=obs["lnL"], observed_impl=obs["lnL_reordered"],
                                                  broken="lnL changes (silently) when the children of nodes of the tree object are reordered in "
                                                         "place between make_likelihood_function and set_alignment"))
            return True
        return False
    res = obs["results"]
    raised = [r for r in res if "raised" in r]
    if raised and len(raised) < len(res) or (raised and op == "annotated_roundtrip"):
        rep.violation(f"raised:api-{op}:{shape}", dict(case=small, observed_impl=res, broken="the same rule / round trip raises on some rootings only"))
        return True
    if raised:
        stats["api_all_raised"] = stats.get("api_all_raised", 0) + 1
        return False
    if op == "annotated_roundtrip":
        for r in res:
            stats["pairs"] += 1
            if not lnl_close(obs["lnL"], r["lnL"]):
                rep.violation(f"annotated-roundtrip:{shape}", dict(case=small, rooting=r["rooting"], expected_by_spec=obs["lnL"], observed_impl=r["lnL"],
                                                                   values_on_edges=r.get("values"), params=obs.get("params"),
                                                                   broken="lf -> get_annotated_tree -> re-root -> make_likelihood_function does not reproduce lnL"))
                return True
        return False
    # scoped_reroot
    sc = case["scoped"]
    a, c_ = sc["tip_names"]
    tree = case.get("_t")
    want = expected_selected(tree, a, c_, sc["outgroup_name"], sc.get("stem"), sc.get("clade")) if tree is not None else res[0]["selected"]
    for r in res:
        stats["pairs"] += 1
        if r["param"] is not None and r["selected"] != want:
            rep.violation(f"scope-rooting:{shape}", dict(case=small, rooting=r["rooting"], expected_by_spec=want, observed_impl=r["selected"],
                                                         broken="tip_names + outgroup_name selects a different set of (unrooted) edges depending on where the tree is rooted"))
            return True
        if r["lengths"] != res[0]["lengths"]:
            rep.violation(f"reroot-lengths:{shape}", dict(case=small, rooting=r["rooting"], expected_by_spec=res[0]["lengths"], observed_impl=r["lengths"],
                                                          broken="edge lengths change when the tree is re-rooted with rooted_at / rooted_with_tip"))
            return True
        if not lnl_close(res[0]["lnL"], r["lnL"]):
            rep.violation(f"reroot-scoped:{shape}", dict(case=small, rooting=r["rooting"], expected_by_spec=res[0]["lnL"], observed_impl=r["lnL"],
                                                         broken="lnL of a reversible model with a tip_names/outgroup-scoped parameter depends on the rooting"))
            return True
    return False


def zero_length_corpus():
    """the ONE deterministic witness of known finding C11-K1 (an edge split at fraction 0: a piece of length exactly
    0.0).  Every other block steers away from exact zeros (fractions 0.0 / 1.0, tree lengths 0.0)."""
    tree = {"name": "root", "len": None, "ch": [c02.leaf("a", 0.1), c02.leaf("b", 0.2),
                                                 {"name": "x", "len": 0.5, "ch": [c02.leaf("c", 0.3), c02.leaf("d", 0.4)]}]}
    base = dict(model="HKY85", moltype="dna", tree=c02.newick(tree), _t=tree,
                aln=[["a", "ACGTNN-AACA"], ["b", "ACGTRYTAACA"], ["c", "ACGTAC-AACA"], ["d", "ACATAC?AACA"]],
                mprobs={"A": 0.1, "C": 0.2, "G": 0.3, "T": 0.4}, pseed=21, scoped=None, bins=None, light=False, xf="base", factor=1,
                recode_gaps=True)
    return base, [xf_split(random.Random(0), base, "c", extreme=0.0)]


def strip(case):
    return {k: v for k, v in case.items() if not k.startswith("_")}


# ------------------------------------------------------------------ expectations

def expected_sites(base_sites, v):
    xf = v["xf"]
    if xf == "cols":
        return [base_sites[p] for p in v["perm"]]
    if xf == "repeat":
        return base_sites * v["factor"]
    if xf == "repeat_each":
        return [x for x in base_sites for _ in range(v["factor"])]
    return list(base_sites)


def site_close(a, b, approx):
    return abs(a - b) <= SITE_TOL * max(abs(a), abs(b)) + (P_ABS if approx else 0.0)


def key_of(v):
    return f"{v['xf']}:{c02.shape_key(v)}"


def compare_variant(rep, base, bobs, v, vobs, stats):
    key = key_of(v)
    if isinstance(vobs, dict) and "exc" in vobs:
        rep.violation(f"raised:{key}", dict(case=strip(v), base=strip(base), observed_impl=vobs,
                                             broken="the transformed input made the implementation raise or hang"))
        return False
    want = v["factor"] * bobs["lnL"]
    stats["pairs"] += 1
    stats["by_xf"][v["xf"]] = stats["by_xf"].get(v["xf"], 0) + 1
    approx = v["xf"] in APPROX
    slack = sum(P_ABS / max(x, 1e-300) for x in bobs["site_liks"]) if approx else 0.0
    if not abs(vobs["lnL"] - want) <= LNL_TOL * max(1.0, abs(want)) + slack:
        rep.violation(key, dict(case=strip(v), base=strip(base), expected_by_spec=want, observed_impl=vobs["lnL"],
                                base_lnL=bobs["lnL"], broken=f"lnL changes under `{v['xf']}` (Properties/C11.v)"))
        return False
    exp = expected_sites(bobs["site_liks"], v)
    got = vobs["site_liks"]
    if len(exp) != len(got) or any(not site_close(a, b, approx) for a, b in zip(exp, got)):
        rep.violation("sites:" + key, dict(case=strip(v), base=strip(base), expected_by_spec=exp, observed_impl=got,
                                           broken=f"per-position likelihoods change under `{v['xf']}`"))
        return False
    return True


def model_sites(mout, obs, exact):
    """model output -> exact per-position likelihoods (Fractions)"""
    idx, counts, liks = mout
    bits = c02.lik_scale_bits(obs, exact[0])
    return [Fraction(liks[i], 1 << bits) for i in idx], [Fraction(x, 1 << bits) for x in liks]


# ------------------------------------------------------------------ the check

def run(tier: str, seed: int) -> int:
    rep = core.Report(PROP, tier, seed)
    rng = random.Random(seed * 1000003 + 11)
    pr = core.proof_stage(PROP, COQ_TARGETS)
    core.proof_coverage(rep, pr, "make theories/Properties/C11.vo && coqc gen/assum_C11.v (Print Assumptions)", [
        "the theorems are about an abstract commutative semiring; IEEE-754 rounding is outside them (tolerance 1e-8 on lnL, rel 1e-9 per position; "
        "for reroot/split, where P = exp(Qt) is recomputed for other lengths, additionally 1e-13 absolute per position likelihood: "
        "expm is only absolutely accurate, so positions with likelihood below ~1e-10 are compared loosely)",
        "reversibility pi_i P_ij = pi_j P_ji and the product rule P(t1+t2) = P(t1) P(t2) are premises of pulley / edge_split; "
        "that the implementation's matrices satisfy them is only observed numerically (C05 obligation)",
        "the transformations are applied by the harness (its own tree/alignment rewriting) and fed to the real likelihood function; "
        "cogent3's own tree re-rooting methods are C09's subject, not used here",
        "executed model instance Z (Z_laws) on the implementation's own floats scaled by a power of two (see C02)",
    ])
    proof_broken = bool(pr["problems"])
    nbase = 22 if tier == "quick" else 180
    nbuilt = 20 if tier == "quick" else 120
    nfa = 6 if tier == "quick" else 60
    bases = ([base_case(rng, tier) for _ in range(nbase)] + [built_base_case(rng, tier, k) for k in range(nbuilt)]
             + [from_align_base(rng, tier, k) for k in range(nfa)])
    groups = [zero_length_corpus()] + [(b, variants(rng, b, tier)) for b in bases]
    flat = []
    for b, vs in groups:
        flat.append(b)
        flat += vs
    apis = api_cases(rng, tier)
    # genome-scale pair (column permutation only; lnL only): > 65535 distinct site patterns below a non-root node
    big_base, big_perm = large_pair(rng)
    import concurrent.futures as cf

    with cf.ThreadPoolExecutor(max_workers=3) as ex:
        fut_big = ex.submit(core.run_impl_sharded, "c11_impl.py", [big_base, big_perm], None, 2)
        fut_api = ex.submit(core.run_impl_sharded, "c11_impl.py", [strip(c) for c in apis], None, 2)
        impl = core.run_impl_sharded("c11_impl.py", [strip(c) for c in flat], nshards=min(core.NPROC, 6))
        big_obs = fut_big.result()
        api_obs = fut_api.result()
    obs_of = {id(c): o for c, o in zip(flat, impl)}

    stats = dict(pairs=0, by_xf={}, model_variants=0, model_reroot=0, refused=0, refused_modes={}, accepted_modes={}, large=None, api={})
    for c, o in zip(apis, api_obs):
        check_api(rep, c, o, stats)
    # the large pair
    bo, po = big_obs
    if "exc" in bo or "exc" in po:
        rep.violation("raised:cols:protein:large", dict(case=dict(big_perm, aln="<omitted: regenerate from seed>"), observed_impl=bo if "exc" in bo else po,
                                                        broken="the genome-scale alignment made the implementation raise or hang"))
    else:
        stats["pairs"] += 1
        stats["large"] = dict(columns=len(big_base["aln"][0][1]), lnL=bo["lnL"], lnL_permuted=po["lnL"])
        if not abs(bo["lnL"] - po["lnL"]) <= LNL_TOL * max(1.0, abs(bo["lnL"])):
            rep.violation("cols:protein:large", dict(case=big_perm, base=big_base, expected_by_spec=bo["lnL"], observed_impl=po["lnL"],
                                                     broken="lnL changes under column permutation of a genome-scale alignment "
                                                            "(> 65535 distinct site patterns at an internal node)"))
    disagreements = []
    model_jobs = []   # (case, obs, exact)
    reroot_jobs = []  # (path, base, obs, exact)
    bad_params = set()
    for b, vs in groups:
        bobs = obs_of[id(b)]
        if isinstance(bobs, dict) and "exc" in bobs:
            rep.violation(f"raised:base:{c02.shape_key(b)}", dict(case=strip(b), observed_impl=bobs,
                                                                   broken="a valid configuration made the implementation raise or hang"))
            continue
        mode = (b.get("build") or {}).get("mode")
        if "refused" in bobs:
            # an unbalanced user predicate set refused by the TimeReversible constructor: allowed outcome
            stats["refused"] += 1
            stats["refused_modes"][mode] = stats["refused_modes"].get(mode, 0) + 1
            continue
        if mode:
            stats["accepted_modes"][mode] = stats["accepted_modes"].get(mode, 0) + 1
        for c in [b] + vs:
            o = obs_of[id(c)]
            bad = c02.param_checks(c, o) if isinstance(o, dict) and "exc" not in o and "refused" not in o else None
            if bad:
                bad_params.add(id(c))
                zero = bad[0] == "edge-length" and bad[1].get("expected_by_spec") == 0.0
                rep.violation("edge-length:zero-length" if zero else f"{bad[0]}:{c02.shape_key(c)}", dict(case=strip(c), base=strip(b), **bad[1]))
        for v in vs:
            if id(v) not in bad_params:      # a wrong parameter value is reported once, not again through its consequence on lnL
                compare_variant(rep, b, bobs, v, obs_of[id(v)], stats)
        if not b["light"]:
            for c in [b] + vs:
                o = obs_of[id(c)]
                # an input on which a parameter value is already reported wrong (e.g. the known zero-length finding)
                # is not compared again through the model: the divergence there is that finding itself
                if isinstance(o, dict) and "exc" not in o and id(c) not in bad_params:
                    try:
                        model_jobs.append((c, o, c02.exact_inputs(o)))
                    except ValueError:
                        pass
            for v in vs:
                if v["xf"] == "reroot":
                    try:
                        reroot_jobs.append((v["reroot_path"], b, bobs, c02.exact_inputs(bobs)))
                    except ValueError:
                        pass
    mres = {}
    try:
        outs = c02.run_model(PROP, [j[0] for j in model_jobs], [j[1] for j in model_jobs], [j[2] for j in model_jobs])
        for (c, o, e), r in zip(model_jobs, outs):
            mres[id(c)] = (r, o, e)
        rr = core.coq_eval(PROP, ["Lib.LikTree", "Model.Lik", "Model.LikRun"], "run_reroot",
                           ["([" + ";".join(f"{k}%nat" for k in p) + "], " + c02.coq_case(strip(b), o, e) + ")"
                            for p, b, o, e in reroot_jobs], "list nat * case", shard=12, tag="r")
        rr = [c02.decode_model(r) for r in rr]
    except core.CheckError as e:
        if not proof_broken:
            raise
        rep.notes.append(f"model not runnable: {str(e)[:300]}")
        rr = []
    # model vs implementation on every variant; model(original) vs model(transformed)
    for b, vs in groups:
        if id(b) not in mres:
            continue
        (bm, bo, be) = mres[id(b)]
        if isinstance(bm, Exc) or bm is None:
            continue
        bsites, _ = model_sites(bm, bo, be)
        for v in vs:
            if id(v) not in mres:
                continue
            vm, vo, ve = mres[id(v)]
            if isinstance(vm, Exc) or vm is None:
                disagreements.append(dict(key="model-raises:" + key_of(v), case=strip(v), model_output=repr(vm)))
                continue
            stats["model_variants"] += 1
            vsites, vuniq = model_sites(vm, vo, ve)
            # (a) model = implementation on the transformed input
            if vm[0] != vo["root_index"] or vm[1] != vo["root_counts"]:
                disagreements.append(dict(key="compression:" + key_of(v), case=strip(v), observed_impl=[vo["root_index"], vo["root_counts"]],
                                          model_output=[vm[0], vm[1]]))
                continue
            if any(not c02.close(float(a), x, c02.REL_TOL) for a, x in zip(vsites, vo["site_liks"])):
                disagreements.append(dict(key="model-vs-impl:" + key_of(v), case=strip(v), observed_impl=vo["site_liks"],
                                          model_output=[float(a) for a in vsites]))
                continue
            # (b) the theorem's equation on the model: exact when the matrices are bit-identical, else up to rounding of P
            exp = expected_sites(bsites, v)
            same_P = v["xf"] in ("cols", "rows", "children", "repeat", "repeat_each") and vo["psubs"] == bo["psubs"] and vo["pi"] == bo["pi"]
            if same_P:
                bad = exp != vsites
            else:
                bad = len(exp) != len(vsites) or any(not site_close(float(a), float(x), v["xf"] in APPROX) for a, x in zip(exp, vsites))
            if bad:
                disagreements.append(dict(key="model-invariance:" + key_of(v), case=strip(v), base=strip(b),
                                          expected_by_spec=[float(a) for a in exp], model_output=[float(a) for a in vsites],
                                          exact=same_P))
    for (p, b, o, e), r in zip(reroot_jobs, rr):
        if r is None or isinstance(r, Exc):
            disagreements.append(dict(key="model-reroot-path", case=strip(b), path=p, model_output=repr(r)))
            continue
        stats["model_reroot"] += 1
        bm = mres[id(b)][0]
        s0, _ = model_sites(bm, o, e)
        s1, _ = model_sites(r, o, e)
        if any(not site_close(float(a), float(x), True) for a, x in zip(s0, s1)):
            disagreements.append(dict(key="model-reroot-value", case=strip(b), path=p, expected_by_spec=[float(a) for a in s0],
                                      model_output=[float(a) for a in s1]))

    dist = {}
    for b in bases:
        k = c02.shape_key(b)
        dist[k] = dist.get(k, 0) + 1
    nt = {json.dumps([v["xf"], v["model"], v["tree"], v["aln"]], sort_keys=True) for b, vs in groups for v in vs
          if len(set(c02.columns_of(b, mlen_of(b)))) >= 2}
    rep.coverage.update(
        evaluations=stats["pairs"], distinct_nontrivial=len(nt),
        rule="one evaluation = one (original, transformed) pair of real likelihood-function runs; non-trivial = the alignment has "
             ">= 2 distinct columns and the transformation changes the input text (permutation/reordering forced to be non-identity)",
        samples=[dict(base=strip(groups[0][0]), transformed=strip(groups[0][1][0]),
                      lnL=[obs_of[id(groups[0][0])].get("lnL"), obs_of[id(groups[0][1][0])].get("lnL")])],
        input_distribution=dict(base_configurations=len(bases), pairs=stats["pairs"], by_transformation=stats["by_xf"], by_model_class=dist,
                                model_evaluated_variants=stats["model_variants"], model_reroot_paths=stats["model_reroot"],
                                user_predicate_sets=dict(refused_by_constructor=stats["refused_modes"], accepted=stats["accepted_modes"]),
                                large_pair=stats["large"], api_cases=stats["api"],
                                matrix=c02.distribution_matrix([(c, obs_of[id(c)]) for c in flat])),
        partial=["IEEE-754 rounding is outside the theorems (tolerance-based comparison of two runs)",
                 "reversibility / Chapman-Kolmogorov of the implementation's matrices are premises (C05), observed only numerically",
                 "re-rooting with edge-scoped parameters is not exercised (edge identity changes with the root); "
                 "root placed inside an edge = edge_split + reroot_invariant, exercised through the merged-edge variant"],
        model_impl_disagreements=len(disagreements), exhaustive=False,
    )
    core.conclude(rep, pr, f"{len(bases)} base configurations / {stats['pairs']} transformed pairs", disagreements[:5],
                  "Model.LikRun.run_case / run_reroot vs cogent3 likelihood function on transformed inputs", tier, PROP)
    return rep.finish("proof")


def replay(path: str) -> int:
    d = json.loads(open(path).read())
    if "case" not in d:
        print("replay names a broken obligation, not an input:", d.get("broken") or d.get("key"))
        return 1
    if d["case"].get("api"):
        o = core.run_impl_lines("c11_impl.py", [d["case"]])[0]

        class _R:
            hit = None

            def violation(self, key, doc, no_input=False):
                self.hit = (key, doc)

        r = _R()
        check_api(r, d["case"], o, dict(api={}, pairs=0))
        print("impl  :", {k: (v if k != "results" else [{kk: x.get(kk) for kk in ("rooting", "lnL", "raised")} for x in v]) for k, v in o.items() if k in ("lnL", "lnL_relabelled", "results", "tips_after", "exc")})
        if r.hit:
            print("oracle:", r.hit[1].get("broken"), "-- expected", str(r.hit[1].get("expected_by_spec"))[:200], "observed", str(r.hit[1].get("observed_impl"))[:200])
        print("REPRODUCED" if r.hit else "not reproduced")
        return 1 if r.hit else 0
    if "base" not in d:
        o = core.run_impl_lines("c11_impl.py", [dict(d["case"], light=True)])[0]
        print("impl  :", {k: o[k] for k in o if k in ("exc", "tb", "lnL")})
        print("oracle: a valid configuration must evaluate without raising" if str(d.get("key", "")).startswith("raised")
              else "oracle: n/a (model/implementation correspondence record)")
        bad = "exc" in o
        print("REPRODUCED" if bad else "not reproduced")
        return 1 if bad else 0
    v, b = d["case"], d["base"]
    ov, ob = core.run_impl_lines("c11_impl.py", [dict(v, light=True), dict(b, light=True)])
    if "exc" in ov or "exc" in ob:
        print("impl  :", ov if "exc" in ov else ob)
        print("REPRODUCED")
        return 1
    want = v.get("factor", 1) * ob["lnL"]
    print(f"impl  : lnL(transformed by {v['xf']}) = {ov['lnL']!r}")
    print(f"oracle: {v.get('factor', 1)} * lnL(original) = {want!r}")
    exp = expected_sites(ob["site_liks"], v)
    approx = v["xf"] in APPROX
    slack = sum(P_ABS / max(x, 1e-300) for x in ob["site_liks"]) if approx else 0.0
    bad = (not abs(ov["lnL"] - want) <= LNL_TOL * max(1.0, abs(want)) + slack or len(exp) != len(ov["site_liks"])
           or any(not site_close(a, x, approx) for a, x in zip(exp, ov["site_liks"])))
    pc = c02.param_checks(v, ov)
    if pc:
        print("oracle:", pc[1]["broken"], "-- expected", pc[1]["expected_by_spec"], "observed", pc[1]["observed_impl"])
        bad = True
    print("REPRODUCED" if bad else "not reproduced")
    return 1 if bad else 0
