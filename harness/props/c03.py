"""C03 — Alignment operations equal the same operations on the gapped strings.

Stage P: Properties/C03.v (rows = IndelMap x sequence view; every operation of
the annotatable class reads as the plain string operation).
Stage C: the real Alignment / ArrayAlignment (and the new-style
SequenceCollection) vs the Coq model / specification (vm_compute).
Stage S: the plain-Python oracle on lists of strings decides what is a
violation."""
from __future__ import annotations

import itertools
import json
import random

from vcheck import core
from vcheck.val import Exc, cbool, zlit, zopt, zstr

PROP = "C03"
COQ_TARGETS = ["theories/Model/AlignedRun.vo"]

KIND_CODE = {"dna": 0, "rna": 1, "protein": 2, "text": 2}
NON_DEGEN = {"dna": "TCAG", "rna": "UCAG", "protein": "ACDEFGHIKLMNPQRSTUVWY"}
GAPS = {"dna": "-?", "rna": "-?", "protein": "-?"}
COMP = {"dna": str.maketrans("ACGTRYKMSWBDHVN-?", "TGCAYRMKSWVHDBN-?"),
        "rna": str.maketrans("ACGURYKMSWBDHVN-?", "UGCAYRMKSWVHDBN-?")}
ALPHA = {
    "dna": "ACGT" * 3 + "----" + "NRY?",
    "rna": "ACGU" * 3 + "----" + "NRY?",
    "protein": "ACDEFGHIKLMNPQRSTVWY" + "-----" + "BXZ?",
    "text": "ABCD" * 2 + "---",
}
# row names (the same table as in c03_impl.py): several are proper substrings / prefixes of one another
NAMES = ["Mouse", "Mouse_2", "Mo", "use_2", "Mouse_2b"]


def name_of(i):
    return NAMES[i] if 0 <= i < len(NAMES) else f"s{i}"


def id_of(name):
    return NAMES.index(name) if name in NAMES else int(name[1:])


FLAG_NAMES = ["imap-slice-clamps", "imap-add-merges-gaps", "aligned-add-no-shortcut", "take_positions-negate-joins",
              "aligned-int-negative-index"]

# ------------------------------------------------------------------ the oracle: lists of strings

SILENT = "silent"   # the property does not speak about this input (explicit rejection / outside the guard)
NONE = "none"       # documented convention: nothing kept -> the method returns None


class OState:
    def __init__(self, moltype, arr, rows):
        self.moltype, self.arr, self.rows = moltype, arr, [(i, s) for i, s in rows]

    @property
    def L(self):
        return len(self.rows[0][1]) if self.rows else 0

    def with_rows(self, rows, moltype=None, arr=None):
        return OState(moltype or self.moltype, self.arr if arr is None else arr, rows)

    def maprows(self, f):
        return self.with_rows([(i, f(s)) for i, s in self.rows])


def pred_keep(op, moltype, col):
    if op["op"] == "no_degen":
        chars = set(NON_DEGEN[moltype]) | ({"-"} if op["allow_gap"] else set())
        return set(col) <= chars
    if op["op"] == "filtered":
        return set(col) <= set(op["chars"])
    if op["op"] == "omit_gap":
        num, den = (999999, 1000000) if op.get("default") else (op["num"], op["den"])
        g = sum(1 for c in col if c in GAPS[moltype])
        return g * den <= num * len(col)
    raise ValueError(op)


def oracle_step(st: OState, op):
    """-> OState | NONE | SILENT"""
    o, L, mt = op["op"], st.L, st.moltype
    nucleic = mt in ("dna", "rna")
    if o == "slice":
        a, b = op["a"], op["b"]
        if not st.arr and any(x is not None and x < -L for x in (a, b)):
            return SILENT   # out-of-range negative bound: IndexError by design on the annotatable class
        return st.maprows(lambda s: s[a:b])
    if o == "slicestep":
        if not st.arr or op["c"] == 0:
            return SILENT   # strides are rejected (NotImplementedError) by the annotatable class
        return st.maprows(lambda s: s[op["a"]:op["b"]:op["c"]])
    if o == "index":
        i = op["i"]
        if not -L <= i < L:
            return SILENT
        return st.maprows(lambda s: s[i])
    if o == "rc":
        if not nucleic:
            return SILENT
        return st.maprows(lambda s: s.translate(COMP[mt])[::-1])
    if o == "addself":
        return st.maprows(lambda s: s + s)
    if o == "addrows":
        other = [(i, r) for i, r in op["other"]]
        d = dict(other)
        if len(other) != len(st.rows) or len(d) != len(other) or any(i not in d for i, _ in st.rows) \
                or len({len(r) for _, r in other}) > 1:
            return SILENT    # counts / names differ, ragged right operand: ValueError by design
        return st.with_rows([(i, s + d[i]) for i, s in st.rows])     # rows paired by NAME
    if o == "rename":
        m = {a: b for a, b in op["map"]}
        new = [m.get(i, i) for i, _ in st.rows]
        if len(set(new)) != len(new):
            return SILENT
        return st.with_rows([(m.get(i, i), s) for i, s in st.rows])
    if o == "addslices":
        if not st.arr and any(x < -L for x in (op["a"], op["b"], op["c"], op["d"])):
            return SILENT
        return st.maprows(lambda s: s[op["a"]:op["b"]] + s[op["c"]:op["d"]])
    if o == "takepos":
        cols = op["cols"]
        if op["negate"]:
            if any(not 0 <= i < L for i in cols):
                return SILENT
            return st.maprows(lambda s: "".join(c for i, c in enumerate(s) if i not in cols))
        if any(not -L <= i < L for i in cols):
            return SILENT
        return st.maprows(lambda s: "".join(s[i] for i in cols))
    if o == "takeseqs":
        have = [i for i, _ in st.rows]
        names = op["names"]
        if any(n not in have for n in names) or len(set(names)) != len(names):
            return SILENT
        d = dict(st.rows)
        rows = [(i, s) for i, s in st.rows if i not in names] if op["negate"] else [(n, d[n]) for n in names]
        return st.with_rows(rows) if rows else SILENT
    if o in ("no_degen", "omit_gap", "filtered"):
        m = op["motif"]
        if m < 1 or (o != "filtered" and mt == "text"):
            return SILENT
        keep = []
        for j in range(L // m):
            col = "".join(s[j * m:(j + 1) * m] for _, s in st.rows)
            if pred_keep(op, mt, col):
                keep.append(j)
        if not keep:
            return NONE
        return st.maprows(lambda s: "".join(s[j * m:(j + 1) * m] for j in keep))
    if o == "degaprel":
        d = dict(st.rows)
        if op["name"] not in d:
            return SILENT
        keep = [i for i, c in enumerate(d[op["name"]]) if c != "-"]
        return st.maprows(lambda s: "".join(s[i] for i in keep))
    if o == "sample":
        m = op["motif"]
        if m < 1 or not op["locs"] or any(not 0 <= l < L // m for l in op["locs"]):
            return SILENT   # (n=0 means "the default number of positions")
        return st.maprows(lambda s: "".join(s[l * m:(l + 1) * m] for l in op["locs"]))
    if o == "to_rna":
        if not nucleic:
            return SILENT
        return st.with_rows([(i, s.replace("T", "U")) for i, s in st.rows], moltype="rna")
    if o == "to_dna":
        if not nucleic:
            return SILENT
        return st.with_rows([(i, s.replace("U", "T")) for i, s in st.rows], moltype="dna")
    if o == "to_type":
        return st.with_rows(st.rows, arr=not st.arr)
    if o == "window":
        w, stp, k = op["w"], op["st"], op["k"]
        if w < 1 or stp < 1:
            return SILENT
        starts = list(range(0, L - w + 1, stp))
        if not 0 <= k < len(starts):
            return SILENT
        return st.maprows(lambda s: s[starts[k]:starts[k] + w])
    raise ValueError(o)


def oracle_ro(st: OState):
    """read-only methods as functions of the named strings"""
    rows = [s for _, s in st.rows]
    L = st.L
    canon = NON_DEGEN.get(st.moltype, "")
    return [[i for i, _ in st.rows], L, ["".join(s[j] for s in rows) for j in range(L)],
            [[c in "-?" for c in s] for s in rows], [sum(1 for s in rows if s[j] in "-?") for j in range(L)], False,
            [sum(1 for c in s if c in "-?") for s in rows],
            [j for j in range(L) if len({s[j] for s in rows}) > 1],
            [[i, sum(1 for c in s if c in canon)] for i, s in st.rows],
            [s if st.arr else s.replace("-", "") for s in rows]]


RO_NAMES = ["names", "len", "positions", "get_gap_array", "count_gaps_per_pos", "is_ragged", "count_gaps_per_seq",
            "variable_positions", "get_lengths", "get_seq"]


def oracle_degap(st: OState):
    return [[i, "".join(c for c in s if c not in "-?")] for i, s in st.rows]


# ------------------------------------------------------------------ rendering for Coq

def zl(xs):
    return "[" + ";".join(zlit(int(x)) for x in xs) + "]"


def coq_op(op, moltype):
    o = op["op"]
    if o == "slice":
        return f"OSlice {zopt(op['a'])} {zopt(op['b'])}"
    if o == "slicestep":
        return f"OSliceStep {zopt(op['a'])} {zopt(op['b'])} {zlit(op['c'])}"
    if o == "index":
        return f"OIndex {zlit(op['i'])}"
    if o == "rc":
        return "ORc"
    if o == "addself":
        return "OAddSelf"
    if o == "addrows":
        return "OAddRows [" + ";".join(f"({zstr(name_of(i))},{zstr(r)})" for i, r in op["other"]) + "]"
    if o == "rename":
        return "ORename [" + ";".join(f"({zstr(name_of(a))},{zstr(name_of(b))})" for a, b in op["map"]) + "]"
    if o == "addslices":
        return f"OAddSlices {zlit(op['a'])} {zlit(op['b'])} {zlit(op['c'])} {zlit(op['d'])}"
    if o == "takepos":
        return f"OTakePos {zl(op['cols'])} {cbool(op['negate'])}"
    if o == "takeseqs":
        names = [zstr(name_of(i)) for i in op["names"]]
        arg = f"(NStr {names[0]})" if op.get("as_str") and len(names) == 1 else "(NList [" + ";".join(names) + "])"
        return f"OTakeSeqs {arg} {cbool(op['negate'])}"
    if o == "no_degen":
        chars = NON_DEGEN.get(moltype, "") + ("-" if op["allow_gap"] else "")
        return f"OFilter (PAllowed {zstr(chars)}) {zlit(op['motif'])}"
    if o == "filtered":
        return f"OFilter (PAllowed {zstr(op['chars'])}) {zlit(op['motif'])}"
    if o == "omit_gap":
        num, den = (999999, 1000000) if op.get("default") else (op["num"], op["den"])
        return f"OFilter (PGapFrac {zstr(GAPS.get(moltype, '-?'))} {zlit(num)} {zlit(den)}) {zlit(op['motif'])}"
    if o == "degaprel":
        return f"ODegapRel {zstr(name_of(op['name']))}"
    if o == "sample":
        return f"OSample {zl(op['locs'])} {zlit(op['motif'])}"
    if o == "to_rna":
        return "OToRna"
    if o == "to_dna":
        return "OToDna"
    if o == "to_type":
        return "OToType"
    if o == "window":
        return f"OWindow {zlit(op['w'])} {zlit(op['st'])} {zlit(op['k'])}"
    raise ValueError(o)


def coq_case(c, flags):
    fl = "[" + ";".join(cbool(f) for f in flags) + "]"
    rows = "[" + ";".join(f"({zstr(name_of(i))},{zstr(s)})" for i, s in c["rows"]) + "]"
    # the moltype constants an operation is given are those of the alignment it is applied to
    mt, rendered = c["moltype"], []
    for o in c["ops"]:
        rendered.append(coq_op(o, mt))
        if not c.get("indep") and mt in ("dna", "rna") and o["op"] in ("to_rna", "to_dna"):
            mt = "rna" if o["op"] == "to_rna" else "dna"
    ops = "[" + ";".join(rendered) + "]"
    return f"({fl}, {KIND_CODE[c['moltype']]}, {cbool(c['arr'])}, {cbool(c.get('indep', False))}, {rows}, {ops})"


# ------------------------------------------------------------------ generators

def rand_string(rng, alpha, L):
    s = [rng.choice(alpha) for _ in range(L)]
    # gap runs, leading / trailing gaps
    if L and rng.random() < 0.4:
        a = rng.randrange(L)
        b = min(L, a + rng.randint(1, 4))
        s[a:b] = "-" * (b - a)
    if L and rng.random() < 0.25:
        k = rng.randint(1, min(3, L))
        s[:k] = "-" * k
    if L and rng.random() < 0.25:
        k = rng.randint(1, min(3, L))
        s[L - k:] = "-" * k
    return "".join(s)


def bound(rng, L, lo_extra=2, hi_extra=3):
    r = rng.random()
    if r < 0.15:
        return None
    return rng.randint(-L - lo_extra, L + hi_extra)


def steer(op, st: OState, flags):
    """True if the op lies in a region where the implementation is known (by
    the behavioural probe) to follow the pinned, property-violating variant:
    such inputs are represented by their corpus witness and not generated again"""
    clamp, madd2, noshort, negate_ok, negidx = flags
    L = st.L
    o = op["op"]
    if not st.arr:
        if not clamp:
            if o == "slice" and op["b"] is not None and op["b"] > L:
                return True
            if o == "addslices" and (op["b"] > L or op["d"] > L):
                return True
        if not noshort and o == "addself":
            return True
        if not negidx:
            if o == "index" and op["i"] < 0:
                return True
            if o == "takepos" and not op["negate"] and any(i < 0 for i in op["cols"]):
                return True
    if not negate_ok and o == "takepos" and op["negate"] and st.moltype in ("dna", "rna"):
        return True
    return False


def rand_op(rng, st: OState, wild=False):
    L, mt = st.L, st.moltype
    names = [i for i, _ in st.rows]
    kinds = ["slice"] * 5 + ["index", "rc", "rc", "addself", "addrows", "addslices", "takepos", "takepos", "takepos_neg",
                              "takeseqs", "takeseqs", "rename", "no_degen", "omit_gap", "omit_gap", "filtered", "degaprel", "sample", "to_rna",
                              "to_dna", "to_type", "to_type", "window", "slicestep"]
    k = rng.choice(kinds)
    if k == "slice":
        return dict(op="slice", a=bound(rng, L), b=bound(rng, L))
    if k == "slicestep":
        return dict(op="slicestep", a=bound(rng, L), b=bound(rng, L), c=rng.choice([-3, -2, -1, 1, 2, 3]))
    if k == "index":
        return dict(op="index", i=rng.randint(-L - (1 if wild else 0), L - (0 if wild else 1)) if L or wild else 0)
    if k == "rc":
        return dict(op="rc")
    if k == "addself":
        return dict(op="addself")
    if k == "addrows":
        n = rng.randint(0, 4)
        other = [[i, rand_string(rng, ALPHA[mt], n)] for i in names]
        rng.shuffle(other)     # the right operand lists the same names in its own order
        r = rng.random()
        if wild and r < 0.3 and len(other) > 1:
            other = other[:-1]                                  # a name missing, counts differ
        elif wild and r < 0.6:
            other[0][0] = max(names) + 1                        # same count, one name differs
        return dict(op="addrows", other=other)
    if k == "rename":
        sub = rng.sample(names, rng.randint(1, len(names)))
        # the renamer is injective on the names present (two rows under one name would collapse in the dict)
        pool = [x for x in range(8) if x not in names or x in sub]
        targets = rng.sample(pool, len(sub))
        return dict(op="rename", map=[[i, t] for i, t in zip(sub, targets)])
    if k == "addslices":
        return dict(op="addslices", a=rng.randint(0, L), b=rng.randint(0, L + 1), c=rng.randint(0, L), d=rng.randint(0, L + 1))
    if k in ("takepos", "takepos_neg"):
        if L == 0:
            return dict(op="takepos", cols=[], negate=k == "takepos_neg")
        lo = -L if k == "takepos" and rng.random() < 0.3 else 0
        cols = [rng.randint(lo, L - 1) for _ in range(rng.randint(0, 5))]
        if wild and rng.random() < 0.5:
            cols.append(L + rng.randint(0, 1))
        return dict(op="takepos", cols=cols, negate=k == "takepos_neg")
    if k == "takeseqs":
        sub = rng.sample(names, rng.randint(1, len(names)))
        if rng.random() < 0.4:
            sub = sub[:1]
        # a single name is also passed as a plain string
        return dict(op="takeseqs", names=sub, negate=rng.random() < 0.4, as_str=len(sub) == 1 and rng.random() < 0.6)
    if k == "no_degen":
        return dict(op="no_degen", motif=rng.choice([1, 1, 2, 3]), allow_gap=rng.random() < 0.5)
    if k == "omit_gap":
        if rng.random() < 0.3:
            return dict(op="omit_gap", default=True, motif=rng.choice([1, 1, 2]))
        num, den = rng.choice([(0, 1), (1, 4), (1, 2), (3, 4), (1, 1)])
        return dict(op="omit_gap", num=num, den=den, motif=rng.choice([1, 1, 2, 3]))
    if k == "filtered":
        chars = "".join(sorted(set(rng.sample(ALPHA[mt], rng.randint(2, 8)))))
        return dict(op="filtered", chars=chars, motif=rng.choice([1, 1, 2]))
    if k == "degaprel":
        return dict(op="degaprel", name=rng.choice(names))
    if k == "sample":
        m = rng.choice([1, 1, 2])
        pop = L // m
        if not pop:
            return dict(op="rc")
        return dict(op="sample", locs=[rng.randrange(pop) for _ in range(rng.randint(1, 5))], motif=m)
    if k in ("to_rna", "to_dna", "to_type"):
        return dict(op=k)
    if k == "window":
        w = rng.randint(1, max(1, L))
        stp = rng.randint(1, 3)
        n = len(range(0, L - w + 1, stp))
        return dict(op="window", w=w, st=stp, k=rng.randrange(n) if n else 0)
    raise ValueError(k)


def random_case(rng, flags, maxlen=12):
    mt = rng.choice(["dna", "dna", "dna", "rna", "protein", "text"])
    arr = rng.random() < 0.4 and mt != "text"
    nrows = rng.randint(1, 5)
    L = rng.choice([0, 1, 2, 3] + list(range(2, maxlen + 1)) * 2)
    rows = [(i, rand_string(rng, ALPHA[mt], L)) for i in range(nrows)]
    c = dict(moltype=mt, arr=arr, rows=rows, ops=[], block="random", info=rng.random() < 0.3, feature=rng.random() < 0.3)
    st = OState(mt, arr, rows)
    for _ in range(rng.randint(1, 6)):
        for _try in range(20):
            wild = rng.random() < 0.1
            earlier = [o for o in c["ops"] if o["op"] in ("sample", "takepos", "takeseqs", "addrows")]
            if earlier and rng.random() < 0.15:
                op = dict(rng.choice(earlier))    # the caller re-uses its arguments
                if op["op"] == "addrows" and st.moltype in ("dna", "rna"):
                    # the right operand is written in the alphabet of the alignment's moltype at this step
                    # (the constructor would silently coerce T/U otherwise, which is its documented behaviour)
                    a, b = ("T", "U") if st.moltype == "rna" else ("U", "T")
                    op["other"] = [[i, r.replace(a, b)] for i, r in op["other"]]
                if oracle_step(st, op) is SILENT:
                    continue
            else:
                op = rand_op(rng, st, wild)
            if op["op"] in ("to_rna", "to_dna") and mt in ("protein", "text"):
                continue   # DNA/RNA conversion of a non-nucleic alignment is outside the property
            if op["op"] == "rc" and mt in ("protein", "text") and rng.random() < 0.8:
                continue
            if mt == "text" and op["op"] in ("no_degen", "omit_gap", "to_type"):
                continue
            if not steer(op, st, flags):
                break
        else:
            break
        c["ops"].append(op)
        nxt = oracle_step(st, op)
        if nxt is SILENT:
            break          # an out-of-guard operation ends the chain
        if nxt is NONE:
            continue
        st = nxt
    return c


def all_strings(alpha, L):
    return ["".join(t) for t in itertools.product(alpha, repeat=L)]


def single_ops(L, nrows, arr, mt, tier):
    """every single operation with every argument on an alignment of L columns"""
    ops = []
    bs = [None] + list(range(-L - 1, L + 2))
    for a in bs:
        for b in bs:
            ops.append(dict(op="slice", a=a, b=b))
    for i in range(-L - 1, L + 1):
        ops.append(dict(op="index", i=i))
    ops += [dict(op="rc"), dict(op="addself"), dict(op="to_type"), dict(op="to_rna")]
    for a, b, c, d in [(0, L // 2, L // 2, L), (0, L, 0, L), (1, L, 0, 1), (0, 1, 1, 2), (L // 2, L, 0, L // 2)]:
        ops.append(dict(op="addslices", a=a, b=b, c=c, d=d))
    distinct = ["-A", "C-", "AC"][:nrows]
    ops.append(dict(op="addrows", other=[[i, distinct[i]] for i in range(nrows)]))
    ops.append(dict(op="addrows", other=[[i, distinct[i]] for i in reversed(range(nrows))]))
    ops.append(dict(op="addrows", other=[[i, "-"] for i in reversed(range(nrows))]))
    ops.append(dict(op="addrows", other=[[i + 1, distinct[i]] for i in range(nrows)]))      # a name the left operand lacks
    ops.append(dict(op="rename", map=[[0, 4]]))
    if nrows > 1:
        ops.append(dict(op="rename", map=[[0, 1], [1, 0]]))
    cols_sets = [[i] for i in range(-L, L)] + [[i, j] for i in range(L) for j in range(L)] + [[]]
    if L >= 3:
        cols_sets.append([2, 0, 2])
    for cols in cols_sets:
        ops.append(dict(op="takepos", cols=cols, negate=False))
        if all(i >= 0 for i in cols):
            ops.append(dict(op="takepos", cols=cols, negate=True))
    for m in (1, 2):
        ops.append(dict(op="omit_gap", default=True, motif=m))
        for num, den in [(0, 1), (1, 2)]:
            ops.append(dict(op="omit_gap", num=num, den=den, motif=m))
        ops.append(dict(op="filtered", chars="A-", motif=m))
        ops.append(dict(op="filtered", chars="AC", motif=m))
        ops.append(dict(op="no_degen", motif=m, allow_gap=False))
        ops.append(dict(op="no_degen", motif=m, allow_gap=True))
        pop = L // m
        for locs in ([0], [pop - 1, 0], [0, 0, pop - 1]):
            if all(0 <= l < pop for l in locs):
                ops.append(dict(op="sample", locs=locs, motif=m))
    for n in range(nrows):
        ops.append(dict(op="degaprel", name=n))
        for as_str in (False, True):
            ops.append(dict(op="takeseqs", names=[n], negate=False, as_str=as_str))
            if nrows > 1:
                ops.append(dict(op="takeseqs", names=[n], negate=True, as_str=as_str))
    if nrows > 1:
        ops.append(dict(op="takeseqs", names=list(reversed(range(nrows))), negate=False))
    for w in range(1, L + 1):
        for stp in (1, 2):
            for k in range(len(range(0, L - w + 1, stp))):
                ops.append(dict(op="window", w=w, st=stp, k=k))
    if arr:
        for a in bs:
            for c in (-2, -1, 2):
                ops.append(dict(op="slicestep", a=a, b=None, c=c))
                ops.append(dict(op="slicestep", a=None, b=a, c=c))
    return ops


def exhaustive_block(tier, flags):
    shapes = ([(1, 3, "AC-"), (1, 4, "A-"), (2, 3, "A-"), (3, 1, "A-")] if tier == "quick"
              else [(1, 4, "AC-"), (1, 5, "A-"), (2, 4, "A-"), (2, 3, "AC-"), (3, 2, "A-")])
    cases = []
    seen = set()
    for nrows, maxL, alpha in shapes:
        for L in range(0, maxL + 1):
            strs = all_strings(alpha, L)
            for combo in itertools.product(strs, repeat=nrows):
                if combo in seen:
                    continue
                seen.add(combo)
                rows = [(i, s) for i, s in enumerate(combo)]
                for arr in (False, True):
                    st = OState("dna", arr, rows)
                    ops = [o for o in single_ops(L, nrows, arr, "dna", tier) if not steer(o, st, flags)]
                    cases.append(dict(moltype="dna", arr=arr, rows=rows, ops=ops, indep=True, block="exhaustive"))
    return cases


WITNESS_ROWS = [(0, "TAC-T"), (1, "T-CGT")]


def corpus(flags):
    w = lambda arr, ops, name: dict(moltype="dna", arr=arr, rows=WITNESS_ROWS, ops=ops, block="corpus", witness=name)
    return [
        w(False, [dict(op="addself")], "C03-1 aln + aln"),
        w(False, [dict(op="takepos", cols=[0], negate=True)], "C03-2 take_positions negate (Alignment)"),
        w(True, [dict(op="takepos", cols=[0], negate=True)], "C03-2 take_positions negate (ArrayAlignment)"),
        w(False, [dict(op="index", i=-1)], "C03-3 aln[-1]"),
        w(False, [dict(op="takepos", cols=[-1], negate=False)], "C03-3 take_positions([-1])"),
        w(False, [dict(op="slice", a=None, b=9)], "C08-1 aln[:9]"),
        dict(moltype="dna", arr=False, rows=[(0, "-A-")], ops=[dict(op="addself")], block="corpus", witness="C08-2 via aln + aln"),
        w(False, [dict(op="slice", a=1, b=4), dict(op="rc"), dict(op="takepos", cols=[2, 0], negate=False), dict(op="to_type"),
                  dict(op="slicestep", a=None, b=None, c=-1), dict(op="to_type"), dict(op="omit_gap", num=0, den=1, motif=1)],
          "mixed chain"),
    ]


def new_collection_cases(rng, n):
    out = []
    for _ in range(n):
        mt = rng.choice(["dna", "rna"])
        nrows = rng.randint(1, 4)
        rows = [(i, rand_string(rng, ALPHA[mt], rng.randint(0, 10))) for i in range(nrows)]
        ops = []
        names = list(range(nrows))
        for _ in range(rng.randint(1, 4)):
            k = rng.choice(["rc", "to_rna", "to_dna", "takeseqs", "degap"])
            if k == "takeseqs":
                sub = rng.sample(names, rng.randint(1, len(names)))
                if rng.random() < 0.5:
                    sub = sub[:1]
                neg = rng.random() < 0.4 and len(sub) < len(names)
                ops.append(dict(op="takeseqs", names=sub, negate=neg, as_str=len(sub) == 1 and rng.random() < 0.6))
                names = [n for n in names if n not in sub] if neg else sub
            else:
                ops.append(dict(op=k))
        out.append(dict(moltype=mt, rows=rows, ops=ops, new_collection=True, block="new-collection"))
    return out


def sub_alignment_cases(rng, n):
    out = []
    for _ in range(n):
        mt = rng.choice(["dna", "rna", "protein"])
        nrows = rng.randint(1, 4)
        L = rng.randint(1, 8)
        rows = [(i, rand_string(rng, ALPHA[mt], L)) for i in range(nrows)]
        seqs = None if rng.random() < 0.3 else sorted(rng.sample(range(nrows), rng.randint(1, nrows)))
        pos = None if rng.random() < 0.3 else [rng.randrange(L) for _ in range(rng.randint(1, 5))]
        ns, np_ = rng.random() < 0.3, rng.random() < 0.3
        if np_ and pos is not None:
            pos = sorted(set(pos))
        out.append(dict(moltype=mt, arr=True, rows=rows, ops=[], sub_alignment=True, seqs=seqs, pos=pos, negate_seqs=ns,
                        negate_pos=np_, block="array-sub-alignment"))
    return out


def check_sub_alignment(rep, c, ir, stats):
    stats["evals"] += 1
    rows = list(c["rows"])
    L = len(rows[0][1])
    if c["pos"] is not None:
        keep = [i for i in range(L) if i not in c["pos"]] if c["negate_pos"] else c["pos"]
        rows = [(i, "".join(s[j] for j in keep)) for i, s in rows]
    if c["seqs"] is not None:
        idx = [i for i in range(len(rows)) if i not in c["seqs"]] if c["negate_seqs"] else c["seqs"]
        rows = [rows[i] for i in idx]
    s = ir["steps"][0]
    exp = [[i, r] for i, r in rows]
    if not exp:
        ok = s.get("exc") == 0
    else:
        ok = "obs" in s and [r[:2] for r in s["obs"][2]] == exp and not s.get("ro")
    stats["ops"]["arr:get_sub_alignment"] = stats["ops"].get("arr:get_sub_alignment", 0) + 1
    if not ok:
        stats["violations"] += 1
        rep.violation("arr:get_sub_alignment" + (":negate_pos" if c["negate_pos"] else "") + (":negate_seqs" if c["negate_seqs"] else ""),
                      dict(case=c, expected_by_spec=exp or NONE, observed_impl=s,
                           broken="get_sub_alignment differs from selecting the rows / columns of the strings"))


def sample_draw_cases(rng, n):
    """sample() drawing its own locations: with_replacement x motif_length 1/2/3 x n (incl. the default n)"""
    out = []
    for k in range(n):
        mt = rng.choice(["dna", "rna", "protein"])
        m = [1, 2, 3][k % 3]
        wr = (k // 3) % 2 == 0
        L = rng.randint(m, 12)
        nrows = rng.randint(1, 4)
        rows = [(i, rand_string(rng, ALPHA[mt], L)) for i in range(nrows)]
        pop = L // m
        nn = rng.choice([None, None, 1, pop, rng.randint(1, pop), rng.randint(1, 2 * pop) if wr else rng.randint(1, pop)])
        out.append(dict(moltype=mt, arr=False, rows=rows, ops=[], sample_draw=True, motif=m, n=nn, with_replacement=wr,
                        seed=rng.randrange(2 ** 31), block="sample-draw"))
    return out


def check_sample_draw(rep, c, ir, stats):
    """-> the Coq cases (explicit locations as actually drawn) to tie the results to the model"""
    from collections import Counter

    rows, m, wr = c["rows"], c["motif"], c["with_replacement"]
    L = len(rows[0][1])
    pop = L // m
    n_eff = c["n"] or pop
    in_blocks = Counter(tuple(s[j * m:(j + 1) * m] for _, s in rows) for j in range(pop))
    derived = []
    shape = ("with-replacement" if wr else "without-replacement") + f":motif{min(m, 2)}"
    for cls in ("old", "arr"):
        r = ir[cls]
        stats["evals"] += 1
        stats["ops"][f"{cls}:sample-draw"] = stats["ops"].get(f"{cls}:sample-draw", 0) + 1
        bad = None
        if "exc" in r:
            bad = f"raised {r.get('cls')}: {r.get('msg')}"
        else:
            got = r["rows"]
            if [i for i, _ in got] != [i for i, _ in rows]:
                bad = "names differ"
            elif any(len(s) != n_eff * m for _, s in got) or r["len"] != n_eff * m:
                bad = f"rows are not n*motif_length = {n_eff * m} long"
            else:
                blocks = [tuple(s[k * m:(k + 1) * m] for _, s in got) for k in range(n_eff)]
                cnt = Counter(blocks)
                if any(b not in in_blocks for b in blocks):
                    bad = "a sampled motif column is not a motif column of the input at a motif-aligned position"
                elif not wr and any(cnt[b] > in_blocks[b] for b in cnt):
                    bad = "sampling without replacement used a position twice"
                elif not r["default_equals_wrapped"]:
                    bad = "the same seed gave different samples (default generators vs the same generators wrapped)"
                elif r["ro"]:
                    bad = f"read-only methods differ from a rebuilt object: {r['ro']}"
                else:
                    draws = [x for x in r["rec"]]
                    ok_args = all((d[0] == "randint" and d[1] == 0 and d[2] == pop and d[3] == n_eff) or
                                  (d[0] == "permutation" and d[1] == pop) for d in draws) and len(draws) == 1
                    if not ok_args:
                        bad = f"locations are not drawn from the {pop} motif positions: {[d[:-1] for d in draws]}"
        if bad:
            stats["violations"] += 1
            rep.violation(f"{cls}:sample-draw:{shape}", dict(case=c, observed_impl=r, broken=bad))
            continue
        locs = r["rec"][0][-1][:n_eff]
        derived.append((cls, dict(moltype=c["moltype"], arr=cls == "arr", rows=rows, indep=True,
                                  ops=[dict(op="sample", locs=locs, motif=m)]), r["rows"]))
    if all("rows" in ir[k] for k in ("old", "arr")) and ir["old"]["rows"] != ir["arr"]["rows"]:
        stats["violations"] += 1
        rep.violation(f"classes-disagree:sample-draw:{shape}", dict(
            case=c, observed_impl=ir, broken="the two classes sample different columns under the same seed"))
    return derived


# ------------------------------------------------------------------ comparison

def shape_of(op, st: OState):
    o, L = op["op"], st.L
    if o in ("slice", "addslices"):
        bs = [op.get(k) for k in ("a", "b", "c", "d") if k in op]
        stops = [op.get(k) for k in ("b", "d") if op.get(k) is not None]
        if any(b > L for b in stops):
            return "stop-beyond-len"
        if any(b is not None and b < 0 for b in bs):
            return "negative-bound"
        return "plain"
    if o == "index":
        return "negative" if op["i"] < 0 else "nonneg"
    if o == "takepos":
        if op["negate"]:
            return "negate"
        return "negative-index" if any(i < 0 for i in op["cols"]) else "plain"
    if o == "takeseqs":
        return ("negate" if op["negate"] else "select") + ("-str" if op.get("as_str") else "")
    if o == "addrows":
        return "same-order" if [i for i, _ in op["other"]] == [i for i, _ in st.rows] else "other-order"
    if o in ("no_degen", "omit_gap", "filtered", "sample"):
        return f"motif{min(op['motif'], 2)}"
    return ""


def key_of(c, op, st, what):
    cls = "new" if c.get("new_collection") else ("arr" if st.arr else "old")
    sh = shape_of(op, st) if not c.get("new_collection") else ""
    return f"{cls}:{op['op']}" + (f":{sh}" if sh else "") + (f":{what}" if what else "")


def model_ids(x, kind):
    """names in the model's output are strings: back to the ids the implementation side reports"""
    if x is None or isinstance(x, Exc):
        return x
    if kind == "obs":
        return [x[0], x[1], [[id_of(r[0])] + list(r[1:]) for r in x[2]]]
    if kind == "degap":
        return [[id_of(r[0]), r[1]] for r in x]
    if kind == "ro":
        return [[id_of(n) for n in x[0]]] + list(x[1:8]) + [[[id_of(p[0]), p[1]] for p in x[8]]] + list(x[9:])
    raise ValueError(kind)


def impl_step_obs(s):
    """implementation step -> comparable observation (as the model prints it)"""
    if "exc" in s and "obs" not in s:
        return Exc(s["exc"])
    return s["obs"]


def check_case(rep, c, ir, mr, stats, disagreements):
    """compare one case: oracle vs implementation (violations), model vs implementation (disagreements)"""
    if isinstance(ir, dict) and "first" not in ir:
        rep.violation(f"construct:{'arr' if c['arr'] else 'old'}", dict(case=c, observed_impl=ir, broken="constructing the alignment raised"))
        return
    st = OState(c["moltype"], c["arr"], c["rows"])
    m_first, m_steps, m_degap, m_ro = (mr if isinstance(mr, list) and len(mr) == 4 else (None, [None] * len(c["ops"]), None, None))
    if mr is not None and isinstance(mr, list) and len(mr) == 4:
        m_first = model_ids(m_first, "obs")
        m_steps = [model_ids(x, "obs") for x in m_steps]
        m_degap = model_ids(m_degap, "degap")
        m_ro = model_ids(m_ro, "ro")
    first = ir["first"]
    o_rows = [[i, s] for i, s in st.rows]
    if [r[:2] for r in first["obs"][2]] != o_rows or first["obs"][1] != st.L:
        rep.violation(f"construct:{'arr' if c['arr'] else 'old'}:rows", dict(case=c, expected_by_spec=o_rows, observed_impl=first,
                                                                              broken="the constructed alignment does not hold the given rows"))
        return
    if mr is not None and first["obs"] != m_first:
        disagreements.append(dict(key="construct", case=c, observed_impl=first["obs"], model_output=m_first))
    indep = c.get("indep", False)
    init = st
    for k, (op, s) in enumerate(zip(c["ops"], ir["steps"])):
        cur = init if indep else st
        stats["evals"] += 1
        exp = oracle_step(cur, op)
        iobs = impl_step_obs(s)
        mobs = m_steps[k] if m_steps else None
        small = dict(c, ops=[op], rows=cur.rows, arr=cur.arr, moltype=cur.moltype, indep=False)
        small.pop("witness", None)
        bad = None
        if exp is SILENT:
            stats["silent"] += 1
        elif exp is NONE:
            if not (isinstance(iobs, Exc) and iobs.code == 0):
                bad = ("returned an alignment or raised where every column is filtered out (None expected)", "none-expected")
        else:
            e_rows = [[i, r] for i, r in exp.rows]
            if isinstance(iobs, Exc):
                bad = (f"raised {s.get('cls')}: {s.get('msg', '')}" if iobs.code else "returned None / {}", "raises" if iobs.code else "returned-none")
            else:
                g_rows = [r[:2] for r in iobs[2]]
                if g_rows != e_rows:
                    lens = {len(r[1]) for r in g_rows}
                    bad = ("rows differ from the string operation" + (" (ragged rows)" if len(lens) > 1 else ""), "rows")
                elif iobs[0] != (1 if exp.arr else 0):
                    bad = ("wrong class after to_type", "class")
                elif iobs[1] != exp.L:
                    bad = (f"len(aln) = {iobs[1]} but the rows have {exp.L} columns", "len")
                elif s.get("ro"):
                    bad = (f"read-only methods answer differently on the result and on a new object built from its rows: {s['ro']}", "readonly")
                elif s.get("gapped_eq") is False:
                    bad = ("get_gapped_seq differs from to_dict", "gapped")
                elif s.get("moltype") and s["moltype"] != exp.moltype and exp.moltype != "text":
                    bad = (f"moltype {s['moltype']} after the operation, expected {exp.moltype}", "moltype")
                elif not exp.arr and any(r[2] != exp.L for r in iobs[2]):
                    bad = ("len(row) differs from the number of columns", "rowlen")
        if exp is not SILENT and isinstance(s, dict) and (s.get("args_modified") or s.get("repeat_differs")):
            what = "arguments-modified" if s.get("args_modified") else "same-arguments-different-result"
            stats["violations"] += 1
            rep.violation(key_of(c, op, cur, what), dict(
                case=small, op=op, observed_impl=s, witness=c.get("witness"), kind=what,
                broken=("the operation modified an argument object of the caller" if s.get("args_modified") else
                        "the same operation with the same argument objects on the same alignment gave a different result")))
        if bad:
            stats["violations"] += 1
            rep.violation(key_of(c, op, cur, ""), dict(
                case=small, op=op, expected_by_spec=(exp if isinstance(exp, str) else [[i, r] for i, r in exp.rows]),
                observed_impl=s, model_output=mobs, witness=c.get("witness"), broken=bad[0], kind=bad[1]))
        if mr is not None and iobs != mobs:
            stats["disagree"] += 1
            if not bad or True:
                disagreements.append(dict(key=key_of(c, op, cur, ""), case=small, op=op, observed_impl=s, model_output=mobs,
                                          flagged_by_oracle=bool(bad)))
        # non-triviality
        if isinstance(exp, OState) and exp.rows != cur.rows and any("-" in r and r.strip("-") for _, r in cur.rows) and exp.L > 0:
            stats["nontrivial"].add(json.dumps([cur.moltype, cur.arr, cur.rows, op], sort_keys=True))
        stats["ops"][op["op"]] = stats["ops"].get(op["op"], 0) + 1
        if indep:
            continue
        # advance: follow the implementation where the oracle is silent, the oracle otherwise
        if isinstance(exp, OState):
            if isinstance(iobs, Exc):
                pass   # implementation kept the old object; so does the oracle (already reported)
            else:
                st = exp if not bad else OState(exp.moltype, bool(iobs[0]), [(r[0], r[1]) for r in iobs[2]])
        elif exp is SILENT and not isinstance(iobs, Exc):
            st = OState(s.get("moltype") if s.get("moltype") in KIND_CODE else cur.moltype, bool(iobs[0]), [(r[0], r[1]) for r in iobs[2]])
    if not indep:
        dg = ir.get("degap")
        if isinstance(dg, list):
            if dg != oracle_degap(st) and st.moltype != "text":
                rep.violation(f"{'arr' if st.arr else 'old'}:degap", dict(case=c, expected_by_spec=oracle_degap(st), observed_impl=dg,
                                                                          broken="degap() differs from the strings without gap characters"))
            if mr is not None and m_degap is not None and dg != m_degap and st.moltype != "text":
                disagreements.append(dict(key="degap", case=c, observed_impl=dg, model_output=m_degap))
        rv = ir.get("ro_values")
        if rv is not None:
            stats["evals"] += 1
            exp = oracle_ro(st)
            if isinstance(rv, dict) or rv != exp:
                which = "raises" if isinstance(rv, dict) else "+".join(n for n, x, y in zip(RO_NAMES, rv, exp) if x != y)
                stats["violations"] += 1
                rep.violation(f"{'arr' if st.arr else 'old'}:readonly:{which}", dict(
                    case=c, expected_by_spec=dict(zip(RO_NAMES, exp)), observed_impl=rv,
                    broken="a read-only method of the result answers differently from the same function of its rows"))
            elif mr is not None and m_ro is not None and rv != m_ro:
                disagreements.append(dict(key="readonly", case=c, observed_impl=rv, model_output=m_ro))


def check_new_collection(rep, c, ir, stats):
    mt = c["moltype"]
    rows = list(c["rows"])
    rev = False
    for op, s in zip(c["ops"], ir["steps"]):
        stats["evals"] += 1
        o = op["op"]
        was_rev = rev
        if o == "rc":
            rev = not rev
            rows = [(i, r.translate(COMP[mt])[::-1]) for i, r in rows]
        elif o == "to_rna":
            rows, mt = [(i, r.replace("T", "U")) for i, r in rows], "rna"
        elif o == "to_dna":
            rows, mt = [(i, r.replace("U", "T")) for i, r in rows], "dna"
        elif o == "takeseqs":
            d = dict(rows)
            rows = [(i, r) for i, r in rows if i not in op["names"]] if op["negate"] else [(n, d[n]) for n in op["names"]]
        elif o == "degap":
            rows = [(i, "".join(ch for ch in r if ch not in "-?")) for i, r in rows]
        exp = [[i, r] for i, r in rows]
        got = s.get("obs", [None, None, None])[2] if "obs" in s else s
        if got != exp:
            stats["violations"] += 1
            rep.violation(f"new:{o}" + (":after-rc" if was_rev else ""), dict(case=c, op=op, expected_by_spec=exp, observed_impl=s,
                                           broken="new-style SequenceCollection result differs from the string operation"))
            return
        stats["ops"]["new:" + o] = stats["ops"].get("new:" + o, 0) + 1


def get_flags():
    r = core.run_impl_lines("c03_impl.py", [dict(probe=True)])[0]
    if "probe" not in r:
        raise core.CheckError(f"variant probe failed: {r}")
    return [bool(x) for x in r["probe"]], r["tables"]


def run_impl_balanced(allcases):
    """core.run_impl_sharded cuts the case list into contiguous chunks; order the cases so that every chunk
    holds the same share of the expensive ones (exhaustive single-operation cases carry hundreds of operations)"""
    n = core.NPROC
    def cost(c):   # operations on the annotatable class cost about three times those on the dense one
        return (len(c.get("ops", [])) + 3) * (1 if c.get("arr") else 3)

    order = sorted(range(len(allcases)), key=lambda i: -cost(allcases[i]))
    bins = [order[k::n] for k in range(n)]
    size = (len(allcases) + n - 1) // n
    # chunks are cut every `size` items: pad the bins to that size by moving items from the tail
    flat = [i for b in bins for i in b]
    res = core.run_impl_sharded("c03_impl.py", [allcases[i] for i in flat], nshards=n)
    out = [None] * len(allcases)
    for pos, i in enumerate(flat):
        out[i] = res[pos]
    return out


def run_model(cases, flags):
    return core.coq_eval(PROP, ["Model.View", "Model.IndelMap", "Model.Aligned", "Spec.AlignedSpec", "Model.AlignedRun"],
                         "run_case", [coq_case(c, flags) for c in cases], "case", shard=60)


def run(tier: str, seed: int) -> int:
    rep = core.Report(PROP, tier, seed)
    rng = random.Random(seed * 7919 + 3)
    pr = core.proof_stage(PROP, COQ_TARGETS)
    core.proof_coverage(rep, pr, "make theories/Properties/C03.vo theories/Model/AlignedRun.vo && coqc gen/assum_C03.v (Print Assumptions)", [
        "rows of the annotatable class are modelled as (C08 IndelMap model x C01 sequence-view model), the array-backed class as "
        "named character lists with numpy-style column operations (Model/AlignedArr.v; the alphabet index encoding is not "
        "modelled); the new-style SequenceCollection has no model: it is compared with the plain-Python oracle",
        "moltype constants (non-degenerate characters, gap characters, IUPAC complement) are data given to the model; the driver "
        "checks them against the live moltype objects",
        "which of the pinned / repaired variants of Model/Aligned.v describes the live code is decided by behavioural probes on "
        "the five witness inputs",
    ])
    flags, tables = get_flags()
    rep.notes.append("variant of the live code: " + ", ".join(f"{n}={'repaired' if f else 'pinned'}" for n, f in zip(FLAG_NAMES, flags)))
    for mt in ("dna", "rna", "protein"):
        t = tables[mt]
        if set(t["non_degen"]) != set(NON_DEGEN[mt]) or t["gaps"] != "".join(sorted(GAPS[mt])) or t["gap"] != "-":
            rep.violation("tables:" + mt, dict(broken="moltype constants differ from the ones given to the model", observed_impl=t),
                          no_input=True)
    proof_broken = bool(pr["problems"])
    nrand = (400 if tier == "quick" else 8000) * (3 if proof_broken else 1)
    cases = corpus(flags) + exhaustive_block(tier, flags) + [random_case(rng, flags) for _ in range(nrand)]
    newc = new_collection_cases(rng, 60 if tier == "quick" else 1500)
    subc = sub_alignment_cases(rng, 60 if tier == "quick" else 1500)
    drawc = sample_draw_cases(rng, 60 if tier == "quick" else 1200)
    import time
    t0 = time.time()
    impl = run_impl_balanced(cases + newc + subc + drawc)
    t1 = time.time()
    model = None
    try:
        model = run_model(cases, flags)
        rep.notes.append(f"implementation {t1 - t0:.0f} s, model {time.time() - t1:.0f} s")
    except core.CheckError as e:
        if not proof_broken:
            raise
        rep.notes.append(f"model not runnable: {str(e)[:300]}")
    stats = dict(evals=0, silent=0, violations=0, disagree=0, nontrivial=set(), ops={})
    disagreements = []
    for k, c in enumerate(cases):
        check_case(rep, c, impl[k], model[k] if model is not None else None, stats, disagreements)
    for c, ir in zip(newc, impl[len(cases):]):
        check_new_collection(rep, c, ir, stats)
    for c, ir in zip(subc, impl[len(cases) + len(newc):]):
        check_sub_alignment(rep, c, ir, stats)
    derived = []
    for c, ir in zip(drawc, impl[len(cases) + len(newc) + len(subc):]):
        derived += check_sample_draw(rep, c, ir, stats)
    if derived and model is not None:
        # the samples actually drawn, replayed through the model with explicit locations
        dm = run_model([d[1] for d in derived], flags)
        for (cls, dc, got), mr in zip(derived, dm):
            mobs = model_ids(mr[1][0], "obs") if isinstance(mr, list) and len(mr) == 4 else mr
            mrows = None if isinstance(mobs, Exc) or mobs is None else [r[:2] for r in mobs[2]]
            if mrows != got:
                disagreements.append(dict(key=f"{cls}:sample-draw", case=dc, observed_impl=got, model_output=mrows))
    blocks = {}
    for c in cases + newc + subc + drawc:
        blocks[c["block"]] = blocks.get(c["block"], 0) + 1
    sample_case = next(c for c in cases if c["block"] == "random")
    rep.coverage.update(
        evaluations=stats["evals"], distinct_nontrivial=len(stats["nontrivial"]),
        rule="one evaluation = one operation applied to one alignment state (its result observed: rows, names, len, per-row map "
             "and sequence, read-only methods against a rebuilt object); non-trivial = the alignment has a row with both a gap and "
             "a residue and the operation yields a non-empty alignment that differs from it",
        samples=[dict(case=sample_case)],
        input_distribution=dict(cases=len(cases) + len(newc) + len(subc) + len(drawc), blocks=blocks, ops=stats["ops"], oracle_silent_steps=stats["silent"]),
        model_impl_disagreements=stats["disagree"], spec_violations=stats["violations"],
        variant={n: ("repaired" if f else "pinned") for n, f in zip(FLAG_NAMES, flags)},
        partial=PARTIAL, exhaustive=False,
    )
    pure = [d for d in disagreements if not d.get("flagged_by_oracle")]
    import os
    if os.environ.get("C03_DEBUG"):
        open("/tmp/c03_disagreements.json", "w").write(json.dumps(disagreements[:200], indent=1, default=str))
    if pure and rep.violations:
        # core.conclude reports model-vs-implementation differences only when nothing else was reported
        d = dict(pure[0])
        d["broken"] = ("correspondence Model.AlignedRun.run_case vs cogent3.core.alignment: model and implementation differ on this "
                       "input while the specification oracle does not flag it")
        d["n_disagreements"] = len(pure)
        rep.violation("correspondence:" + str(d.get("key", "")), d, no_input=True)
    core.conclude(rep, pr, f"{len(cases)} cases / {stats['evals']} operation evaluations against the string oracle", pure[:3],
                  "Model.AlignedRun.run_case vs cogent3.core.alignment", tier, PROP)
    return rep.finish("proof")


PARTIAL = [
    "read-only methods: names, num_seqs, len, to_dict, get_gapped_seq, positions, get_gap_array, count_gaps_per_pos, "
    "count_gaps_per_seq, variable_positions, get_lengths, is_ragged, degap are proved to be functions of the named rows; "
    "get_seq(name) is proved for rows whose sequence holds no gap character (what the constructor builds), its preservation "
    "by every operation is compared only; to_fasta, counts_per_seq, iupac_consensus are compared with a rebuilt object only",
    "the new-style SequenceCollection has no model: compared with the oracle directly; ArrayAlignment.get_sub_alignment likewise",
    "slice bounds below -len, strides and out-of-range integer indices on the annotatable class are rejected or answered "
    "outside the property (oracle-silent; model-vs-implementation only)",
    "to_rna / to_dna of a protein or text alignment is outside the property (the code coerces when the letters happen to be "
    "nucleotide codes): not generated, no theorem",
    "rename_seqs with a renamer that maps two present names to one name (rows collapse in the dict) is outside the guard: not generated",
]


def replay(path: str) -> int:
    d = json.loads(open(path).read())
    if "case" not in d:
        print("replay names a broken obligation, not an input:", d.get("broken"))
        return 1
    c = d["case"]
    ir = core.run_impl_lines("c03_impl.py", [c])[0]
    if c.get("sample_draw"):
        print("impl  :", ir)
        rep = core.Report(PROP, "replay", 0)
        rep.findings = []
        stats = dict(evals=0, violations=0, ops={})
        import io, contextlib
        with contextlib.redirect_stdout(io.StringIO()):
            check_sample_draw(rep, c, ir, stats)
        bad = bool(stats["violations"])
    elif c.get("sub_alignment"):
        print("impl  :", ir)
        rep = core.Report(PROP, "replay", 0)
        rep.findings = []
        stats = dict(evals=0, violations=0, ops={})
        import io, contextlib
        with contextlib.redirect_stdout(io.StringIO()):
            check_sub_alignment(rep, c, ir, stats)
        bad = bool(stats["violations"])
    elif c.get("new_collection"):
        print("impl  :", ir)
        rep = core.Report(PROP, "replay", 0)
        rep.findings = []
        stats = dict(evals=0, violations=0, ops={})
        import io, contextlib
        with contextlib.redirect_stdout(io.StringIO()):
            check_new_collection(rep, c, ir, stats)
        bad = bool(stats["violations"])
    else:
        st = OState(c["moltype"], c["arr"], c["rows"])
        bad = False
        print("rows  :", st.rows)
        for op, s in zip(c["ops"], ir.get("steps", [])):
            exp = oracle_step(st, op)
            print("op    :", op)
            print("impl  :", {k: v for k, v in s.items() if k != "tb"})
            print("oracle:", exp if isinstance(exp, str) else exp.rows)
            if exp is SILENT:
                continue
            iobs = impl_step_obs(s)
            if exp is NONE:
                bad |= not (isinstance(iobs, Exc) and iobs.code == 0)
                continue
            if isinstance(iobs, Exc) or [r[:2] for r in iobs[2]] != [[i, r] for i, r in exp.rows] or iobs[1] != exp.L \
                    or s.get("ro") or s.get("gapped_eq") is False or s.get("args_modified") or s.get("repeat_differs"):
                bad = True
                break
            st = exp
    print("REPRODUCED" if bad else "not reproduced")
    return 1 if bad else 0
