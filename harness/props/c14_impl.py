"""C14 implementation runner: builds scripted define_app pipelines, runs the
real `apply_to` (serial, forced completion orders through a replaced
`cogent3.app.composable.PAR.as_completed`, or real loky workers) into a real
DataStoreDirectory through the real `write_json` writer, and reports the final
store, the main() invocations and the single-call results."""
import contextlib
import glob
import io
import json
import os
import pickle
import shutil
import sys
import tempfile
import time
from typing import Union

from vcheck.implutil import serve
from vcheck.val import exc_code

from cogent3.app import composable as C
from cogent3.app import io as cio
from cogent3.app.composable import GENERIC, LOADER, NotCompleted, define_app
from cogent3.app.data_store import DataMember, DataStoreDirectory
from cogent3.app.sqlite_data_store import DataStoreSqlite
from cogent3.app.typing import SerialisableType

try:
    import cloudpickle as _cp
except ImportError:  # pragma: no cover
    from loky import cloudpickle as _cp

ORIG_AS_COMPLETED = C.PAR.as_completed
CALLS_FILE = [None]


class Obj:
    """base of the payload classes; subclasses are created by name"""

    def __init__(self, key, trace, source, truthy=True):
        self.key, self.trace, self.source, self.truthy = key, trace, source, truthy

    def __bool__(self):
        return bool(self.truthy)

    def to_rich_dict(self):
        return {"cls": type(self).__name__, "key": self.key, "trace": self.trace, "source": safe_source(self),
                "truthy": bool(self.truthy)}


_CLS = {}


def get_cls(name):
    if name == "str":
        return str
    if name not in _CLS:
        cls = type(name, (Obj,), {})
        cls.__module__ = __name__
        globals()[name] = cls
        _CLS[name] = cls
    return _CLS[name]


def key_of(x):
    if isinstance(x, str):
        return x
    if isinstance(x, dict):
        return x.get("key", "")
    if isinstance(x, DataMember):
        return str(x.unique_id)
    if isinstance(x, Obj):
        return x.key
    if isinstance(x, list) and x:
        return x[0].key
    return ""


def trace_of(x):
    if isinstance(x, dict):
        return x.get("trace", "")
    if isinstance(x, Obj):
        return x.trace
    if isinstance(x, list) and x:
        return x[0].trace
    return ""


def safe_source(x):
    """the .source attribute, None when absent or when looking it up raises (odd-shaped values)"""
    try:
        return getattr(x, "source", None)
    except Exception:  # noqa: BLE001
        return None


def srcattr_of(x):
    if isinstance(x, str):
        return x
    if isinstance(x, DataMember):
        return str(x.unique_id)
    if isinstance(x, Obj):
        return safe_source(x)
    if isinstance(x, list) and x:
        return safe_source(x[0])
    return None


_ODD = {}


def odd_value(kind, out, k, t):
    """values whose source cannot be discovered: dicts with an odd "info" entry, objects whose .source / .info lookup
    raises, objects without any source"""
    if kind.startswith("dict_info_"):
        info = {"none": None, "str": "text", "int": 3}[kind[len("dict_info_"):]]
        return {"info": info, "cls": "dict", "key": k, "trace": t, "source": None, "truthy": True}
    if (kind, out) not in _ODD:
        base = get_cls(out)

        def _init(self, key, trace):
            self.key, self.trace, self.truthy = key, trace, True

        ns = {"__init__": _init}
        exc = {"src_typeerror": TypeError, "src_runtime": RuntimeError, "src_zerodiv": ZeroDivisionError}.get(kind)
        if exc is not None:
            def _source(self, _e=exc):
                raise _e("source lookup failed")

            ns["source"] = property(_source)
        elif kind == "info_raises":
            def _info(self):
                raise TypeError("info lookup failed")

            ns["info"] = property(_info)
        elif kind != "nosource":
            raise RuntimeError(f"unknown odd kind {kind}")
        cls = type(out, (base,), ns)
        cls.__module__ = __name__
        _ODD[(kind, out)] = cls
    return _ODD[(kind, out)](k, t)


def make_main(spec, calls_file, delays):
    name, script, out = spec["name"], spec["script"], spec["out"]

    def main(x):
        with open(calls_file, "a") as f:
            f.write(json.dumps([name, key_of(x)]) + "\n")
        if isinstance(x, NotCompleted):
            return x
        k = key_of(x)
        d = delays.get(k)
        if d:
            time.sleep(d / 1000.0)
        t = trace_of(x) + name + ";"
        s = srcattr_of(x)
        act = script.get(k, ["ok"])
        a = act[0]
        if a == "ok":
            return get_cls(out)(k, t, s)
        if a == "raise":
            raise ValueError(act[1])
        if a == "none":
            return None
        if a == "ncsrc":
            return NotCompleted(act[1], name, "scripted", source=x)
        if a == "ncnosrc":
            return NotCompleted(act[1], name, "scripted")
        if a == "wrong":
            return get_cls(act[1])(k, t, s)
        if a == "empty":
            return []
        if a == "list":
            return [get_cls(out)(k, t, s)]
        if a == "str":
            return k
        if a == "falsy":
            return get_cls(out)(k, t, s, truthy=False)
        if a == "dropsrc":
            return get_cls(out)(k, t, None)
        if a == "odd":
            return odd_value(act[1], out, k, t)
        raise RuntimeError(f"unknown action {a}")

    return main


def build_app(spec, calls_file, delays):
    main = make_main(spec, calls_file, delays)
    types = spec["types"]
    if types is None:
        hint = SerialisableType
    elif len(types) == 1:
        hint = get_cls(types[0])
    else:
        hint = Union[tuple(get_cls(t) for t in types)]
    ret = spec.get("ret")
    if not ret:
        ret_hint = SerialisableType
    else:
        hs = tuple(SerialisableType if r == "SerialisableType" else get_cls(r) for r in ret)
        ret_hint = hs[0] if len(hs) == 1 else Union[hs]
    kind = {"loader": LOADER, "generic": GENERIC}[spec["kind"]]
    deco = define_app(app_type=kind, skip_not_completed=bool(spec["skip"]))
    style = spec.get("style", "func")
    base = main
    if style in ("func_args", "func_kwargs"):
        # a function-based app with a mutable constructor argument that the function mutates on every call: the
        # machinery hands each call its own copy, so no call may see what an earlier call did to it
        def main(x, opts):  # noqa: F811
            opts.pop("keep")
            opts["seen"].append(key_of(x))
            if len(opts["seen"]) != 1:
                raise RuntimeError("state of an earlier call is visible: " + repr(opts["seen"]))
            return base(x)

    if style == "class":
        # a class-based app that keeps a scratch state on the instance (the result does not depend on it)
        def _init(self, opts=None):
            self.opts = opts if opts is not None else {}
            self.n = 0
            self.seen = []

        def _main(self, x):
            self.n += 1
            self.seen.append(key_of(x))
            self.opts["last"] = key_of(x)
            return base(x)

        _main.__annotations__ = {"x": hint, "return": ret_hint}
        klass = type(spec["name"], (), {"__init__": _init, "main": _main})
        klass.__module__ = __name__
        cls = deco(klass)
        return cls(opts={"k": [1, 2]})
    main.__name__ = spec["name"]
    main.__qualname__ = spec["name"]
    main.__annotations__ = {"x": hint, "return": ret_hint}
    cls = deco(main)
    if style == "func_args":
        return cls({"keep": 1, "seen": []})
    if style == "func_kwargs":
        return cls(opts={"keep": 1, "seen": []})
    return cls()


def build_chain(specs, calls_file, delays):
    apps = [build_app(s, calls_file, delays) for s in specs]
    app = apps[0]
    for a in apps[1:]:
        app = app + a
    return app


INPUT_STORE = [None]


def make_input(i):
    if i["t"] == "str":
        return i["s"]
    if i["t"] == "member":
        return next(m for m in INPUT_STORE[0].completed if m.unique_id == i["s"])
    return get_cls(i["cls"])(i["key"], "", i["src"], truthy=i.get("truthy", True))


def canon_msg(m):
    m = (m or "").strip()
    if "\n" in m:
        m = m.splitlines()[-1].strip()
    pre = "invalid data type, '"
    if m.startswith(pre) and "' not in " in m:
        head, tail = m.split("' not in ", 1)
        m = head + "' not in " + ", ".join(sorted(t.strip() for t in tail.split(",")))
    return m


def canon_value(v):
    if v is None:
        return None
    if isinstance(v, NotCompleted):
        return [3, v.type, v.origin, canon_msg(v.message), v.source]
    if isinstance(v, str):
        return [0, v]
    if isinstance(v, Obj):
        return [1, type(v).__name__, v.key, v.trace, safe_source(v), bool(v.truthy)]
    if isinstance(v, dict) and "cls" in v:
        return [1, v["cls"], v["key"], v["trace"], v["source"], bool(v["truthy"])]
    if isinstance(v, (list, tuple)):
        return [2, [[type(o).__name__, o.key, o.trace, safe_source(o)] if isinstance(o, Obj) else
                    [o["cls"], o["key"], o["trace"], o["source"]] for o in v]]
    return ["?", repr(v)]


def read_store(ds):
    done, nc = [], []
    for m in ds.completed:
        rec = json.loads(m.read())
        data = rec["data"]
        try:
            data = json.loads(data)
        except (TypeError, json.JSONDecodeError):
            pass
        done.append([str(m.unique_id), rec["identifier"], canon_value(data)])
    for m in ds.not_completed:
        d = json.loads(m.read())["not_completed_construction"]
        ty, origin, msg = d["args"]
        nc.append([os.path.basename(str(m.unique_id)), [3, ty, origin, canon_msg(msg), d["kwargs"].get("source")]])
    return sorted(done, key=repr), sorted(nc, key=repr)


def read_store_sqlite(ds):
    done, nc = [], []
    for m in ds.completed:
        done.append([str(m.unique_id) + ".json", str(m.unique_id), canon_value(pickle.loads(m.read()))])
    for m in ds.not_completed:
        d = pickle.loads(m.read())["not_completed_construction"]
        ty, origin, msg = d["args"]
        nc.append([str(m.unique_id) + ".json", [3, ty, origin, canon_msg(msg), d["kwargs"].get("source")]])
    return sorted(done, key=repr), sorted(nc, key=repr)


def permuting(perm, roundtrip=True):
    def fake(f, s, **kw):
        s = list(s)
        if roundtrip:  # what crosses the process boundary in a real parallel run is pickled both ways
            f2 = _cp.loads(_cp.dumps(f))
            res = [_cp.loads(_cp.dumps(f2(_cp.loads(_cp.dumps(e))))) for e in s]
        else:
            res = [f(e) for e in s]
        for i in perm:
            if i < len(res):
                yield res[i]

    return fake


def read_calls(path):
    if not os.path.exists(path):
        return []
    with open(path) as f:
        return sorted(json.loads(line) for line in f if line.strip())


def run_phase(tmp, ph, pi, store="dir"):
    mode = "w" if pi == 0 else "a"
    calls_file = os.path.join(tmp, f"calls_{pi}.txt")
    delays = ph.get("delays") or {}
    members = [i["s"] for i in ph["inputs"] if i["t"] == "member"]
    if members:
        indir = os.path.join(tmp, f"in_{pi}")
        os.makedirs(indir, exist_ok=True)
        for nm in members:
            with open(os.path.join(indir, nm), "w") as f:
                f.write(">s\nACGT\n")
        INPUT_STORE[0] = DataStoreDirectory(indir, mode="r", suffix=members[0].rsplit(".", 1)[-1])
    inputs = [make_input(i) for i in ph["inputs"]]
    if ph.get("as_store"):
        inputs = INPUT_STORE[0]
    # the composed app on every input alone (fresh instances; invocations not counted)
    # the composed app on every input alone: a FRESH app per input (invocations not counted), so that a record of
    # apply_to that depends on which other inputs went through the same instance shows up as a difference
    def single(i):
        try:
            return canon_value(build_chain(ph["specs"], os.path.join(tmp, f"single_{pi}.txt"), {})(make_input(i)))
        except Exception as e:  # noqa: BLE001  -- app(x) must return a NotCompleted, never raise
            return ["app(x) raised", type(e).__name__, str(e)[:120]]

    singles = [single(i) for i in ph["inputs"]]

    # list(app.as_completed(inputs)) of the composed app without writer (same completion order as the apply_to below)
    asc_app = build_chain(ph["specs"], os.path.join(tmp, f"asc_{pi}.txt"), {})
    real = ph.get("real")
    opts = ph.get("opts") or {}
    par_kw = None
    if real:
        par_kw = {k: v for k, v in real.items() if k in ("max_workers", "if_serial", "chunksize")}
    show = bool(opts.get("show_progress", False))
    sink = io.StringIO()
    try:
        with contextlib.redirect_stdout(sink):   # stdout carries the JSON lines of this runner
            if real:
                C.PAR.as_completed = ORIG_AS_COMPLETED
                res = list(asc_app.as_completed(inputs, parallel=True, par_kw=dict(par_kw), show_progress=show))
            elif ph.get("sched") is not None:
                C.PAR.as_completed = permuting(ph["sched"])
                res = list(asc_app.as_completed(inputs, parallel=True, show_progress=show))
            else:
                res = list(asc_app.as_completed(inputs, show_progress=show))
        asc = sorted((canon_value(getattr(r, "obj", r)) for r in res), key=repr)
    except Exception as e:  # noqa: BLE001
        asc = [["as_completed raised", type(e).__name__, str(e)[:120]]]
    finally:
        C.PAR.as_completed = ORIG_AS_COMPLETED
    if store == "sqlite":
        ds = DataStoreSqlite(os.path.join(tmp, "out.sqlitedb"), mode=mode)
        writer = cio.write_db(data_store=ds)
    else:
        ds = DataStoreDirectory(os.path.join(tmp, "out"), mode=mode, suffix="json")
        writer = cio.write_json(data_store=ds)
    app = build_chain(ph["specs"], calls_file, delays) + writer
    kw = dict(show_progress=show)
    kw["logger"] = None if ph.get("logging") else False
    given_log = None
    logs_before = set(glob.glob(os.path.join(tmp, "*.log")))
    if ph.get("logging") and opts.get("logger") == "given":
        from scitrack import CachingLogger

        given_log = os.path.join(tmp, f"given_{pi}.log")
        lg = CachingLogger(create_dir=True)
        lg.log_file_path = given_log
        kw["logger"] = lg
    if "cleanup" in opts:
        kw["cleanup"] = bool(opts["cleanup"])
    if real:
        C.PAR.as_completed = ORIG_AS_COMPLETED
        kw.update(parallel=True, par_kw=dict(par_kw))
    elif ph.get("sched") is not None:
        C.PAR.as_completed = permuting(ph["sched"])
        kw.update(parallel=True)
    out = dict(singles=singles, asc=asc)
    try:
        with contextlib.redirect_stdout(sink):
            res = app.apply_to(inputs, **kw)
        assert res is ds
        if ph.get("logging"):
            # cleanup=True (default): the scitrack log file is removed after being copied into the store
            left = sorted(set(glob.glob(os.path.join(tmp, "*.log"))) - logs_before)
            want = 0 if kw.get("cleanup", True) else 1
            if len(left) != want:
                out["opt_problem"] = f"cleanup={kw.get('cleanup', True)}: {len(left)} log file(s) left next to the store"
    except Exception as e:  # noqa: BLE001
        import traceback

        out.update(exc=exc_code(e), exc_info=f"{type(e).__name__}: {str(e)[:200]}",
                   where=traceback.format_exc().strip().splitlines()[-3].strip()[:160])
    finally:
        C.PAR.as_completed = ORIG_AS_COMPLETED
    if store == "sqlite":
        out["live_done"] = sorted(str(m.unique_id) + ".json" for m in ds.completed)
        out["live_nc"] = sorted(str(m.unique_id) + ".json" for m in ds.not_completed)
        ds.close()
        fresh = DataStoreSqlite(os.path.join(tmp, "out.sqlitedb"), mode="r")
        out["done"], out["nc"] = read_store_sqlite(fresh)
        out["logs"] = sum(1 for m in fresh.logs if m.read())
        fresh.close()
    else:
        out["live_done"] = sorted(str(m.unique_id) for m in ds.completed)
        out["live_nc"] = sorted(os.path.basename(str(m.unique_id)) for m in ds.not_completed)
        fresh = DataStoreDirectory(os.path.join(tmp, "out"), mode="r", suffix="json")
        out["done"], out["nc"] = read_store(fresh)
        out["logs"] = len(fresh.logs)
    out["calls"] = read_calls(calls_file)
    return out


def run_case(case):
    tmp = tempfile.mkdtemp(prefix="c14_")
    cwd = os.getcwd()
    try:
        os.chdir(tmp)
        out = []
        for pi, ph in enumerate(case["phases"]):
            o = run_phase(tmp, ph, pi, case.get("store", "dir"))
            out.append(o)
            if "exc" in o:
                break
        return out
    finally:
        os.chdir(cwd)
        shutil.rmtree(tmp, ignore_errors=True)


if __name__ == "__main__":
    serve(run_case, limit=120)
