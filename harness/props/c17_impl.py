"""C17 implementation runner: drives the real annotation databases."""
import copy
import json
import os
import pickle
import sqlite3
import sys
import tempfile

from vcheck.val import Exc, exc_code, jsonable


def build_gff_text(features):
    lines = ["##gff-version 3"]
    for f in features:
        for (s, e) in f["lines"]:
            attrs = f"ID={f['name']}"
            if f.get("attrs"):
                attrs += f";{f['attrs']}"
            lines.append("\t".join([f["seqid"], "src", f["biotype"], str(s), str(e), ".", f["strand"] or ".", ".", attrs]))
    return "\n".join(lines) + "\n"


def loc_text(x):
    if x[0] == "seg":
        return f"{x[3]}{x[1]}..{x[4]}{x[2]}"
    if x[0] == "pt":
        return str(x[1])
    return ("join(" if x[0] == "join" else "complement(") + ",".join(loc_text(k) for k in x[1]) + ")"


def build_gb_text(seqid, features):
    L = 80
    out = [f"LOCUS       {seqid:<16}{L:>11} bp    DNA     linear   BCT 01-JAN-2000", "DEFINITION  generated.", f"ACCESSION   {seqid}",
           "FEATURES             Location/Qualifiers"]
    for f in features:
        loc = loc_text(f["loc"])
        # long locations continue on the next lines at column 22, broken after a comma
        parts, cur = [], ""
        for piece in loc.replace(",", ",\0").split("\0"):
            if cur and len(cur) + len(piece) > 58:
                parts.append(cur)
                cur = ""
            cur += piece
        parts.append(cur)
        out.append(f"     {f['biotype']:<16}{parts[0]}")
        out += [" " * 21 + p for p in parts[1:]]
        if f.get("qualifier"):
            out.append(" " * 21 + f"/{f['qualifier']}=\"{f['qname']}\"")
        out.append(" " * 21 + "/note=\"n\"")
    out.append("ORIGIN")
    seq = "acgt" * (L // 4)
    for i in range(0, L, 60):
        chunk = seq[i:i + 60]
        out.append(f"{i + 1:>9} " + " ".join(chunk[j:j + 10] for j in range(0, len(chunk), 10)))
    out.append("//")
    return "\n".join(out) + "\n"


def add_user(db, r):
    kw = dict(seqid=r["seqid"], biotype=r["biotype"], name=r["name"], spans=[tuple(s) for s in r["spans"]],
              strand=r["strand"], attributes=r["attrs"])
    if r.get("on_aln", "absent") != "absent":
        kw["on_alignment"] = r["on_aln"]
    db.add_feature(**kw)


def make_other(op, tmp, n):
    """the db given to union()/update(): a BasicAnnotationDb, or one of the class of self loaded from text"""
    from cogent3.core import annotation_db as adb

    ok = op.get("other_kind", "basic")
    if ok == "gff":
        p = os.path.join(tmp, f"o{n}.gff")
        with open(p, "w") as f:
            f.write(build_gff_text(op["other_feats"]))
        db = adb.load_annotations(path=p)
    elif ok == "gb":
        p = os.path.join(tmp, f"o{n}.gb")
        with open(p, "w") as f:
            f.write(build_gb_text(op["other_seqid"], op["other_feats"]))
        db = adb.load_annotations(path=p)
    else:
        db = adb.BasicAnnotationDb()
    for r in op["other"]:
        add_user(db, r)
    return db


def qkwargs(q, for_subset=False):
    kw = {}
    for k_src, k_dst in [("biotype", "biotype"), ("seqid", "seqid"), ("name", "name"), ("strand", "strand"),
                         ("attrs", "attributes"), ("start", "start"), ("stop", "stop")]:
        v = q.get(k_src)
        if isinstance(v, dict) and "coll" in v:
            v = {"list": list, "tuple": tuple, "set": set}[v["coll"]](v["vals"])
        if v is not None:
            kw[k_dst] = v
    if not for_subset and q.get("on_aln") is not None:
        kw["on_alignment"] = q["on_aln"]
    kw["allow_partial"] = bool(q["partial"])
    return kw


def obs_feat(d):
    on = d.get("on_alignment")
    return [d.get("seqid"), d.get("biotype"), d.get("name"), d.get("strand"), None if on is None else bool(on),
            [[int(a), int(b)] for a, b in d["spans"]]]


def obs_rec(d):
    on = d.get("on_alignment")
    return [d.get("seqid"), d.get("biotype"), d.get("name"), d.get("strand"), None if on is None else bool(on),
            [[int(a), int(b)] for a, b in d["spans"].tolist()], int(d["start"]), int(d["stop"])]


STAGE = [""]


def run_gffblocks(case, tmp):
    """one GFF text loaded with each lines_per_block; per load: all records + window queries"""
    from cogent3.core import annotation_db as adb

    p = os.path.join(tmp, "blocks.gff")
    with open(p, "w") as f:
        f.write(case["text"])
    out = []
    for lpb in case["lpbs"]:
        STAGE[0] = f"load:lines_per_block={lpb}"
        if lpb == 500000:
            db = adb.load_annotations(path=p)  # the default
        else:
            db = adb.load_annotations(path=p, lines_per_block=lpb)
        recs = sorted(([d["name"], d["seqid"], d["biotype"], d["strand"], d["attributes"],
                        [[int(a), int(b)] for a, b in d["spans"].tolist()], int(d["start"]), int(d["stop"])]
                       for d in db.get_records_matching()), key=repr)
        qres = []
        for qs, qe, partial in case["queries"]:
            qres.append(sorted(([d["name"], [[int(a), int(b)] for a, b in d["spans"]]]
                                for d in db.get_features_matching(start=qs, stop=qe, allow_partial=bool(partial))), key=repr))
        if len(db) != len(recs):
            raise AssertionError(f"len(db)={len(db)} but {len(recs)} records")
        out.append([recs, qres])
    return out


def run_gfffiles(case, tmp):
    """several GFF files behind one wildcard path; returns [order the loader visits them, per lines_per_block the records + queries]"""
    import pathlib

    from cogent3.core import annotation_db as adb

    d = os.path.join(tmp, "files")
    os.mkdir(d)
    for k, text in enumerate(case["texts"]):
        with open(os.path.join(d, f"part{k}.gff"), "w") as f:
            f.write(text)
    pattern = os.path.join(d, "part*.gff")
    pp = pathlib.Path(pattern)
    order = [int(x.name[4:-4]) for x in pp.parent.glob(pp.name)]
    out = []
    for lpb in case["lpbs"]:
        STAGE[0] = f"load-files:lines_per_block={lpb}"
        db = adb.load_annotations(path=pattern) if lpb == 500000 else adb.load_annotations(path=pattern, lines_per_block=lpb)
        recs = sorted(([d_["name"], d_["seqid"], d_["biotype"], d_["strand"], d_["attributes"],
                        [[int(a), int(b)] for a, b in d_["spans"].tolist()], int(d_["start"]), int(d_["stop"])]
                       for d_ in db.get_records_matching()), key=repr)
        qres = []
        for qs, qe, partial in case["queries"]:
            qres.append(sorted(([d_["name"], [[int(a), int(b)] for a, b in d_["spans"]]]
                                for d_ in db.get_features_matching(start=qs, stop=qe, allow_partial=bool(partial))), key=repr))
        out.append([recs, qres])
    return [order, out]


def run_gfflines(case, tmp):
    """each line through the real parser exactly as _db_from_gff calls it, then the naming step"""
    from cogent3.core.annotation_db import _leave_attributes
    from cogent3.parse.gff import gff_parser, merged_gff_records

    out = []
    for line in case["lines"]:
        try:
            recs = list(gff_parser([line], attribute_parser=_leave_attributes, gff3=True))
            if not recs:
                out.append(None)
                continue
            data, nfake = merged_gff_records(recs, 0)
            (name, r), = data.items()
            out.append([None if nfake == 1 else name, r.parent_id, r.seqid, r.biotype, r.strand, r.attrs,
                        [int(r.spans[0][0]), int(r.spans[0][1])]])
        except Exception as e:  # noqa: BLE001
            out.append(jsonable(Exc(exc_code(e))))
    return out


def run_gfffamily(case, tmp):
    """children / parents of each queried name on a db loaded from GFF text"""
    from cogent3.core import annotation_db as adb

    p = os.path.join(tmp, "family.gff")
    with open(p, "w") as f:
        f.write(case["text"])
    db = adb.load_annotations(path=p, lines_per_block=case["lpb"])

    def obs(it):
        return sorted(([d["name"], d["seqid"], d["biotype"], d["strand"], [[int(a), int(b)] for a, b in d["spans"]]] for d in it), key=repr)

    out = []
    for q in case["names"]:
        STAGE[0] = "children/parent"
        out.append([obs(db.get_feature_children(name=q)), obs(db.get_feature_children(name=q, biotype="CDS")),
                    obs(db.get_feature_parent(name=q))])
    return out


def run_case(case, tmp):
    from cogent3.core import annotation_db as adb

    kind = case["kind"]
    if kind == "gfffamily":
        return run_gfffamily(case, tmp)
    if kind == "gfflines":
        return run_gfflines(case, tmp)
    if kind == "gffblocks":
        return run_gffblocks(case, tmp)
    if kind == "gfffiles":
        return run_gfffiles(case, tmp)
    db = adb.BasicAnnotationDb() if kind == "basic" else None
    n = 0
    for op in case["ops"]:
        n += 1
        o = op["op"]
        STAGE[0] = "op:" + o + (":" + op["how"] if o == "copy" else "")
        if o == "gff":
            p = os.path.join(tmp, f"f{n}.gff")
            with open(p, "w") as f:
                f.write(build_gff_text(op["features"]))
            db = adb.load_annotations(path=p, db=db)
        elif o == "gb":
            p = os.path.join(tmp, f"f{n}.gb")
            with open(p, "w") as f:
                f.write(build_gb_text(op["seqid"], op["features"]))
            db = adb.load_annotations(path=p, db=db)
        elif o == "add":
            if db is None:
                db = adb.GenbankAnnotationDb() if kind == "gb" else adb.GffAnnotationDb()
            add_user(db, op["raw"])
        elif o == "union":
            db = db.union(make_other(op, tmp, n))
        elif o == "update":
            db.update(make_other(op, tmp, n))
        elif o == "subset":
            db = db.subset(**qkwargs(op["query"], for_subset=True))
        elif o == "copy":
            how = op["how"]
            if how == "deepcopy":
                db = copy.deepcopy(db)
            elif how == "pickle":
                db = pickle.loads(pickle.dumps(db))
            elif how == "json":
                from cogent3.util.deserialise import deserialise_object

                db = deserialise_object(json.loads(db.to_json()))
            elif how == "write":
                p = os.path.join(tmp, f"w{n}.db")
                if os.path.exists(p):
                    os.unlink(p)
                db.write(p)
                db = type(db)(source=p)
        else:
            raise ValueError(o)
    if db is None:
        db = adb.GenbankAnnotationDb() if kind == "gb" else adb.GffAnnotationDb()
    out = []
    for q in case["queries"]:
        kw = qkwargs(q)
        STAGE[0] = "query"
        feats = sorted((obs_feat(d) for d in db.get_features_matching(**kw)), key=repr)
        rkw = dict(kw)
        try:
            recs = sorted((obs_rec(d) for d in db.get_records_matching(**rkw)), key=repr)
        except sqlite3.OperationalError as e:
            # get_records_matching(on_alignment=False) on a two-table class asks the gff/gb table for a
            # column it does not have; on_alignment is not among the query arguments C17 names: tolerated
            # as "not observed" — an answer, when one is given, is compared
            if kind != "basic" and rkw.get("on_alignment") is False and "no such column: on_alignment" in str(e):
                recs = None
            else:
                raise
        ckw = {k: v for k, v in kw.items() if k in ("seqid", "biotype", "name", "strand")}
        if kind == "basic" and "on_alignment" in kw:
            ckw["on_alignment"] = kw["on_alignment"]
        cnt = int(db.num_matches(**ckw))
        if case.get("attrmeta"):
            # the same query through subset() and through num_matches(attributes=...)
            STAGE[0] = "op:subset"
            skw = {k: v for k, v in kw.items() if k != "on_alignment"}
            sub = sorted(d["name"] for d in db.subset(**skw).get_records_matching())
            STAGE[0] = "num_matches"
            akw = dict(ckw)
            if "attributes" in kw:
                akw["attributes"] = kw["attributes"]
            out.append([feats, recs, cnt, sub, int(db.num_matches(**akw))])
            continue
        out.append([feats, recs, cnt])
    if "cds" in case:
        STAGE[0] = "count_distinct"
        cdo = []
        for cd in case["cds"]:
            t = db.count_distinct(**{k: v for k, v in zip(("seqid", "biotype", "name"), cd)})
            if t is None:
                cdo.append(None)
                continue
            hdr = list(t.header)
            rows = []
            for row in t.to_list():
                d = dict(zip(hdr, row))
                rows.append([[[d[k]] if k in d else [] for k in ("seqid", "biotype", "name")], int(d["count"])])
            cdo.append(sorted(rows, key=repr))
        out.append(cdo)
    return out


def main():
    from vcheck.implutil import serve

    with tempfile.TemporaryDirectory(prefix="c17_") as tmp:
        counter = [0]

        def one(case):
            counter[0] += 1
            d = os.path.join(tmp, str(counter[0]))
            os.mkdir(d)
            try:
                return run_case(case, d)
            except Exception as e:  # noqa: BLE001
                import traceback

                return {"exc": exc_code(e), "at": STAGE[0], "msg": f"{type(e).__name__}: {e}"[:200],
                        "tb": traceback.format_exc()[-600:]}

        serve(one, limit=20)


if __name__ == "__main__":
    main()
