"""C17 implementation runner: drives the real annotation databases."""
import copy
import json
import os
import pickle
import sqlite3
import sys
import tempfile

from vcheck.val import Exc, exc_code, jsonable


def build_gff_text(features):
    lines = ["##gff-version 3"]
    for f in features:
        for (s, e) in f["lines"]:
            attrs = f"ID={f['name']}"
            if f.get("attrs"):
                attrs += f";{f['attrs']}"
            lines.append("\t".join([f["seqid"], "src", f["biotype"], str(s), str(e), ".", f["strand"] or ".", ".", attrs]))
    return "\n".join(lines) + "\n"


def add_user(db, r):
    kw = dict(seqid=r["seqid"], biotype=r["biotype"], name=r["name"], spans=[tuple(s) for s in r["spans"]],
              strand=r["strand"], attributes=r["attrs"])
    if r.get("on_aln", "absent") != "absent":
        kw["on_alignment"] = r["on_aln"]
    db.add_feature(**kw)


def make_other(kind, raws, tmp):
    from cogent3.core.annotation_db import BasicAnnotationDb

    db = BasicAnnotationDb()
    for r in raws:
        add_user(db, r)
    return db


def qkwargs(q, for_subset=False):
    kw = {}
    for k_src, k_dst in [("biotype", "biotype"), ("seqid", "seqid"), ("name", "name"), ("strand", "strand"),
                         ("attrs", "attributes"), ("start", "start"), ("stop", "stop")]:
        if q.get(k_src) is not None:
            kw[k_dst] = q[k_src]
    if not for_subset and q.get("on_aln") is not None:
        kw["on_alignment"] = q["on_aln"]
    kw["allow_partial"] = bool(q["partial"])
    return kw


def obs_feat(d):
    on = d.get("on_alignment")
    return [d.get("seqid"), d.get("biotype"), d.get("name"), d.get("strand"), None if on is None else bool(on),
            [[int(a), int(b)] for a, b in d["spans"]]]


def obs_rec(d):
    on = d.get("on_alignment")
    return [d.get("seqid"), d.get("biotype"), d.get("name"), d.get("strand"), None if on is None else bool(on),
            [[int(a), int(b)] for a, b in d["spans"].tolist()], int(d["start"]), int(d["stop"])]


STAGE = [""]


def run_gffblocks(case, tmp):
    """one GFF text loaded with each lines_per_block; per load: all records + window queries"""
    from cogent3.core import annotation_db as adb

    p = os.path.join(tmp, "blocks.gff")
    with open(p, "w") as f:
        f.write(case["text"])
    out = []
    for lpb in case["lpbs"]:
        STAGE[0] = f"load:lines_per_block={lpb}"
        if lpb == 500000:
            db = adb.load_annotations(path=p)  # the default
        else:
            db = adb.load_annotations(path=p, lines_per_block=lpb)
        recs = sorted(([d["name"], d["seqid"], d["biotype"], d["strand"], d["attributes"],
                        [[int(a), int(b)] for a, b in d["spans"].tolist()], int(d["start"]), int(d["stop"])]
                       for d in db.get_records_matching()), key=repr)
        qres = []
        for qs, qe, partial in case["queries"]:
            qres.append(sorted(([d["name"], [[int(a), int(b)] for a, b in d["spans"]]]
                                for d in db.get_features_matching(start=qs, stop=qe, allow_partial=bool(partial))), key=repr))
        if len(db) != len(recs):
            raise AssertionError(f"len(db)={len(db)} but {len(recs)} records")
        out.append([recs, qres])
    return out


def run_case(case, tmp):
    from cogent3.core import annotation_db as adb

    kind = case["kind"]
    if kind == "gffblocks":
        return run_gffblocks(case, tmp)
    db = adb.BasicAnnotationDb() if kind == "basic" else None
    n = 0
    for op in case["ops"]:
        n += 1
        o = op["op"]
        STAGE[0] = "op:" + o + (":" + op["how"] if o == "copy" else "")
        if o == "gff":
            p = os.path.join(tmp, f"f{n}.gff")
            with open(p, "w") as f:
                f.write(build_gff_text(op["features"]))
            db = adb.load_annotations(path=p, db=db)
        elif o == "add":
            if db is None:
                db = adb.GffAnnotationDb()
            add_user(db, op["raw"])
        elif o == "union":
            db = db.union(make_other(kind, op["other"], tmp))
        elif o == "update":
            db.update(make_other(kind, op["other"], tmp))
        elif o == "subset":
            db = db.subset(**qkwargs(op["query"], for_subset=True))
        elif o == "copy":
            how = op["how"]
            if how == "deepcopy":
                db = copy.deepcopy(db)
            elif how == "pickle":
                db = pickle.loads(pickle.dumps(db))
            elif how == "json":
                from cogent3.util.deserialise import deserialise_object

                db = deserialise_object(json.loads(db.to_json()))
            elif how == "write":
                p = os.path.join(tmp, f"w{n}.db")
                if os.path.exists(p):
                    os.unlink(p)
                db.write(p)
                db = type(db)(source=p)
        else:
            raise ValueError(o)
    if db is None:
        db = adb.GffAnnotationDb()
    out = []
    for q in case["queries"]:
        kw = qkwargs(q)
        STAGE[0] = "query"
        feats = sorted((obs_feat(d) for d in db.get_features_matching(**kw)), key=repr)
        rkw = dict(kw)
        try:
            recs = sorted((obs_rec(d) for d in db.get_records_matching(**rkw)), key=repr)
        except sqlite3.OperationalError as e:
            # get_records_matching(on_alignment=False) on a two-table class asks the gff/gb table for a
            # column it does not have; on_alignment is not among the query arguments C17 names: tolerated
            # as "not observed" — an answer, when one is given, is compared
            if kind != "basic" and rkw.get("on_alignment") is False and "no such column: on_alignment" in str(e):
                recs = None
            else:
                raise
        ckw = {k: v for k, v in kw.items() if k in ("seqid", "biotype", "name", "strand")}
        if kind == "basic" and "on_alignment" in kw:
            ckw["on_alignment"] = kw["on_alignment"]
        cnt = int(db.num_matches(**ckw))
        out.append([feats, recs, cnt])
    return out


def main():
    from vcheck.implutil import serve

    with tempfile.TemporaryDirectory(prefix="c17_") as tmp:
        counter = [0]

        def one(case):
            counter[0] += 1
            d = os.path.join(tmp, str(counter[0]))
            os.mkdir(d)
            try:
                return run_case(case, d)
            except Exception as e:  # noqa: BLE001
                import traceback

                return {"exc": exc_code(e), "at": STAGE[0], "msg": f"{type(e).__name__}: {e}"[:200],
                        "tb": traceback.format_exc()[-600:]}

        serve(one, limit=20)


if __name__ == "__main__":
    main()
