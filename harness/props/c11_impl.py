"""C11 implementation runner: the same observations as C02 (one likelihood
function per case) for the original and for every harness-transformed input,
plus `api` cases in which the transformation itself is done by the real
cogent3 methods inside this interpreter (tree.rooted_at / rooted_with_tip,
lf.get_annotated_tree, tree.reassign_names + aln.rename_seqs, scoped rules with
tip_names / outgroup_name applied through set_param_rule on every rooting)."""
import importlib.util
import os

_spec = importlib.util.spec_from_file_location("c02_impl", os.path.join(os.path.dirname(os.path.abspath(__file__)), "c02_impl.py"))
_c02 = importlib.util.module_from_spec(_spec)
_spec.loader.exec_module(_c02)


def _splits(tree):
    """edge name -> the unrooted edge it is: the tip set on the side that does not contain the smallest tip name"""
    alltips = sorted(tree.get_tip_names())
    out = {}
    for n in tree.get_edge_vector(include_root=False):
        s = set(n.get_tip_names())
        if alltips[0] in s:
            s = set(alltips) - s
        out[n.name] = sorted(s)
    return out


def _reroot(tree, rooting):
    if rooting is None:
        return tree
    how, target = rooting
    return tree.rooted_at(target) if how == "rooted_at" else tree.rooted_with_tip(target)


def _one(case, tree_obj=None, aln_obj=None):
    lf, tree, aln, params = _c02.build_lf(case, tree_obj, aln_obj)
    lf._verif_aln = aln
    return lf, params


def api_scoped_reroot(case):
    """the same tip_names / outgroup_name scoped rule applied through the API on the original tree and on trees
    re-rooted with the real tree methods"""
    from cogent3 import make_tree

    base = make_tree(case["tree"])
    res = []
    for rooting in [None] + list(case["api"]["rootings"]):
        try:
            t = _reroot(base, rooting)
            lf, params = _one(case, tree_obj=t)
            sp = _splits(lf.tree)
            p = sorted(params)[0] if params else None
            spec = params.get(p, {}) if p else {}
            sel = []
            if spec.get("scoped"):
                v = spec["scoped"]["value"]
                sel = sorted(sp[e] for e in sp if abs(float(lf.get_param_value(p, edge=e)) - v) < 1e-12)
            lengths = sorted([sp[e], float(lf.get_param_value("length", edge=e))] for e in sp)
            res.append({"rooting": rooting, "lnL": float(lf.get_log_likelihood()), "selected": sel, "param": p, "lengths": lengths,
                        "newick": t.get_newick(with_distances=True)})
        except Exception as e:  # noqa: BLE001
            res.append({"rooting": rooting, "raised": type(e).__name__ + ": " + str(e)[:160]})
    return {"results": res}


def api_annotated_roundtrip(case):
    """lf -> get_annotated_tree() -> rooted_at / rooted_with_tip -> make_likelihood_function(that tree): the tree
    carries the model parameters (non-default kappa / omega, possibly different on some edges) and the lengths"""
    lf, params = _one(case)
    out = {"lnL": float(lf.get_log_likelihood()), "results": []}
    at = lf.get_annotated_tree()
    sm = lf.model
    aln = lf._verif_aln
    mprobs = None
    if "mprobs" in lf.get_param_names() or "psmprobs" in lf.get_param_names():
        mprobs = lf.get_motif_probs()
        mprobs = mprobs.to_dict() if hasattr(mprobs, "to_dict") else dict(mprobs)
    for rooting in [None] + list(case["api"]["rootings"]):
        try:
            t = _reroot(at, rooting)
            lf1 = sm.make_likelihood_function(t)
            lf1.set_alignment(aln)
            if mprobs is not None:
                lf1.set_motif_probs(mprobs)
            carried = {}
            for p in params:
                try:
                    carried[p] = sorted({round(float(lf1.get_param_value(p, edge=n.name)), 9) for n in lf1.tree.get_edge_vector(include_root=False)})
                except Exception:  # noqa: BLE001
                    carried[p] = None
            out["results"].append({"rooting": rooting, "lnL": float(lf1.get_log_likelihood()), "values": carried})
        except Exception as e:  # noqa: BLE001
            out["results"].append({"rooting": rooting, "raised": type(e).__name__ + ": " + str(e)[:160]})
    out["params"] = params
    return out


def api_relabel_perm(case):
    """tree.reassign_names(mapping) + aln.rename_seqs(mapping) with a mapping that permutes existing labels"""
    from cogent3 import make_aligned_seqs, make_tree

    lf, params = _one(case)
    out = {"lnL": float(lf.get_log_likelihood())}
    mapping = dict(case["api"]["mapping"])
    t = make_tree(case["tree"])
    t.reassign_names(mapping)
    aln = make_aligned_seqs({n: s for n, s in case["aln"]}, moltype=case.get("moltype", "dna"))
    aln2 = aln.rename_seqs(lambda n: mapping.get(n, n))
    c2 = dict(case)
    if c2.get("scoped") and "edges" in c2["scoped"]:
        c2["scoped"] = {"edges": [mapping.get(e, e) for e in c2["scoped"]["edges"]]}
    lf2, _ = _one(c2, tree_obj=t, aln_obj=aln2)
    out["lnL_relabelled"] = float(lf2.get_log_likelihood())
    out["tips_after"] = sorted(t.get_tip_names())
    out["newick_after"] = t.get_newick()
    return out


def api_inplace_reorder(case):
    """the caller's tree object has the children of some nodes reordered IN PLACE after make_likelihood_function
    and before set_alignment"""
    lf, params = _one(case)
    out = {"lnL": float(lf.get_log_likelihood())}
    which = set(case["api"]["nodes"])

    def mutate(tree):
        for n in tree.get_edge_vector(include_root=True):
            if n.name in which and len(n.children) > 1:
                n.children.reverse()

    lf2, tree2, aln2, _ = _c02.build_lf(case, before_alignment=mutate)
    out["lnL_reordered"] = float(lf2.get_log_likelihood())
    return out


API = {"inplace_reorder": api_inplace_reorder, "scoped_reroot": api_scoped_reroot, "annotated_roundtrip": api_annotated_roundtrip, "relabel_perm": api_relabel_perm}


def run_case(case):
    if case.get("api"):
        return API[case["api"]["op"]](case)
    return _c02.run_case(case)


if __name__ == "__main__":
    from vcheck.implutil import serve

    serve(run_case, limit=300)
