"""C11 implementation runner: the same observations as C02 (one likelihood
function per case), for the original and for every transformed input."""
import importlib.util
import os

_spec = importlib.util.spec_from_file_location("c02_impl", os.path.join(os.path.dirname(os.path.abspath(__file__)), "c02_impl.py"))
_c02 = importlib.util.module_from_spec(_spec)
_spec.loader.exec_module(_c02)


def run_case(case):
    return _c02.run_case(case)


if __name__ == "__main__":
    from vcheck.implutil import serve

    serve(run_case, limit=300)
