"""C14 — Composed apps account for every input exactly once, on any schedule.

Stage P: Properties/C14.v (pipeline = left-to-right short-circuit evaluation;
every completion order of apply_to gives the same dictionary with exactly one
record per input).  Stage C: scripted define_app pipelines run through the real
apply_to / write_json / DataStoreDirectory, serially, under every forced
completion order (PAR.as_completed replaced by a permuting generator that also
pickles everything both ways) and, in the thorough tier, with real loky
workers; compared with Model.AppsRun.run_case (vm_compute).  Stage S: the
plain-Python oracle "one record per input, content = the app called on that
input alone, stages after the first failure never called"."""
from __future__ import annotations

import itertools
import json
import random

from vcheck import core
from vcheck.val import Exc, cbool, from_jsonable, jsonable, zstr

PROP = "C14"
COQ_TARGETS = ["theories/Model/AppsRun.vo"]
TIE = "Model.AppsRun.run_case vs cogent3.app.composable apply_to/_call + io.write_json/DataStoreDirectory, io.write_db/DataStoreSqlite"

CMP = ("gz", "bz2", "zip")

# ------------------------------------------------------------------ case construction


STYLES = ["func", "func_kwargs", "class", "func_args"]


def spec(name, kind="generic", types=("TA",), skip=True, out="TA", script=None, style="func"):
    """style: how the app is defined — "func": define_app on a function without constructor arguments;
    "func_kwargs"/"func_args": function with a mutable constructor argument (keyword / positional) that the function
    mutates on every call; "class": class-based app that keeps scratch state on the instance.  The model ignores it:
    the result for an input must not depend on what went through the same instance before."""
    return dict(name=name, kind=kind, types=None if types is None else list(types), skip=skip, out=out,
                script=dict(script or {}), style=style)


def sinput(s):
    return dict(t="str", s=s)


def oinput(key, src, cls="TA", truthy=True):
    return dict(t="obj", cls=cls, key=key, src=src, truthy=truthy)


def minput(s):
    """a DataMember of an input DataStoreDirectory (a file named s)"""
    return dict(t="member", s=s)


def input_key(i):
    return i["s"] if i["t"] in ("str", "member") else i["key"]


def input_srctext(i):
    return i["s"] if i["t"] in ("str", "member") else i["src"]


def phase(specs, inputs, sched=None, logging=False, real=None, delays=None, as_store=False, opts=None):
    """real: par_kw of a real `parallel=True` run (max_workers 1/2/3/None, if_serial, chunksize);
    opts: apply_to / as_completed options (show_progress, cleanup, logger="given")"""
    d = dict(specs=specs, inputs=inputs, sched=sched, logging=logging, real=real, delays=delays or {}, as_store=as_store)
    if opts:
        d["opts"] = opts
    return d


# outcome patterns for one input on a pipeline loader(str->TA) + generic(TA->TA)*: (stage index, action) or None
def apply_pattern(specs, key, pat):
    """pat: None (all stages succeed) or (stage, action list)"""
    if pat is None:
        return
    if pat[0] == "multi":   # several stages scripted for the same input
        for sub in pat[1]:
            apply_pattern(specs, key, sub)
        return
    st, act = pat
    if st < len(specs):
        specs[st]["script"][key] = list(act)


def std_pipeline(ngeneric, rot=0):
    """loader + generic stages; the definition styles rotate over the stages (and, with [rot], over the cases)"""
    specs = [spec("ld", kind="loader", types=("str",), out="TA", style=STYLES[rot % 4])]
    for j in range(ngeneric):
        specs.append(spec(f"g{j+1}", types=("TA",), out="TA", style=STYLES[(rot + j + 1) % 4]))
    declare_returns(specs)
    return specs


def declare_returns(specs, rng=None):
    """declared return types (the type hint after `->`): the class a stage normally produces, wherever the composition
    check of `+` accepts it (the next stage names that class; the writer needs SerialisableType).  What a stage really
    returns is scripted and may be anything: every step must still check its input at run time."""
    for j, sp in enumerate(specs):
        if rng is not None and rng.random() < 0.4:
            continue
        if j + 1 < len(specs):
            nxt = specs[j + 1]["types"]
            if nxt is not None and sp["out"] in nxt:
                sp["ret"] = [sp["out"]]
        else:
            sp["ret"] = [sp["out"], "SerialisableType"]


PATTERNS_CORE = [
    None,
    (0, ["raise", "boom"]),
    (0, ["wrong", "TB"]),        # loader returns the wrong class: stage 1 type check fails
    (1, ["ncsrc", "FALSE"]),
    (1, ["none"]),
    (1, ["raise", "bang"]),
    (0, ["empty"]),              # stage 1 sees an empty list
    (2, ["ncnosrc", "FAIL"]),
    (1, ["list"]),               # list of TA passes the type check of stage 2 by its first element
    (2, ["falsy"]),              # falsy-but-valid final value
    # values whose source cannot be discovered, followed by a failure: the record is not-completed with source None
    (0, ["odd", "dict_info_none"]),                                            # stage 1 refuses the class 'dict'
    ("multi", [(0, ["odd", "src_typeerror"]), (1, ["raise", "bang"])]),
    ("multi", [(0, ["odd", "src_zerodiv"]), (1, ["none"])]),
    ("multi", [(0, ["odd", "info_raises"]), (1, ["odd", "src_runtime"]), (2, ["ncsrc", "FALSE"])]),
]


# ------------------------------------------------------------------ hazards (identifier classes outside the theorem's hypotheses)


def oracle_id(text):
    """the identifier the documentation promises: base name without format / compression suffixes"""
    name = text.rsplit("/", 1)[-1]
    parts = name.split(".")
    if len(parts) >= 3 and parts[-1].lower() in CMP:
        return ".".join(parts[:-2])
    if len(parts) >= 2 and parts[-1] != "" and parts[0] != "":
        return ".".join(parts[:-1])
    return name


def id_applicable(text):
    """oracle_id is only claimed for tame names"""
    name = text.rsplit("/", 1)[-1]
    parts = name.split(".")
    if not name or any(p == "" for p in parts):
        return False
    sfx = [p for p in parts[1:]][-2:]
    return all(p == p.lower() for p in sfx) and all(ch.isalnum() or ch in "._-" for ch in name)


def hazards(case):
    hz = set()
    known_nc = set()
    known_ids = set()
    for ph in case["phases"]:
        ids = []
        for i in ph["inputs"]:
            txt = input_srctext(i)
            if i["t"] == "obj":
                if not i.get("truthy", True):
                    hz.add("falsy-input")
                hz.add("bare-input") if any(a[0] in ("ncnosrc", "dropsrc", "str", "empty", "list") for sp in ph["specs"]
                                            for k, a in sp["script"].items() if k == i["key"]) else None
                if txt is None:
                    hz.add("no-source")
                    continue
            elif txt == "":
                hz.add("falsy-input")
                continue
            if not id_applicable(txt):
                hz.add("odd-name")
            ids.append(oracle_id(txt))
        allids = set(ids) | known_ids
        if any("." in x for x in allids):
            hz.add("dotted-ids")
        if any("json" in x for x in allids):
            hz.add("suffix-in-id")
        if any(a != b and a.endswith(b) for a in allids for b in allids):
            hz.add("suffix-ids")
        if any(x in known_nc for x in ids):
            hz.add("rerun-nc")
        # what is not-completed after this phase according to the specification
        if len(ids) == len(ph["inputs"]):
            for i, x in zip(ph["inputs"], ids):
                if oracle_single(ph["specs"], i)[0][0] == 3:
                    known_nc.add(x)
        known_ids |= set(ids)
    return sorted(hz)


# ------------------------------------------------------------------ rendering for Coq


def ostr(s):
    return "None" if s is None else f"(Some {zstr(s)})"


ODD_KINDS = ["dict_info_none", "dict_info_str", "dict_info_int", "src_typeerror", "src_runtime", "src_zerodiv",
             "info_raises", "nosource"]


def odd_class(kind, out):
    """class name of a value whose source cannot be discovered: a dict, or an instance of the stage's output class"""
    return "dict" if kind.startswith("dict_") else out


def coq_action(a, out="TA"):
    k = a[0]
    if k == "ok":
        return "AOk"
    if k == "raise":
        return f"(ARaise {zstr('ValueError: ' + a[1])})"
    if k == "none":
        return "ANone"
    if k == "ncsrc":
        return f"(ANCsrc {zstr(a[1])})"
    if k == "ncnosrc":
        return f"(ANCnosrc {zstr(a[1])})"
    if k == "wrong":
        return f"(AWrong {zstr(a[1])})"
    if k == "odd":
        return f"(AOdd {zstr(odd_class(a[1], out))})"
    return {"empty": "AEmpty", "list": "AList", "str": "AStr", "falsy": "AFalsy", "dropsrc": "ADropSrc"}[k]


def coq_spec(sp):
    kind = {"loader": "LOADER", "generic": "GENERIC"}[sp["kind"]]
    types = "None" if sp["types"] is None else "(Some [" + ";".join(zstr(t) for t in sorted(sp["types"])) + "])"
    script = "[" + ";".join(f"({zstr(k)},{coq_action(a, sp['out'])})" for k, a in sp["script"].items()) + "]"
    return f"(mkspec {zstr(sp['name'])} {kind} {types} {cbool(sp['skip'])} {zstr(sp['out'])} {script})"


def coq_input(i):
    if i["t"] in ("str", "member"):
        return f"(VStr {zstr(i['s'])})"
    return f"(VObj {zstr(i['cls'])} {zstr(i['key'])} [] {ostr(i['src'])} {cbool(i.get('truthy', True))})"


def coq_phase(ph):
    sched = "None" if ph["sched"] is None or ph.get("real") else "(Some [" + ";".join(str(int(x)) for x in ph["sched"]) + "]%nat)"
    return ("([" + ";".join(coq_spec(s) for s in ph["specs"]) + "], [" + ";".join(coq_input(i) for i in ph["inputs"]) + "], "
            + sched + ", " + cbool(ph["logging"]) + ")")


# model variant of the directory store: 1 = pinned (`endswith` retirement, substring __contains__), 2 = repaired
# (exact-name retirement); chosen by probe_store_variant() from the behaviour of the implementation under test
DIR_KIND = ["1"]


VARIANT = [0]  # repairs present in the code under test, as bits: 1 keep falsy inputs, 2 wrap every input, 4 replace members


def probe_store_variant():
    """behavioural probes: which of the repairs are present in the code under test.  The probes only SELECT the model
    variant (Model.Apps: dir_kind / dir_kind_fixed, apply_to / apply_to_v with flags); whatever they select, every case
    is still compared with the oracle, so a regression of a repair is reported as a violation, not hidden here."""
    s_retire = std_pipeline(1)
    apply_pattern(s_retire, "ba.fa", (0, ["raise", "boom"]))
    s_bare = [spec("g1", style="func_args"), spec("g2", style="class")]
    s_bare[1]["script"]["k2"] = ["ncnosrc", "FALSE"]
    s1 = std_pipeline(1)
    apply_pattern(s1, "bb.fa", (0, ["raise", "boom"]))
    s2 = std_pipeline(1)
    apply_pattern(s2, "bb.fa", (0, ["raise", "boom"]))
    probes = [
        dict(block="probe", phases=[phase(s_retire, [sinput("ba.fa"), sinput("a.fa")], None)]),
        dict(block="probe", phases=[phase([spec("g1"), spec("g2")], [oinput("k2", "o2.fa", truthy=False), oinput("k1", "o1.fa")], None)]),
        dict(block="probe", phases=[phase(s_bare, [oinput("k1", "o1.fa"), oinput("k2", "o2.fa")], None)]),
        dict(block="probe", phases=[phase(s1, [sinput("a.fa"), sinput("bb.fa")], None), phase(s2, [sinput("a.fa"), sinput("bb.fa")], None)]),
    ]
    r = core.run_impl_lines("c14_impl.py", probes)
    if any(isinstance(x, dict) or not x for x in r):
        raise core.CheckError(f"variant probes could not be run: {str(r)[:400]}")
    exact = [n[0] for n in r[0][0].get("nc", [])] == ["ba.json"]
    keep = len(r[1][0].get("asc", [])) == 2
    wrap = r[2][0].get("exc") is None
    ups = len(r[3]) == 2 and r[3][1].get("exc") is None and r[3][1].get("live_nc") == ["bb.json"]
    DIR_KIND[0] = "2" if exact else "1"
    VARIANT[0] = (1 if keep else 0) + (2 if wrap else 0) + (4 if ups else 0)
    return dict(directory_retirement="exact name (dir_kind_fixed)" if exact else "endswith (dir_kind, pinned)",
                proxy_input="keeps falsy objects (repaired)" if keep else "drops falsy inputs (pinned)",
                apply_to="wraps every input in a source_proxy (repaired)" if wrap else "objects with .source not proxied (pinned)",
                store_writes="existing member replaced (repaired)" if ups else "duplicate live member possible (pinned)",
                model_variant=("apply_to_v (mkvariant %s %s %s)" % (keep, wrap, ups)) if VARIANT[0] else "apply_to (pinned)")


def coq_case(c):
    """DataStoreDirectory(suffix=json)+write_json -> dir_kind / dir_kind_fixed; DataStoreSqlite+write_db -> the plain dictionary"""
    kind = str(int("0" if c.get("store") == "sqlite" else DIR_KIND[0]) + 10 * VARIANT[0])
    return "(" + kind + ", [" + ";".join(coq_phase(p) for p in c["phases"]) + "])"


def model_phase_to_dict(v):
    """the val printed by run_phase -> the dict shape of c14_impl.run_phase"""
    if isinstance(v[0], Exc):
        return dict(exc=v[0].code, singles=v[1], asc=sorted(v[2], key=repr))
    live_done, live_nc, done, nc, logs, calls, singles, asc = v
    return dict(exc=None, live_done=sorted(live_done), live_nc=sorted(live_nc), done=sorted(done, key=repr),
                nc=sorted(nc, key=repr), logs=logs, calls=sorted(calls), singles=singles, asc=sorted(asc, key=repr))


def impl_phase_to_dict(o):
    if "exc" in o and o["exc"] is not None:
        return dict(exc=o["exc"], singles=o["singles"], asc=o["asc"])
    return dict(exc=None, live_done=o["live_done"], live_nc=o["live_nc"], done=o["done"], nc=o["nc"], logs=o["logs"],
                calls=o["calls"], singles=o["singles"], asc=o["asc"])


def _add_json(d):
    """the dictionary kind names records by identifier; the observations use <identifier>.json"""
    if d.get("exc") is not None:
        return d
    d = dict(d)
    d["live_done"] = sorted(x + ".json" for x in d["live_done"])
    d["live_nc"] = sorted(x + ".json" for x in d["live_nc"])
    d["done"] = sorted(([r[0] + ".json"] + r[1:] for r in d["done"]), key=repr)
    d["nc"] = sorted(([r[0] + ".json"] + r[1:] for r in d["nc"]), key=repr)
    return d


def run_model(cases):
    out = core.coq_eval(PROP, ["Model.Apps", "Model.AppsRun"], "run_case", [coq_case(c) for c in cases], "case", shard=120)
    res = []
    for c, r in zip(cases, out):
        ph = [model_phase_to_dict(p) for p in r]
        if c.get("store") == "sqlite":
            # a re-opened sqlite store also reports not-completed identifiers as contained: only the first phase is modelled
            ph = [_add_json(ph[0])] if ph else []
        res.append(ph)
    return res


# ------------------------------------------------------------------ the plain-Python oracle (specification)


def o_source(v):
    """the source a value names (text after the last '/')"""
    if v is None:
        return None
    return v.rsplit("/", 1)[-1]


def oracle_single(specs, inp):
    """left-to-right evaluation with short-circuit; returns (canonical result, [(stage, key)] invocations).
    Values: ('str', s) | ('obj', cls, key, trace, src, truthy) | ('list', [objs]) | ('nc', ty, origin, msg, src)"""
    if inp["t"] in ("str", "member"):
        v = ("str", inp["s"])
    else:
        v = ("obj", inp["cls"], inp["key"], "", inp["src"], inp.get("truthy", True))
    calls = []

    def key(v):
        if v[0] == "nc":
            return ""
        return v[1] if v[0] == "str" else v[2] if v[0] == "obj" else (v[1][0][2] if v[1] else "")

    def src_text(v):  # the .source text the value carries / is
        if v[0] == "str":
            return v[1]
        if v[0] == "obj":
            return v[4]
        if v[0] == "list":
            return v[1][0][4] if v[1] else None
        return None

    def data_source(v):
        if v[0] == "list":
            return None
        return o_source(src_text(v))

    for sp in specs:
        if v[0] == "nc":
            if sp["skip"]:
                continue  # passes through unchanged
        # type check
        if sp["types"] is not None and not (v[0] == "nc" and sp["skip"]):
            if v[0] == "list":
                if not v[1]:
                    v = ("nc", "ERROR", sp["name"], "empty data", None)
                    continue
                cls, s_ = v[1][0][1], o_source(v[1][0][4])
            else:
                cls = {"str": "str", "nc": "NotCompleted"}.get(v[0]) or v[1]
                s_ = data_source(v) if v[0] != "nc" else v[4]
            if cls not in sp["types"]:
                v = ("nc", "ERROR", sp["name"], f"invalid data type, '{cls}' not in " + ", ".join(sorted(sp["types"])), s_)
                continue
        k = key(v)
        calls.append([sp["name"], k if v[0] != "nc" else ""])
        if v[0] == "nc":
            continue  # skip_not_completed=False apps of the harness hand a NotCompleted back
        trace = (v[3] if v[0] == "obj" else v[1][0][3] if v[0] == "list" and v[1] else "") + sp["name"] + ";"
        s = src_text(v)
        a = sp["script"].get(k, ["ok"])
        if a[0] == "ok":
            v = ("obj", sp["out"], k, trace, s, True)
        elif a[0] == "raise":
            v = ("nc", "ERROR", sp["name"], "ValueError: " + a[1], data_source(v))
        elif a[0] == "none":
            v = ("nc", "BUG", sp["name"], "unexpected output value None", data_source(v))
        elif a[0] == "ncsrc":
            v = ("nc", a[1], sp["name"], "scripted", data_source(v))
        elif a[0] == "ncnosrc":
            v = ("nc", a[1], sp["name"], "scripted", None)
        elif a[0] == "wrong":
            v = ("obj", a[1], k, trace, s, True)
        elif a[0] == "empty":
            v = ("list", [])
        elif a[0] == "list":
            v = ("list", [("obj", sp["out"], k, trace, s, True)])
        elif a[0] == "str":
            v = ("str", k)
        elif a[0] == "falsy":
            v = ("obj", sp["out"], k, trace, s, False)
        elif a[0] == "dropsrc":
            v = ("obj", sp["out"], k, trace, None, True)
        elif a[0] == "odd":   # no discoverable source: any later failure is a record with source None, never an exception
            v = ("obj", odd_class(a[1], sp["out"]), k, trace, None, True)
    return canon_oracle_value(v), calls


def canon_oracle_value(v):
    if v[0] == "str":
        return [0, v[1]]
    if v[0] == "obj":
        return [1, v[1], v[2], v[3], v[4], bool(v[5])]
    if v[0] == "list":
        return [2, [[o[1], o[2], o[3], o[4]] for o in v[1]]]
    return [3, v[1], v[2], v[3], v[4]]


def run_oracle(case):
    """expected observation per phase, or None for a phase where the specification is not applicable
    (identifier derivation of an odd name).  The store is a dict id -> ('done'|'nc', content)."""
    store = {}
    logs = 0
    out = []
    for ph in case["phases"]:
        if any(input_srctext(i) is None or (input_srctext(i) != "" and not id_applicable(input_srctext(i))) for i in ph["inputs"]):
            out.append(None)
            break
        ids = [oracle_id(input_srctext(i)) for i in ph["inputs"]]
        if case.get("store") == "sqlite" and any(x in store and store[x][0] == "nc" for x in ids):
            # DataStoreSqlite reports not-completed identifiers as members, apply_to skips them ("append only"); whether a
            # failed input must be retried on a re-run is not part of the property: not judged
            out.append(None)
            break
        singles, calls = [], []
        for i in ph["inputs"]:
            r, c = oracle_single(ph["specs"], i)
            singles.append(r)
        if not ph["inputs"] or len(set(ids)) != len(ids):
            # documented refusals: empty input, non-unique identifiers -> ValueError, nothing processed
            out.append(dict(exc=2, singles=singles, asc=sorted(singles, key=repr)))
            break
        for i, x, r in zip(ph["inputs"], ids, singles):
            if x in store and store[x][0] == "done":
                continue  # already completed: skipped
            _, c = oracle_single(ph["specs"], i)
            calls += c
            store[x] = ("nc" if r[0] == 3 else "done", r)
        if ph["logging"]:
            logs += 1
        done = sorted(([x + ".json", x, r] for x, (k, r) in store.items() if k == "done"), key=repr)
        nc = sorted(([x + ".json", r] for x, (k, r) in store.items() if k == "nc"), key=repr)
        out.append(dict(exc=None, live_done=sorted(d[0] for d in done), live_nc=sorted(n[0] for n in nc), done=done, nc=nc,
                        logs=logs, calls=sorted(calls), singles=singles, asc=sorted(singles, key=repr)))
    return out


# ------------------------------------------------------------------ generators

TAME = ["a.fa", "bb.fa", "c3.fa", "dd4.fasta", "e5.fa.gz", "d/f6.fa", "g7.phylip", "h8.fa", "k9.fa", "m10.fa"]


MEMBERS = ["a.fa", "bb.fa", "c3.fa", "h8.fa", "k9.fa", "m10.fa", "x_1.fa", "y-2.fa"]


def exhaustive_core(n, ngeneric, patterns, with_perms=True, logging=False, members=False, rng=None, max_perms=None,
                    max_pats=None):
    """every outcome pattern per input x every completion order (+ serial); with [rng]: a sample of [max_pats] pattern
    tuples and, per tuple, of [max_perms] completion orders (the quick tier; the thorough tier enumerates)"""
    cases = []
    names = (MEMBERS if members else TAME)[:n]
    all_pats = list(itertools.product(patterns, repeat=n))
    if rng is not None and max_pats is not None and len(all_pats) > max_pats:
        all_pats = rng.sample(all_pats, max_pats)
    all_perms = [list(p) for p in itertools.permutations(range(n))] if with_perms else []
    for pats in all_pats:
        perms = all_perms
        if rng is not None and max_perms is not None and len(perms) > max_perms:
            perms = rng.sample(all_perms, max_perms)
        scheds = [None] + perms
        for sched in scheds:
            specs = std_pipeline(ngeneric, rot=len(cases))
            if members:
                specs[0]["types"] = None   # the loader is handed DataMember objects
            for nm, pat in zip(names, pats):
                apply_pattern(specs, nm, pat)
            ins = [minput(s) if members else sinput(s) for s in names]
            cases.append(dict(block=f"core{n}x{ngeneric}" + ("m" if members else ""), phases=[phase(specs, ins, sched, logging)]))
            if members and sched is None:
                cases.append(dict(block=f"core{n}x{ngeneric}store", phases=[phase(specs, ins, None, logging, as_store=True)]))
    return cases


def hazard_cases(tier):
    """identifier classes outside the hypotheses of the theorem (each block one class)"""
    cases = []
    fails = [None, (0, ["raise", "boom"]), (1, ["ncsrc", "FALSE"])]
    for names, blk in ((["ba.fa", "a.fa"], "suffix-ids"), (["cba.fa", "ba.fa", "a.fa"], "suffix-ids"),
                       (["g.v1.fa", "g.v2.fa"], "dotted-ids"), (["g.v1.fa", "g.fa"], "dotted-ids"), (["a.b.fa.gz"], "dotted-ids")):
        n = len(names)
        if tier == "quick" and n == 3:
            continue  # the three-identifier chain is enumerated in the thorough tier only
        for pats in itertools.product(fails, repeat=n):
            for sched in [None] + [list(p) for p in itertools.permutations(range(n))]:
                specs = std_pipeline(1)
                for nm, pat in zip(names, pats):
                    apply_pattern(specs, nm, pat)
                cases.append(dict(block=blk, phases=[phase(specs, [sinput(s) for s in names], sched)]))
    # falsy inputs
    for falsy in (oinput("k2", "o2.fa", truthy=False),):
        for pos in (0, 1):
            ins = [sinput("a.fa")] if falsy["t"] == "str" else [oinput("k1", "o1.fa")]
            ins.insert(pos, falsy)
            specs = std_pipeline(1) if falsy["t"] == "str" else [spec("g1", style="func_args"), spec("g2", style="class")]
            cases.append(dict(block="falsy-input", phases=[phase(specs, ins, None)]))
    # objects carrying their own .source (not proxied): results that lose it
    for act in (None, ["ncsrc", "FALSE"], ["raise", "boom"], ["none"], ["ncnosrc", "FALSE"], ["dropsrc"], ["str"]):
        for sched in (None, [1, 0]):
            specs = [spec("g1", style="func_args"), spec("g2", style="class")]
            if act:
                specs[1]["script"]["k2"] = act
            cases.append(dict(block="bare-input", phases=[phase(specs, [oinput("k1", "o1.fa"), oinput("k2", "d/o2.fa")], sched)]))
    # re-run over a store that already holds completed and not-completed records
    for second in (None, (0, ["raise", "boom"]), (1, ["none"])):
        for sched in (None, [2, 1, 0], [1, 2, 0]):
            s1 = std_pipeline(1)
            apply_pattern(s1, "bb.fa", (0, ["raise", "boom"]))
            s2 = std_pipeline(1)
            apply_pattern(s2, "bb.fa", second)
            ins1 = [sinput("a.fa"), sinput("bb.fa")]
            ins2 = [sinput("a.fa"), sinput("bb.fa"), sinput("c3.fa")]
            cases.append(dict(block="rerun", phases=[phase(s1, ins1, None), phase(s2, ins2, sched, logging=True)]))
    # identifier derivation on less tame names (upper-case suffixes are outside the oracle: model vs implementation only)
    for nm in ["x.FA", "y.Fasta.GZ", "z.tar.gz", "noext", "UP.fa", "w.fa.bz2", "v.fa.zip", "d1/d2/u.fasta", "t.gz", "s.txt.gz",
               "r_1-2.phylip", "q.json", "p.log"]:
        for act in (None, (0, ["raise", "boom"])):
            specs = std_pipeline(1)
            apply_pattern(specs, nm, act)
            cases.append(dict(block="names", phases=[phase(specs, [sinput(nm), sinput("a.fa")], None)]))
    # duplicate identifiers and empty input: documented refusals
    cases.append(dict(block="refusal", phases=[phase(std_pipeline(1), [sinput("s.1"), sinput("s.2")], None)]))
    cases.append(dict(block="refusal", phases=[phase(std_pipeline(1), [sinput("x.fa"), sinput("d/x.fasta")], None)]))
    cases.append(dict(block="refusal", phases=[phase(std_pipeline(1), [], None)]))
    return cases


ACTIONS = [["raise", "boom"], ["none"], ["ncsrc", "FALSE"], ["ncsrc", "ERROR"], ["ncnosrc", "FAIL"], ["wrong", "TB"],
           ["empty"], ["list"], ["str"], ["falsy"]] + [["odd", k] for k in ODD_KINDS]
NAME_POOLS = [TAME, ["s1.fa", "s2.fa", "t1.fa", "t22.fa", "u.fasta", "v.fa.bz2", "dir/w.fa", "x_1.fa", "y-2.fa", "z.txt"]]


def random_case(rng, tier):
    nph = 1 if rng.random() < 0.7 else 2
    pool = rng.choice(NAME_POOLS)
    phases = []
    names_all = rng.sample(pool, rng.randint(1, min(len(pool), 7 if tier == "quick" else 9)))
    nst = rng.randint(1, 4)
    has_loader = rng.random() < 0.8
    members = rng.random() < 0.25
    if members:
        pool = MEMBERS
        names_all = rng.sample(pool, rng.randint(1, 6))
        has_loader = True
    for pi in range(nph):
        specs = []
        for j in range(nst):
            if j == 0 and has_loader:
                sp = spec("ld", kind="loader", types=None if members else rng.choice([("str",), None]), out="TA",
                          style=rng.choice(STYLES))
            else:
                types = rng.choice([("TA",), ("TA",), ("TA", "TB"), None, ("TB",)] if j > 0 or has_loader else [("str",), None])
                sp = spec(f"g{j}", types=types, out=rng.choice(["TA", "TA", "TB"]), skip=rng.random() < 0.9,
                          style=rng.choice(STYLES))
            specs.append(sp)
        declare_returns(specs, rng)
        names = names_all if pi == 0 else rng.sample(pool, rng.randint(1, min(len(pool), 7)))
        for nm in names:
            if rng.random() < 0.45:
                st = rng.randrange(nst)
                act = rng.choice(ACTIONS)
                if st == nst - 1 and act[0] == "list":
                    act = ["none"]  # a list of objects is not JSON serialisable: keep it away from the writer
                specs[st]["script"][nm] = list(act)
        n = len(names)
        r = rng.random()
        if r < 0.3:
            sched = None
        else:
            sched = list(range(n))
            rng.shuffle(sched)
        phases.append(phase(specs, [minput(s) if members else sinput(s) for s in names], sched, logging=rng.random() < 0.2))
    return dict(block="random", phases=phases)


def real_parallel_cases(rng, tier):
    """real `parallel=True` runs (loky): the worker-count dimension of the property (1, 2, 3, default), the other par_kw
    keys (if_serial, chunksize) and skewed task durations; quick: one small case each for 1 and 2 workers"""
    cases = []

    def one(nin, workers, extra=None, opts=None, skew=True, logging=False):
        names = rng.sample(TAME, nin)
        specs = std_pipeline(2, rot=rng.randrange(4))
        delays = {}
        for k, nm in enumerate(names):
            if rng.random() < 0.4:
                apply_pattern(specs, nm, rng.choice(PATTERNS_CORE[1:]))
            if skew:  # earlier inputs take longer, forcing reversed / interleaved completion
                delays[nm] = rng.choice([0, 5, 40, 80]) if rng.random() < 0.5 else (len(names) - k) * 25
        real = dict(max_workers=workers)
        real.update(extra or {})
        return dict(block="real-parallel", phases=[phase(specs, [sinput(s) for s in names], None, logging=logging, real=real,
                                                         delays=delays, opts=opts)])

    if tier == "quick":
        for w in (1, 2):
            c = one(3, w, skew=False)
            apply_pattern(c["phases"][0]["specs"], c["phases"][0]["inputs"][0]["s"], (1, ["raise", "bang"]))
            cases.append(c)
        # explicit chunksize that does not divide the number of inputs / exceeds it
        for n, cs, w in ((3, 2, 2), (4, 3, 1), (5, 6, 2), (7, 3, 3)):
            cases.append(one(n, w, extra=dict(chunksize=cs), skew=False))
        return cases
    ws = [1, 2, 3, None]
    k = 0
    for n in (3, 4, 5, 7):
        for cs in (1, 2, 3, n - 1, n + 1):
            cases.append(one(n, ws[k % 4], extra=dict(chunksize=cs), skew=(k % 3 == 0)))
            k += 1
    for w in (1, 2, 3, None):
        for _ in range(5):
            cases.append(one(rng.randint(3, 8), w))
        cases.append(one(1, w))                                   # a single task
        cases.append(one(4, w, extra=dict(if_serial=rng.choice(["ignore", "warn", "raise"]))))
        cases.append(one(5, w, extra=dict(chunksize=rng.choice([1, 2, 3]))))
        cases.append(one(4, w, opts=dict(show_progress=True), logging=True))
    return cases


def option_cases():
    """apply_to options that change no record: show_progress, logger given / default, cleanup"""
    cases = []
    for sched in (None, [2, 0, 1]):
        for opts, logging in ((dict(show_progress=True), False), (dict(cleanup=False), True), (dict(cleanup=True), True),
                              (dict(logger="given"), True), (dict(logger="given", cleanup=False, show_progress=True), True)):
            specs = std_pipeline(1)
            apply_pattern(specs, "bb.fa", (0, ["raise", "boom"]))
            cases.append(dict(block="options", phases=[phase(specs, [sinput(x) for x in TAME[:3]], sched, logging=logging,
                                                               opts=dict(opts))]))
    return cases


def matrix_key(ph):
    real = ph.get("real")
    if real:
        ex = "loky|workers=" + str(real.get("max_workers"))
        extra = [f"{k}={real[k]}" for k in ("if_serial", "chunksize") if k in real]
    else:
        ex = "serial" if ph["sched"] is None else "forced-order(pickled both ways)"
        extra = []
    o = ph.get("opts") or {}
    extra += [f"{k}={o[k]}" for k in sorted(o) if k != "logger"]
    extra.append("logger=" + (("given" if o.get("logger") == "given" else "default") if ph["logging"] else "False"))
    if ph.get("as_store"):
        extra.append("input=datastore")
    return ex + "|" + ",".join(extra)


# ------------------------------------------------------------------ comparison


def classify(case, ph_i, exp, got):
    """coarse, seed-independent key: symptom + identifier hazards of the case"""
    hz = "+".join(hazards(case)) or "plain"
    if got.get("exc") is not None and (exp is None or exp.get("exc") is None):
        return f"apply_to-raised:{got.get('exc_name', got['exc'])}:{hz}"
    if exp.get("exc") is not None and got.get("exc") is None:
        return f"refusal-missing:{hz}"
    if exp.get("exc") is not None:
        return f"refusal-differs:{hz}"
    eid = {d[0] for d in exp["done"]} | {d[0] for d in exp["nc"]}
    gid = {d[0] for d in got["done"]} | {d[0] for d in got["nc"]}
    if eid - gid:
        return f"input-dropped:{hz}"
    if gid - eid:
        return f"unexpected-record:{hz}"
    if got["done"] != exp["done"] or got["nc"] != exp["nc"]:
        return f"record-differs:{hz}"
    if got["live_done"] != exp["live_done"] or got["live_nc"] != exp["live_nc"]:
        return f"live-members-differ:{hz}"
    if got["calls"] != exp["calls"]:
        return f"invocations-differ:{hz}"
    if got["singles"] != exp["singles"]:
        return f"single-call-differs:{hz}"
    if got.get("asc") != exp.get("asc"):
        return f"as_completed-differs:{hz}"
    if got["logs"] != exp["logs"]:
        return f"log-count:{hz}"
    return f"other:{hz}"


def small_case(case, upto):
    d = dict(block=case.get("block"), phases=case["phases"][: upto + 1])
    if case.get("store"):
        d["store"] = case["store"]
    return d


def compare(rep, cases, impl, model, disagreements):
    nvio = ndis = 0
    for c, ir, mr in zip(cases, impl, model):
        if isinstance(ir, dict):  # the runner itself failed / hung on this case
            nvio += 1
            rep.violation("runner:" + ("hang" if ir.get("hang") else "crash"),
                          dict(case=c, observed_impl=ir, broken="the implementation runner died on this case"))
            continue
        orc = run_oracle(c)
        for pi, io_ in enumerate(ir):
            got = impl_phase_to_dict(io_)
            if io_.get("exc") is not None:
                got["exc_name"] = (io_.get("exc_info") or "").split(":")[0]
            exp = orc[pi] if pi < len(orc) else None
            mod = mr[pi] if mr is not None and pi < len(mr) else None
            g2 = {k: v for k, v in got.items() if k != "exc_name"}
            if io_.get("opt_problem"):
                nvio += 1
                rep.violation("option:" + io_["opt_problem"].split(":")[0],
                              dict(case=small_case(c, pi), phase=pi, observed_impl=io_, broken=io_["opt_problem"]))
                break
            if exp is not None and g2 != exp:
                nvio += 1
                rep.violation(classify(c, pi, exp, got),
                              dict(case=small_case(c, pi), phase=pi, expected_by_spec=exp, observed_impl=io_, model_output=mod,
                                   hazards=hazards(c),
                                   broken="apply_to did not leave exactly one record per input with the single-call content "
                                          "(or raised / called a stage it should not have)"))
                break
            if mod is not None and g2 != mod:
                ndis += 1
                if len(disagreements) < 5:
                    disagreements.append(dict(key=f"phase:{c.get('block')}", case=small_case(c, pi), phase=pi,
                                              observed_impl=io_, model_output=mod))
                break
            if got.get("exc") is not None:
                break
    return nvio, ndis


# ------------------------------------------------------------------ the check


def build_cases(tier, rng):
    cases = []
    cdir = core.VERIF / "corpus" / PROP
    if cdir.exists():
        for p in sorted(cdir.glob("*.json")):
            cases.append(json.loads(p.read_text()))
    if tier == "quick":
        # budget: <= ~100 s uncontended.  All completion orders for <= 3 inputs, a sample of orders for 4 and 5 inputs
        cases += exhaustive_core(3, 2, PATTERNS_CORE[:4])                                  # 4^3 x 7 orders
        cases += exhaustive_core(2, 2, PATTERNS_CORE)                                      # 10^2 x 3 orders
        cases += exhaustive_core(4, 1, PATTERNS_CORE[:2], rng=rng, max_perms=5)            # 2^4 x (serial + 5 of 24)
        cases += exhaustive_core(5, 1, PATTERNS_CORE[:2], rng=rng, max_perms=2, max_pats=16)  # 16 of 2^5 x (serial + 2 of 120)
        cases += exhaustive_core(3, 1, PATTERNS_CORE[:3], members=True)                    # 3^3 x 7 orders (+ store input)
        nrand = 140
    else:
        cases += exhaustive_core(3, 2, PATTERNS_CORE)              # 10^3 x 7
        cases += exhaustive_core(4, 1, PATTERNS_CORE[:4])          # 4^4 x 25
        cases += exhaustive_core(5, 1, PATTERNS_CORE[:2])          # 2^5 x 121
        cases += exhaustive_core(2, 2, PATTERNS_CORE, logging=True)
        cases += exhaustive_core(3, 2, PATTERNS_CORE[:6], members=True)
        nrand = 6000
    cases += hazard_cases(tier)
    cases += option_cases()
    cases += [random_case(rng, tier) for _ in range(nrand)]
    # the same machinery over write_db + DataStoreSqlite
    if tier == "quick":
        hz = hazard_cases(tier)
        keep, seen = [], {}
        for c in hz:   # every block represented: the first 12 cases of each
            seen[c["block"]] = seen.get(c["block"], 0) + 1
            if seen[c["block"]] <= 12:
                keep.append(c)
        sq = exhaustive_core(2, 1, PATTERNS_CORE[:4]) + keep + [random_case(rng, tier) for _ in range(40)]
    else:
        sq = exhaustive_core(3, 1, PATTERNS_CORE[:4]) + hazard_cases(tier) + [random_case(rng, tier) for _ in range(nrand // 4)]
    for c in sq:
        c["store"] = "sqlite"
        c["block"] = "sqlite:" + c["block"]
    return cases + sq


def run(tier: str, seed: int) -> int:
    rep = core.Report(PROP, tier, seed)
    rng = random.Random(seed * 104729 + 14)
    pr = core.proof_stage(PROP, COQ_TARGETS)
    core.proof_coverage(rep, pr, "make theories/Properties/C14.vo && coqc gen/assum_C14.v (Print Assumptions)", [
        "util/parallel.as_completed (loky / concurrent.futures): assumed to yield the result of every submitted task exactly "
        "once; its order is the universally quantified schedule of the theorems; real executors are only sampled (thorough tier)",
        "app main() functions are assumed to be functions of their argument (no shared state between records)",
        "pickling of source_proxy / NotCompleted across processes is exercised (every forced-order run pickles both ways), not proved",
        "json, pathlib, re, scitrack logging, the file system under DataStoreDirectory",
    ])
    rep.assumptions += [
        "the model variant (pinned / repaired definitions of _proxy_input, apply_to, the store writes and the directory "
        "retirement rule) is selected by behavioural probes of the code under test and recorded under coverage.store_variant; "
        "the theorems for the repaired variant need unique identifiers on which the store is a dictionary (good_kind) and "
        "nothing about the inputs; the theorems for the pinned variant additionally need plain_input and separated identifiers",
        "directory store: identifiers containing a dot are outside good_kind (Path.stem normalisation, open known finding)",
    ]
    proof_broken = bool(pr["problems"])
    rep.coverage["store_variant"] = probe_store_variant()
    cases = build_cases(tier, rng)
    real_cases = real_parallel_cases(rng, tier)
    impl = core.run_impl_sharded("c14_impl.py", cases)
    impl_real = core.run_impl_lines("c14_impl.py", real_cases) if real_cases else []
    model = None
    try:
        model = run_model(cases + real_cases)
    except core.CheckError as e:
        if not proof_broken:
            raise
        rep.notes.append(f"model not runnable: {str(e)[:300]}")
    allcases = cases + real_cases
    allimpl = impl + impl_real
    if model is None:
        model = [None] * len(allcases)
    disagreements: list = []
    nvio, ndis = compare(rep, allcases, allimpl, model, disagreements)

    # which cases do the exactly-one theorems cover?  Decided inside Coq: good_kind_b on the identifiers of the case
    idsets = {}
    for c in allcases:
        txts = [input_srctext(i) for ph in c["phases"] for i in ph["inputs"]]
        if all(t is not None and t != "" and id_applicable(t) for t in txts) and txts:
            idsets.setdefault((c.get("store", "dir"), tuple(sorted({oracle_id(t) for t in txts}))), []).append(c)
    keys = sorted(idsets)
    covered = uncovered = 0
    try:
        good = core.coq_eval(PROP, ["Model.Apps", "Spec.AppsSpec"],
                             "fun p => VB (good_kind_b (if (fst p =? 0) then dict_kind else if (fst p =? 2) then dir_kind_fixed "
                             "else dir_kind) (snd p))",
                             ["(" + ("0" if k[0] == "sqlite" else DIR_KIND[0]) + ", [" + ";".join(zstr(x) for x in k[1]) + "])" for k in keys],
                             "Z * list (list Z)", shard=200, tag="g")
    except core.CheckError as e:
        good = [None] * len(keys)
        rep.notes.append(f"good_kind_b not evaluated: {str(e)[:200]}")
    id_hz = {"dotted-ids", "suffix-ids", "suffix-in-id", "odd-name"}
    if DIR_KIND[0] == "2":
        id_hz -= {"suffix-ids", "suffix-in-id"}   # inside the theorems for the repaired store
    for k, g in zip(keys, good):
        for c in idsets[k]:
            py_plain = not (set(hazards(c)) & id_hz)
            if g:
                covered += 1
            else:
                uncovered += 1
            if g is not None and k[0] != "sqlite" and bool(g) != py_plain:
                rep.notes.append(f"identifier class mismatch: good_kind_b={g} but driver hazards={hazards(c)} for ids {list(k[1])}")
    nontrivial = set()
    dist: dict = {}
    nperm = 0
    for c in allcases:
        dist[c.get("block", "corpus")] = dist.get(c.get("block", "corpus"), 0) + 1
        for ph in c["phases"]:
            failing = any(sp["script"] for sp in ph["specs"])
            if ph["sched"] is not None and ph["sched"] != sorted(ph["sched"]):
                nperm += 1
            if failing and len(ph["inputs"]) >= 2 and (ph["sched"] is not None or ph.get("real")):
                nontrivial.add(json.dumps(ph, sort_keys=True))
    matrix: dict = {}
    for c in allcases:
        st = c.get("store", "dir")
        for ph in c["phases"]:
            k = st + "|" + matrix_key(ph)
            matrix[k] = matrix.get(k, 0) + 1
    sample = allcases[7] if len(allcases) > 7 else allcases[0]
    rep.coverage.update(
        evaluations=sum(len(c["phases"]) for c in allcases), distinct_nontrivial=len(nontrivial),
        rule="one evaluation = one apply_to of a scripted pipeline on a list of inputs under one completion order; "
             "non-trivial = at least 2 inputs, at least one scripted failure, run under a forced or real parallel completion order",
        samples=[dict(case=sample, impl=allimpl[allcases.index(sample)])],
        input_distribution=dict(cases=len(allcases), blocks=dist, non_identity_orders=nperm, real_parallel_runs=len(real_cases)),
        model_impl_disagreements=ndis, spec_violations=nvio,
        run_matrix=dict(sorted(matrix.items())),
        cases_with_good_identifiers=covered, cases_with_identifiers_outside_theorem=uncovered,
        partial=["real multiprocessing (loky) schedules are sampled, not proved: the theorems quantify over every order in "
                 "which as_completed may yield the results and every chunking of the task list",
                 "identifier classes outside `good_ids` for the directory store (suffix-related, dotted, containing the store "
                 "suffix): covered by _refuted theorems and by the oracle, not by the exactly-one theorem",
                 "traceback text of captured exceptions is compared by its last line only"],
        exhaustive=False,
    )
    core.conclude(rep, pr, f"{len(allcases)} cases against the one-record-per-input oracle", disagreements, TIE, tier, PROP)
    return rep.finish("proof")


def replay(path: str) -> int:
    d = json.loads(open(path).read())
    if "case" not in d:
        print("replay names a broken obligation, not an input:", d.get("broken"))
        return 1
    c = d["case"]
    ir = core.run_impl_lines("c14_impl.py", [c])[0]
    orc = run_oracle(c)
    bad = False
    if isinstance(ir, dict):
        print("impl  :", ir)
        bad = True
    else:
        for pi, io_ in enumerate(ir):
            got = impl_phase_to_dict(io_)
            exp = orc[pi] if pi < len(orc) else None
            print(f"phase {pi} impl  :", json.dumps(io_)[:1500])
            print(f"phase {pi} oracle:", json.dumps(exp)[:1500])
            if exp is not None and got != exp:
                bad = True
                break
    print("REPRODUCED" if bad else "not reproduced")
    return 1 if bad else 0
