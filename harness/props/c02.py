"""C02 — Log-likelihood equals the first-principles Felsenstein sum-product.

Stage P: Properties/C02.v (pruning = brute-force sum over assignments, for every
rose tree / alphabet size / leaf sets, over any commutative semiring; column
compression; mixture; columns sum to one).
Stage C: real cogent3 likelihood functions (c02_impl.py) vs the Coq model
(Model/LikRun.v, exact integers = the implementation's own floats scaled by a
power of two) — per unique column likelihood, root index/counts.
Stage S: plain-Python oracles written from the property text: exhaustive
sum over all assignments of states to the internal nodes with leaf sets from a
hard-coded IUPAC table (exact integer arithmetic), published rate-matrix
definitions + scipy expm for the named nucleotide models, sum over all possible
columns = 1.
"""
from __future__ import annotations

import itertools
import json
import math
import random

from vcheck import core
from vcheck.val import Exc, zlit

PROP = "C02"
COQ_TARGETS = ["theories/Model/LikRun.vo"]

REL_TOL = 1e-9          # per-column likelihood, implementation (float) vs exact sum-product on its own P
LNL_TOL = 1e-8          # lnL: abs tolerance * max(1, |lnL|)
P_TOL = 1e-8            # P from the published definition (scipy expm) vs implementation, abs
PUB_LNL_TOL = 1e-6      # lnL recomputed end-to-end from the published definition, abs * max(1,|lnL|)

NUC_REV = ["JC69", "F81", "K80", "HKY85", "TN93", "GTR"]
NUC_NONREV = ["GN", "ssGN"]
CODON = ["MG94HKY", "GY94", "CNFGTR", "MG94GTR", "CNFHKY", "Y98", "H04G", "H04GK", "H04GGK", "GNC"]
PROTEIN = ["JTT92", "WG01", "DSO78", "AH96"]
DINUC = ["DINUC:tuple", "DINUC:monomer", "DINUC:conditional"]   # TimeReversibleDinucleotide built in c02_impl.py
REVERSIBLE = set(NUC_REV + PROTEIN + DINUC + ["MG94HKY", "GY94", "CNFGTR", "MG94GTR", "CNFHKY", "Y98", "H04G", "H04GK", "H04GGK"])
EQUAL_FREQ = {"JC69", "K80"}


def case_class(case):
    """coarse model class of a case (named model table, or the kind of a directly built model)"""
    b = case.get("build")
    if b:
        return b["kind"] + "-built"
    return model_class(case["model"])


def case_kind(case):
    """alphabet kind: nuc | dinuc | codon | protein"""
    c = case_class(case)
    return "nuc" if c.startswith("nuc") else c.split("-")[0]


def case_mlen(case):
    return {"codon": 3, "trinuc": 3, "dinuc": 2}.get(case_kind(case), 1)


def model_class(m):
    if m in NUC_REV:
        return "nuc-rev"
    if m in NUC_NONREV:
        return "nuc-nonrev"
    if m in CODON:
        return "codon"
    if m in DINUC:
        return "dinuc"
    return "protein"


# ------------------------------------------------------------------ trees (plain nested dicts)

def leaf(name, length):
    return {"name": name, "len": length, "ch": []}


def newick(t, root=True):
    if not t["ch"]:
        s = t["name"]
    else:
        s = "(" + ",".join(newick(c, False) for c in t["ch"]) + ")" + ("" if root else t["name"])
    if root:
        return s + ";"
    return f"{s}:{t['len']!r}"


def tips(t):
    return [t["name"]] if not t["ch"] else [x for c in t["ch"] for x in tips(c)]


def nodes(t):
    out = [t]
    for c in t["ch"]:
        out += nodes(c)
    return out


TINY = 1e-8   # lengths at or below this are the "tiny" edge-length class


def rand_len(rng):
    if rng.random() < 0.06:
        return rng.choice([1e-9, 1e-12, 5e-9, 3e-10, 1e-8])
    return rng.choice([0.0625, 0.125, 0.25, 0.5, 1.0, 2.0, round(rng.uniform(0.01, 1.5), 3), round(rng.uniform(0.01, 0.4), 4)])


def rand_tree(rng, ntips, names=None, min_root=2):
    names = names or [f"t{i}" for i in range(ntips)]
    pool = [leaf(n, rand_len(rng)) for n in names]
    k = 0
    while True:
        maxroot = rng.choice([2, 3, 3, 4])
        if len(pool) <= max(min_root, maxroot):
            break
        m = rng.choice([2, 2, 2, 3, 4])
        m = min(m, len(pool) - 1)
        rng.shuffle(pool)
        kids, pool = pool[:m], pool[m:]
        pool.append({"name": f"n{k}", "len": rand_len(rng), "ch": kids})
        k += 1
    rng.shuffle(pool)
    return {"name": "root", "len": None, "ch": pool}


def has_polytomy(t, root=True):
    """tree as [name, children]: a non-root node with > 2 children or a root with > 3"""
    return len(t[1]) > (3 if root else 2) or any(has_polytomy(c, False) for c in t[1])


# ------------------------------------------------------------------ alignments

DNA = "TCAG"
DNA_AMBIG = "RYNWSKMBDHV?-"
AA = "ACDEFGHIKLMNPQRSTVWY"
AA_AMBIG = "BZX?-"
# NCBI genetic codes (translation tables), codon order TTT, TTC, TTA, TTG, TCT, ... (T, C, A, G at each position):
# the specification's own copy, independent of cogent3's
GENETIC_CODES = {
    1: "FFLLSSSSYY**CC*WLLLLPPPPHHQQRRRRIIIMTTTTNNKKSSRRVVVVAAAADDEEGGGG",   # standard
    2: "FFLLSSSSYY**CCWWLLLLPPPPHHQQRRRRIIMMTTTTNNKKSS**VVVVAAAADDEEGGGG",   # vertebrate mitochondrial
    4: "FFLLSSSSYY**CCWWLLLLPPPPHHQQRRRRIIIMTTTTNNKKSSRRVVVVAAAADDEEGGGG",   # mold / protozoan mitochondrial
    5: "FFLLSSSSYY**CCWWLLLLPPPPHHQQRRRRIIMMTTTTNNKKSSSSVVVVAAAADDEEGGGG",   # invertebrate mitochondrial
    6: "FFLLSSSSYYQQCC*WLLLLPPPPHHQQRRRRIIIMTTTTNNKKSSRRVVVVAAAADDEEGGGG",   # ciliate nuclear
}
ALL_CODONS = ["".join(c) for c in itertools.product(DNA, repeat=3)]


def translation(gc):
    return dict(zip(ALL_CODONS, GENETIC_CODES[gc or 1]))


def sense_codons(gc=None):
    t = translation(gc)
    return [c for c in ALL_CODONS if t[c] != "*"]


STOPS = {"TAA", "TAG", "TGA"}
SENSE = sense_codons(1)

# the specification's own reading of degenerate symbols (IUPAC), independent of cogent3's tables
IUPAC_DNA = {"A": "A", "C": "C", "G": "G", "T": "T", "R": "AG", "Y": "CT", "W": "AT", "S": "CG", "K": "GT", "M": "AC",
             "B": "CGT", "D": "AGT", "H": "ACT", "V": "ACG", "N": "ACGT", "?": "ACGT", "-": "ACGT"}
IUPAC_AA = {**{a: a for a in AA}, "B": "DN", "Z": "EQ", "X": AA, "?": AA, "-": AA}


def spec_leaf_set(motif, alphabet, moltype):
    """set of alphabet indices compatible with an observed (possibly degenerate) motif; None = not a legal observation"""
    table = IUPAC_AA if moltype == "protein" else IUPAC_DNA
    if moltype != "protein" and any("-" in a for a in alphabet):
        # the model has the gap as a state of its own: '-' is that state, '?' (missing) is any state incl. the gap
        table = dict(IUPAC_DNA, **{"-": "-", "?": "ACGT-"})
    try:
        sets = [table[c] for c in motif]
    except KeyError:
        return None
    words = {"".join(w) for w in itertools.product(*sets)}
    idx = frozenset(i for i, a in enumerate(alphabet) if a in words)
    return idx or None


def rand_column(rng, ntips, kind, words=None):
    if kind == "codon" or words:
        words = words or SENSE
        k = len(words[0])
        base = rng.choice(words)
        col = []
        for _ in range(ntips):
            r = rng.random()
            if r < 0.5:
                c = base
            elif r < 0.78:
                c = rng.choice(words)
            elif r < 0.84:
                c = "-" * k
            else:
                # a word with a degenerate / missing symbol in SOME of its positions ('A?G', 'GC?', 'R-')
                c = list(rng.choice(words))
                for pos in rng.sample(range(k), rng.randint(1, k - 1) if k > 1 else 1):
                    c[pos] = rng.choice("RYN-??")
                c = "".join(c)
                if spec_leaf_set(c, words, "dna") is None:
                    c = "-" * k
            col.append(c)
        return col
    chars, amb = (AA, AA_AMBIG) if kind == "protein" else (DNA, DNA_AMBIG)
    base = rng.choice(chars)
    col = []
    for _ in range(ntips):
        r = rng.random()
        col.append(base if r < 0.5 else rng.choice(chars) if r < 0.85 else rng.choice(amb))
    return col


def rand_alignment(rng, names, kind, ncols, words=None, recode=True):
    """recode=False: the model keeps gap characters, for which no state set exists ('-' is then not a legal
    observation); missing data is written '?' only"""
    cols = []
    for _ in range(ncols):
        if cols and rng.random() < 0.3:
            cols.append(list(rng.choice(cols)))
        else:
            cols.append(rand_column(rng, len(names), kind, words))
    rows = [[n, "".join(c[i] for c in cols)] for i, n in enumerate(names)]
    if not recode and not (words and any("-" in w for w in words)):
        rows = [[n, s_.replace("-", "?")] for n, s_ in rows]
    return rows


SCOPE_OPTS = [dict(stem=True), dict(clade=True), dict(stem=True, clade=True), dict(), dict(stem=True, clade=False),
              dict(stem=False), dict(stem=False, clade=True)]


def rand_scope(rng, tree, opts=None):
    """a per-edge scope: an explicit edge list, or two tip names with one of the stem / clade / outgroup_name
    combinations (stem alone, clade alone, both, neither, explicit False's)"""
    named = [x for x in nodes(tree) if x["len"] is not None]
    inner = [x for x in named if x["ch"]]
    if not inner or (opts is None and rng.random() < 0.4):
        return {"edges": sorted(x["name"] for x in rng.sample(named, rng.randint(1, max(1, len(named) // 2))))}
    m = rng.choice(inner)
    c1, c2 = rng.sample(m["ch"], 2)
    sc = {"tip_names": [rng.choice(tips(c1)), rng.choice(tips(c2))]}
    sc.update(opts if opts is not None else rng.choice(SCOPE_OPTS + [dict(stem=True), dict(stem=True)]))
    outside = [t for t in tips(tree) if t not in tips(m)]
    if outside and rng.random() < 0.4:
        sc["outgroup_name"] = rng.choice(outside)
    return sc


def rand_history(rng, case):
    """models built earlier in the same interpreter: same class with another genetic code / other options, and
    unrelated ones"""
    h = []
    kind = case_kind(case)
    base = {k: case.get(k) for k in ("model", "build", "recode_gaps", "gc", "solved", "moltype")}
    if kind == "codon":
        others = [g for g in GENETIC_CODES if g != (case.get("gc") or 1)]
        for g in rng.sample(others, rng.choice([1, 1, 2])):
            h.append(dict(base, gc=g))
    else:
        h.append(dict(base, recode_gaps=not case.get("recode_gaps", True)))
        if case.get("model") in SOLVABLE:
            h.append(dict(base, solved=not case.get("solved")))
    if rng.random() < 0.3:
        h.append(dict(model=rng.choice(["HKY85", "GY94", "MG94HKY"]), recode_gaps=True))
    rng.shuffle(h)
    return h


SOLVABLE = ["F81", "HKY85", "TN93"]   # closed-form P(t): get_model(name, rate_matrix_required=False)


def rand_bins(rng, choices_n, shapes):
    b = {"n": rng.choice(choices_n), "shape": rng.choice(shapes)}
    if rng.random() < 0.5:
        w = [rng.randint(1, 6) for _ in range(b["n"])]
        if len(set(w)) == 1:
            w[0] += 1
        b["bprobs"] = [x / sum(w) for x in w]
    return b


def rand_mprobs(rng, chars):
    w = [rng.randint(1, 9) for _ in chars]
    s = sum(w)
    return {c: x / s for c, x in zip(chars, w)}


def random_case(rng, tier, models=None, max_tips=6, min_tips=3, scope_opts=None):
    r = rng.random()
    if models is not None:
        model = rng.choice(models)
    elif r < 0.52:
        model = rng.choice(NUC_REV)
    elif r < 0.68:
        model = rng.choice(NUC_NONREV)
    elif r < 0.82:
        model = rng.choice(PROTEIN[:2] if tier == "quick" else PROTEIN)
    elif r < 0.86:
        model = rng.choice(DINUC)
    else:
        model = rng.choice(CODON[:3] if tier == "quick" else CODON)
    cls = model_class(model)
    kind = "codon" if cls == "codon" else "protein" if cls == "protein" else "dna"
    big = cls in ("codon", "protein", "dinuc")
    ntips = rng.randint(min_tips, max(min_tips, 4 if big else max_tips))
    tree = rand_tree(rng, ntips)
    names = tips(tree)
    rng.shuffle(names)
    ncols = rng.randint(2, 5) if big else rng.randint(4, 20)
    if cls == "dinuc":
        ncols *= 2   # two characters per motif
    recode = rng.random() < 0.6
    words = ["".join(w) for w in itertools.product(DNA, repeat=2)] if cls == "dinuc" else None
    if words:
        ncols //= 2
    gc = None
    if cls == "codon":
        gc = rng.choice([None, 1, 2, 2, 4, 5, 6])
        words = sense_codons(gc)
    case = dict(model=model, moltype="protein" if kind == "protein" else "dna", tree=newick(tree),
                aln=rand_alignment(rng, names, kind, ncols, words, recode), mprobs=None, pseed=rng.randrange(1 << 30), scoped=None,
                bins=None, block="random", recode_gaps=recode, gc=gc)
    if model in SOLVABLE and rng.random() < 0.45:
        case["solved"] = True
    if rng.random() < (0.8 if cls == "codon" else 0.3):
        case["history"] = rand_history(rng, case)
    if model not in EQUAL_FREQ and cls.startswith("nuc"):
        case["mprobs"] = rand_mprobs(rng, DNA)
    if cls.startswith("nuc") or cls in ("codon", "dinuc"):
        if scope_opts is not None or rng.random() < 0.4:
            case["scoped"] = rand_scope(rng, tree, scope_opts)
    if cls == "nuc-rev" and rng.random() < 0.45:
        case["bins"] = rand_bins(rng, [2, 3, 4], [0.3, 0.7, 1.0, 2.5])
        if rng.random() < 0.3:
            # autocorrelated rates: patch-HMM over the bins
            case["bins"]["hmm"] = {"switch": rng.choice([0.1, 0.3, 0.6, 0.9])}
            case["no_model"] = True
    elif cls == "codon" and rng.random() < 0.15:
        case["bins"] = rand_bins(rng, [2, 3], [0.5, 1.5])
    return case


DINUCS = ["".join(w) for w in itertools.product(DNA, repeat=2)]
MPROB_MODELS = ["tuple", "monomer", "monomers", "conditional"]


def rand_symmetric_predicates(rng):
    """a random set of undirected single-pair predicates (a user-built reversible nucleotide model)"""
    pairs = [("A", "G"), ("C", "T"), ("A", "C"), ("A", "T"), ("C", "G")]
    rng.shuffle(pairs)
    return [[f"p{x}{y}", x, y, False] for x, y in pairs[:rng.randint(1, 4)]]


def dinuc_subset(rng):
    """a motifs= subset that keeps the model well defined: S1 x S2 with |S1| = 3 (any 3 nucleotides contain one
    transition pair and transversion pairs, so kappa is neither always true nor always false) and |S2| in {2,3,4}"""
    s1 = rng.sample(DNA, 3)
    s2 = rng.sample(DNA, rng.choice([2, 3, 4]))
    if rng.random() < 0.5:
        s1, s2 = s2, s1
    return sorted(a + b for a in s1 for b in s2)


def built_case(rng, tier, kind=None, mprob_model=None, subset=None, gaps=None):
    """directly built models: TimeReversible{Nucleotide,Dinucleotide,Codon} x motif-prob model x motifs= subset
    x recode_gaps, with '?' inside words"""
    kind = kind or rng.choice(["codon", "codon", "dinuc", "dinuc", "nuc", "trinuc", "nuc"])
    gc = None
    if gaps is None:
        gaps = kind in ("nuc", "dinuc", "trinuc") and rng.random() < 0.35
    mp = mprob_model or (rng.choice(MPROB_MODELS) if kind != "nuc" else None)
    if gaps:
        mp = "tuple"     # required by cogent3 for gap models
    build = {"kind": kind, "mprob_model": mp, "predicates": "kappa+omega" if kind == "codon" else "kappa"}
    words = None
    if gaps:
        # the gap is a state: 5 / 25 / 125 states ("published" definition: see published_word_Q)
        build["model_gaps"] = True
        words = ["".join(w) for w in itertools.product(DNA + "-", repeat={"nuc": 1, "dinuc": 2, "trinuc": 3}[kind])]
    elif kind == "nuc":
        build["predicates"] = rand_symmetric_predicates(rng)
    elif kind == "trinuc":
        words = list(ALL_CODONS)
    elif kind == "dinuc":
        words = list(DINUCS)
        if subset or (subset is None and rng.random() < 0.5):
            words = dinuc_subset(rng)
            build["motifs"] = words
    else:
        gc = rng.choice([None, 1, 2, 4, 5, 6])
        words = sense_codons(gc)
    recode = rng.random() < 0.4 and not gaps
    ntips = rng.randint(3, 4 if kind != "nuc" else 6)
    if kind == "trinuc":
        ntips = 3
    tree = rand_tree(rng, ntips)
    names = tips(tree)
    rng.shuffle(names)
    ncols = rng.randint(2, 5) if kind != "nuc" else rng.randint(4, 16)
    case = dict(model="BUILT", build=build, moltype="dna", tree=newick(tree),
                aln=rand_alignment(rng, names, "codon" if kind == "codon" else "dna", ncols, words, recode), mprobs=None,
                pseed=rng.randrange(1 << 30), scoped=None, bins=None, block="built", recode_gaps=recode, gc=gc)
    if rng.random() < 0.3:
        case["scoped"] = rand_scope(rng, tree)
    if kind == "codon" and rng.random() < 0.8:
        case["history"] = rand_history(rng, case)
    if rng.random() < 0.2 and kind != "trinuc":
        case["bins"] = rand_bins(rng, [2, 3], [0.5, 1.0, 2.0])
    if kind == "trinuc" and gaps:
        case["no_model"] = True   # 125 states: too large as a Coq literal; implementation vs oracles only
    return case


def allcols_built_case(rng, kind, mprob_model):
    """every possible column exactly once for a directly built word model: two taxa x all sense codons (3721
    columns) or three taxa x a dinucleotide motifs= subset; sum of the column likelihoods must be 1"""
    build = {"kind": kind, "mprob_model": mprob_model, "predicates": "kappa+omega" if kind == "codon" else "kappa"}
    gc = None
    if kind == "codon":
        gc = rng.choice([None, 2, 5])
        words, ntips = sense_codons(gc), 2
    else:
        words, ntips = dinuc_subset(rng), 3
        while len(words) > 9:
            words = dinuc_subset(rng)
        build["motifs"] = words
    tree = {"name": "root", "len": None, "ch": [leaf(f"t{i}", rand_len(rng)) for i in range(ntips)]}
    cols = list(itertools.product(words, repeat=ntips))
    rng.shuffle(cols)
    aln = [[f"t{i}", "".join(c[i] for c in cols)] for i in range(ntips)]
    return dict(model="BUILT", build=build, moltype="dna", tree=newick(tree), aln=aln, mprobs=None, pseed=rng.randrange(1 << 30),
                scoped=None, bins=None, block="allcols", recode_gaps=False, no_model=True, gc=gc)


def allcols_case(rng, ntips, model):
    """alignment = every possible column over ACGT exactly once (sum of column likelihoods must be 1)"""
    tree = rand_tree(rng, ntips)
    names = tips(tree)
    cols = list(itertools.product(DNA, repeat=ntips))
    rng.shuffle(cols)
    aln = [[n, "".join(c[i] for c in cols)] for i, n in enumerate(names)]
    return dict(model=model, moltype="dna", tree=newick(tree), aln=aln, mprobs=None if model in EQUAL_FREQ else rand_mprobs(rng, DNA),
                pseed=rng.randrange(1 << 30), scoped=None, bins=None, block="allcols")


CORPUS = [
    # fixed, hand-written: star tree (one polytomy), gaps + ambiguity + identical columns, unequal base frequencies
    dict(model="HKY85", moltype="dna", tree="(a:0.1,b:0.2,c:0.3,d:0.4);",
         aln=[["a", "ACGTNN-AACA"], ["b", "ACGTRYTAACA"], ["c", "ACGTAC-AACA"], ["d", "ACATAC?AACA"]],
         mprobs={"A": 0.1, "C": 0.2, "G": 0.3, "T": 0.4}, pseed=11, scoped=None, bins=None, block="corpus"),
    dict(model="GTR", moltype="dna", tree="((a:0.1,b:0.2,c:0.3)x:0.05,d:0.4,(e:0.2,f:0.1)y:0.3);",
         aln=[["f", "ACGTNN-AAC"], ["b", "ACGTRYTAAC"], ["c", "ACGTAC-AAC"], ["d", "ACATAC?AAC"], ["e", "GCATACTAAC"],
              ["a", "ACGTACTAAC"]],
         mprobs={"A": 0.1, "C": 0.2, "G": 0.3, "T": 0.4}, pseed=12, scoped={"edges": ["a", "x"]}, bins=None, block="corpus"),
    dict(model="F81", moltype="dna", tree="((a:0.5,b:0.25)x:0.125,(c:1.0,d:0.0625)y:0.3);",
         aln=[["a", "AAAAC"], ["b", "AAAAC"], ["c", "AAGAC"], ["d", "AAGAT"]],
         mprobs={"A": 0.7, "C": 0.1, "G": 0.1, "T": 0.1}, pseed=13, scoped=None, bins={"n": 3, "shape": 0.5}, block="corpus"),
]


# ------------------------------------------------------------------ exact arithmetic on the implementation's numbers

def dy_exp(x: float) -> int:
    if x != x or x in (float("inf"), float("-inf")):
        raise ValueError("non-finite")
    return x.as_integer_ratio()[1].bit_length() - 1


def scale_int(x: float, K: int) -> int:
    n, d = x.as_integer_ratio()
    return n * ((1 << K) // d)


def all_floats(obs):
    for b in obs["psubs"]:
        for m in b.values():
            for row in m:
                yield from row
    yield from obs["pi"]
    yield from obs["bprobs"]


def exact_inputs(obs):
    """scale every float by the same 2^K; returns K, psubs(ints), pi, bprobs"""
    K = max(dy_exp(x) for x in all_floats(obs))
    ps = [{e: [[scale_int(x, K) for x in row] for row in m] for e, m in b.items()} for b in obs["psubs"]]
    pi = [scale_int(x, K) for x in obs["pi"]]
    bp = [scale_int(x, K) for x in obs["bprobs"]]
    return K, ps, pi, bp


def n_edges(t):
    return sum(1 + n_edges(c) for c in t[1])


def lik_scale_bits(obs, K):
    return K * (n_edges(obs["tree"]) + 1 + (1 if len(obs["psubs"]) > 1 else 0))


def int_ratio_to_float(num: int, bits: int) -> float:
    """num / 2^bits as a float, correctly for huge ints"""
    if num == 0:
        return 0.0
    from fractions import Fraction

    return float(Fraction(num, 1 << bits))


# ------------------------------------------------------------------ the specification oracle (plain Python)

def columns_of(case, mlen):
    rows = [s for _, s in case["aln"]]
    L = min(len(s) for s in rows) // mlen
    return [tuple(s[i * mlen:(i + 1) * mlen] for s in rows) for i in range(L)]


def brute_column(tree, P, pi, leafsets, n, limit=70000):
    """sum over all assignments of a state to every internal node of
    pi[root] * prod_{edges} P_e[parent][child]; a leaf contributes the sum over its compatible set.
    Returns None when the enumeration would be too large."""
    internal = []
    edges = []

    def walk(t):
        internal.append(t[0])
        for c in t[1]:
            edges.append((t[0], c[0], bool(c[1])))
            if c[1]:
                walk(c)

    walk(tree)
    if n ** len(internal) > limit:
        return None
    leafterm = {}
    for p, c, isint in edges:
        if not isint:
            leafterm[c] = [sum(P[c][i][s] for s in leafsets[c]) for i in range(n)]
    pos = {nm: k for k, nm in enumerate(internal)}
    total = 0
    for asg in itertools.product(range(n), repeat=len(internal)):
        w = pi[asg[0]]
        for p, c, isint in edges:
            if w == 0:
                break
            if isint:
                w *= P[c][asg[pos[p]]][asg[pos[c]]]
            else:
                w *= leafterm[c][asg[pos[p]]]
        total += w
    return total


def prune_column(tree, P, pi, leafsets, n):
    """independent exact pruning (used only where the brute-force enumeration is infeasible: 20/61 states)"""
    def part(t):
        if not t[1]:
            s = leafsets[t[0]]
            return [1 if i in s else 0 for i in range(n)]
        res = [1] * n
        for c in t[1]:
            pc = part(c)
            M = P[c[0]]
            nz = [j for j in range(n) if pc[j]]
            res = [res[i] * sum(M[i][j] * pc[j] for j in nz) for i in range(n)]
        return res

    v = part(tree)
    return sum(a * b for a, b in zip(v, pi))


def oracle_columns(case, obs, exact, perbin=None):
    """exact (scaled-integer) likelihood of every alignment position by the first-principles sum;
    returns (list of ints or None where the specification does not apply, method)"""
    K, ps, pi, bp = exact
    alphabet = obs["alphabet"]
    n = len(alphabet)
    names = [nm for nm, _ in case["aln"]]
    cols = columns_of(case, obs["mlen"])
    cache = {}
    method = "brute"
    out = []
    for col in cols:
        if col in cache:
            out.append(cache[col])
            continue
        sets = {}
        ok = True
        for nm, motif in zip(names, col):
            s = spec_leaf_set(motif, alphabet, case["moltype"])
            if s is None:
                ok = False
            sets[nm] = s
        if not ok:
            cache[col] = None
            out.append(None)
            continue
        vals = []
        for P in ps:
            v = brute_column(obs["tree"], P, pi, sets, n)
            if v is None:
                method = "prune"
                v = prune_column(obs["tree"], P, pi, sets, n)
            vals.append(v)
        tot = vals[0] if len(ps) == 1 else sum(b * v for b, v in zip(bp, vals))
        cache[col] = tot
        out.append(tot)
        if perbin is not None:
            perbin[col] = vals
    return out, method


# published definitions of the named reversible nucleotide models

TRANSITIONS = {frozenset("AG"), frozenset("CT")}


def published_Q(model, alphabet, pi, par):
    """calibrated rate matrix: q_ij = s_ij * pi_j, rows sum to 0, -sum_i pi_i q_ii = 1"""
    import numpy

    n = 4
    Q = numpy.zeros((n, n))
    for i, a in enumerate(alphabet):
        for j, b in enumerate(alphabet):
            if i == j:
                continue
            pair = frozenset((a, b))
            if model in ("JC69", "F81"):
                s = 1.0
            elif model in ("K80", "HKY85"):
                s = par["kappa"] if pair in TRANSITIONS else 1.0
            elif model == "TN93":
                s = par["kappa_y"] if pair == frozenset("CT") else par["kappa_r"] if pair == frozenset("AG") else 1.0
            elif model == "GTR":
                key = "/".join(sorted((a, b)))
                s = par.get(key, 1.0)  # G/T is the reference exchangeability
            else:
                raise KeyError(model)
            Q[i, j] = s * pi[j]
    for i in range(n):
        Q[i, i] = -Q[i].sum()
    scale = -sum(pi[i] * Q[i, i] for i in range(n))
    return Q / scale


def published_rates(bins):
    """discrete gamma of Yang (1994), median variant, derived here from (shape, bin probabilities) alone: n
    categories of Gamma(shape a, mean 1) with probabilities bprobs (equal by default), each represented by the
    median of its quantile interval, rescaled so that the weighted mean rate is 1"""
    from scipy.stats import gamma

    n, a = bins["n"], bins["shape"]
    w = list(bins.get("bprobs") or [1.0 / n] * n)
    # category k covers the quantile interval (sum w[:k], sum w[:k+1]); it is represented by the median of that
    # interval; the rates are rescaled so that their bprob-weighted mean is 1
    lo = 0.0
    med = []
    for x in w:
        med.append(float(gamma.ppf(lo + x / 2.0, a, scale=1.0 / a)))
        lo += x
    m = sum(r * x for r, x in zip(med, w))
    return [r / m for r in med]


CODON_TUPLE = {"Y98", "GY94"}      # q_ij = pi_j(codon) * kappa^[transition] * omega^[non-synonymous], single-nucleotide changes only
CODON_MONOMER = {"MG94HKY"}        # q_ij = pi(target nucleotide) * kappa^[ts] * omega^[non-syn]   (Muse & Gaut 1994)


def published_kind(case, obs):
    """which published definition applies: 'nuc' | 'codon-tuple' | 'codon-monomer' | None"""
    b = case.get("build")
    if b:
        if b["kind"] == "codon" and b.get("predicates") == "kappa+omega" and obs.get("mprob_model") in ("tuple", "monomer"):
            return "codon-" + obs["mprob_model"]
        if b["kind"] in ("nuc", "dinuc", "trinuc") and b.get("predicates") == "kappa" and obs.get("mprob_model") == "tuple":
            return "word-tuple"
        return None
    m = case["model"]
    if m in NUC_REV:
        return "nuc"
    if m in CODON_TUPLE:
        return "codon-tuple"
    if m in CODON_MONOMER:
        return "codon-monomer"
    return None


def published_codon_Q(kind, alphabet, pi, nuc_pi, par, gc):
    """calibrated codon rate matrix from the published definition and the chosen genetic code"""
    import numpy

    aa = translation(gc)
    n = len(alphabet)
    Q = numpy.zeros((n, n))
    for i, a in enumerate(alphabet):
        for j, b in enumerate(alphabet):
            diff = [k for k in range(3) if a[k] != b[k]]
            if len(diff) != 1:
                continue
            k = diff[0]
            r = nuc_pi[b[k]] if kind == "codon-monomer" else pi[j]
            if frozenset((a[k], b[k])) in TRANSITIONS:
                r *= par["kappa"]
            if aa[a] != aa[b]:
                r *= par["omega"]
            Q[i, j] = r
    for i in range(n):
        Q[i, i] = -Q[i].sum()
    scale = -sum(pi[i] * Q[i, i] for i in range(n))
    return Q / scale


def one_indel(x, y):
    """x and y differ by exactly one insertion/deletion event and nothing else: the differing positions form ONE
    contiguous run, and at every one of them the gap is on the same side"""
    diff = [k for k in range(len(x)) if x[k] != y[k]]
    if not diff or diff != list(range(diff[0], diff[-1] + 1)):
        return False
    return all(x[k] == "-" for k in diff) or all(y[k] == "-" for k in diff)


def published_word_Q(alphabet, pi, par):
    """word (1 / 2 / 3 nucleotides, optionally with the gap as a fifth state) model with tuple probabilities:
    x -> y is instantaneous iff the two words differ at exactly one position, or (gap models) by exactly one
    contiguous indel; rate = pi_y, times kappa when the single changed position is a transition"""
    import numpy

    n = len(alphabet)
    Q = numpy.zeros((n, n))
    for i, a in enumerate(alphabet):
        for j, b in enumerate(alphabet):
            if i == j:
                continue
            diff = [k for k in range(len(a)) if a[k] != b[k]]
            if len(diff) == 1:
                r = pi[j] * (par["kappa"] if frozenset((a[diff[0]], b[diff[0]])) in TRANSITIONS else 1.0)
            elif one_indel(a, b):
                r = pi[j]
            else:
                continue
            Q[i, j] = r
    for i in range(n):
        Q[i, i] = -Q[i].sum()
    return Q / -sum(pi[i] * Q[i, i] for i in range(n))


def edge_params(case, obs, e, scope):
    par = {}
    for p, spec in obs["params"].items():
        v = spec["value"]
        if spec.get("scoped") and scope is not None and e in scope:
            v = spec["scoped"]["value"]
        par[p] = v
    return par


def published_psubs(case, obs):
    """P_e = expm(Q_e * t_e [* rate_b]) per bin, from the published definition (per-edge parameter values from the
    scope the oracle derives from the tree); None if the model is not covered"""
    import numpy
    from scipy.linalg import expm

    kind = published_kind(case, obs)
    if kind is None:
        return None
    model = case["model"]
    pi = obs["pi"]
    if model in EQUAL_FREQ:
        pi = [0.25] * 4
    nuc_pi = None
    if kind == "codon-monomer":
        nuc_pi = dict(zip(obs["mprob_alphabet"], obs["mprobs_param"]))
    scope = scope_edges(case)
    rates = published_rates(case["bins"]) if case.get("bins") else [1.0]
    want_len = newick_lengths(case["tree"])
    out = []
    cache = {}
    for r in rates:
        d = {}
        for e in obs["lengths_used"]:
            t = want_len.get(e, obs["lengths_used"][e])
            par = edge_params(case, obs, e, scope)
            k = tuple(sorted(par.items()))
            if k not in cache:
                cache[k] = (published_Q(model, obs["alphabet"], pi, par) if kind == "nuc"
                            else published_word_Q(obs["alphabet"], pi, par) if kind == "word-tuple"
                            else published_codon_Q(kind, obs["alphabet"], pi, nuc_pi, par, case.get("gc")))
            d[e] = expm(cache[k] * (t * r))
        out.append(d)
    return out


def float_lnL(case, obs, psubs, pi, bprobs):
    """lnL by float pruning with the given matrices (only used with the published-definition matrices)"""
    alphabet = obs["alphabet"]
    n = len(alphabet)
    names = [nm for nm, _ in case["aln"]]
    tot = 0.0
    for col in columns_of(case, obs["mlen"]):
        sets = {nm: spec_leaf_set(m, alphabet, case["moltype"]) for nm, m in zip(names, col)}
        if any(s is None for s in sets.values()):
            return None
        vals = [prune_column(obs["tree"], {e: m.tolist() for e, m in P.items()}, pi, sets, n) for P in psubs]
        v = vals[0] if len(vals) == 1 else sum(b * x for b, x in zip(bprobs, vals))
        if v <= 0:
            return None
        tot += math.log(v)
    return tot


# ------------------------------------------------------------------ rendering for Coq

def name_ids(obs):
    ids = {}

    def walk(t):
        ids.setdefault(t[0], len(ids) + 1)
        for c in t[1]:
            walk(c)

    walk(obs["tree"])
    return ids


def coq_str(s):
    return "[" + ";".join(str(ord(c)) for c in s) + "]"


def coq_tree(t, ids):
    if not t[1]:
        return f"Leaf {ids[t[0]]}"
    return "Node [" + ";".join(f"({ids[c[0]]}, {coq_tree(c, ids)})" for c in t[1]) + "]"


def coq_mat(m):
    return "[" + ";".join("[" + ";".join(zlit(x) for x in row) + "]" for row in m) + "]"


def coq_case(case, obs, exact, tree=None):
    K, ps, pi, bp = exact
    ids = name_ids(obs)
    amb = "[" + ";".join(f"({ord(k)},{coq_str(''.join(v))})" for k, v in sorted(obs["amb"].items())) + "]"
    gaps = "[" + ";".join(str(ord(g)) for g in obs["gaps"]) + "]"
    psubs = "[" + ";".join("[" + ";".join(f"({ids[e]},{coq_mat(m)})" for e, m in b.items()) + "]" for b in ps) + "]"
    aln = "[" + ";".join(f"({ids[nm]},{coq_str(s)})" for nm, s in case["aln"]) + "]"
    return (f"(mkcase {obs['mlen']}%nat [{';'.join(coq_str(a) for a in obs['alphabet'])}] {amb} {gaps} {ord(obs['recode_to'])} "
            f"({coq_tree(tree or obs['tree'], ids)}) {psubs} [{';'.join(zlit(x) for x in bp)}] [{';'.join(zlit(x) for x in pi)}] {aln})")


def unbig(v):
    """sign + little-endian base-2^32 limbs (LikRun.vbig) -> int"""
    sign, limbs = v[0], v[1:]
    z = 0
    for k, l in enumerate(limbs):
        z += l << (32 * k)
    return sign * z


def decode_model(r):
    if isinstance(r, Exc) or r is None:
        return r
    return [r[0], r[1], [unbig(x) for x in r[2]]]


def run_model(prop, cases, obss, exacts):
    terms = [coq_case(c, o, e) for c, o, e in zip(cases, obss, exacts)]
    big = [i for i, o in enumerate(obss) if len(o["alphabet"]) > 4]
    small = [i for i in range(len(terms)) if i not in set(big)]
    res = [None] * len(terms)
    imports = ["Lib.LikTree", "Model.Lik", "Model.LikRun"]
    if small:
        out = core.coq_eval(prop, imports, "run_case", [terms[i] for i in small], "case", shard=12, tag="s")
        for i, r in zip(small, out):
            res[i] = decode_model(r)
    if big:
        out = core.coq_eval(prop, imports, "run_case", [terms[i] for i in big], "case", shard=2, tag="b")
        for i, r in zip(big, out):
            res[i] = decode_model(r)
    return res


# ------------------------------------------------------------------ the check

def parse_newick(s):
    """newick with names -> [name, [children]] (root is called 'root'); the oracle's own reading of the tree"""
    pos = [0]
    s = s.strip().rstrip(";")

    def node():
        ch = []
        if s[pos[0]] == "(":
            pos[0] += 1
            while True:
                ch.append(node())
                if s[pos[0]] == ",":
                    pos[0] += 1
                    continue
                assert s[pos[0]] == ")"
                pos[0] += 1
                break
        j = pos[0]
        while j < len(s) and s[j] not in ",()":
            j += 1
        label = s[pos[0]:j]
        pos[0] = j
        return [label.split(":")[0], ch]

    t = node()
    t[0] = t[0] or "root"
    return t


def subtree_names(t):
    out = []
    for c in t[1]:
        out.append(c[0])
        out += subtree_names(c)
    return out


def scope_edges(case):
    """the set of edges a scoped parameter applies to, computed from the tree itself.
    edges=[...]: those edges.  tip_names=[x, y] (+ stem / clade): with M the most recent common ancestor of x and
    y, `stem` is the edge above M, `clade` all edges below M; stem defaults to False and clade to `not stem`.
    An outgroup outside the clade of M does not change either set."""
    sc = case.get("scoped")
    if not sc:
        return None
    if "edges" in sc:
        return set(sc["edges"])
    t = parse_newick(case["tree"])
    x, y = sc["tip_names"]

    def mrca(n):
        below = set(subtree_names(n)) | {n[0]}
        if x not in below or y not in below:
            return None
        for c in n[1]:
            m = mrca(c)
            if m is not None:
                return m
        return n

    m = mrca(t)
    stem = bool(sc.get("stem")) if sc.get("stem") is not None else False
    clade = bool(sc.get("clade")) if sc.get("clade") is not None else (not stem)
    out = set()
    if stem:
        out.add(m[0])
    if clade:
        out |= set(subtree_names(m))
    return out


def newick_lengths(s):
    """edge name -> length, for every named node of a newick string"""
    import re

    return {m.group(1): float(m.group(2)) for m in re.finditer(r"([A-Za-z0-9_.]+):([0-9.eE+-]+)", s)}


def param_checks(case, obs):
    """the likelihood function must work at the values it was given: every edge length of the tree survives
    make_likelihood_function, the root probabilities are a probability vector"""
    want = newick_lengths(case["tree"])
    for e, t in (obs.get("lengths") or {}).items():
        if e in want and (t is None or abs(t - want[e]) > 1e-12 * max(abs(want[e]), 1e-300)):
            return "edge-length", dict(edge=e, expected_by_spec=want[e], observed_impl=t,
                                       broken="the length parameter of an edge is not the branch length of the tree")
    scope = scope_edges(case)
    for p, by_edge in (obs.get("param_by_edge") or {}).items():
        spec = (obs.get("params") or {}).get(p)
        if not by_edge or not spec:
            continue
        for e, v in by_edge.items():
            exp = spec["scoped"]["value"] if spec.get("scoped") and scope is not None and e in scope else spec["value"]
            if abs(v - exp) > 1e-12:
                return "scope", dict(param=p, edge=e, expected_by_spec=exp, observed_impl=v, scope=sorted(scope or []),
                                     broken="a parameter has the wrong value on an edge: the scope (edges= / tip_names + stem / clade) "
                                            "was not applied to exactly the edges it names")
    pi = obs.get("pi")
    if case.get("from_align") and pi is not None and len(pi) == 4 and obs.get("alphabet"):
        # motif probabilities taken from the alignment (constant): the composition of the unambiguous symbols,
        # whatever pseudocount was passed (a pseudocount is for free motif probabilities with zero counts)
        cnt = {a: 0 for a in obs["alphabet"]}
        for _, seq in case["aln"]:
            for ch in seq:
                if ch in cnt:
                    cnt[ch] += 1
        tot = sum(cnt.values())
        if tot and min(cnt.values()) > 0:
            want_pi = [cnt[a] / tot for a in obs["alphabet"]]
            if max(abs(x - y) for x, y in zip(want_pi, pi)) > 1e-12:
                return "mprobs-from-align", dict(expected_by_spec=want_pi, observed_impl=pi,
                                                 broken="motif probabilities from the alignment are not the composition of the alignment")
    if pi is not None and (abs(math.fsum(pi) - 1) > 1e-9 or min(pi) < 0):
        return "root-probs-sum", dict(expected_by_spec=1.0, observed_impl=math.fsum(pi),
                                      broken="root (word) probabilities do not sum to 1")
    return None


def shape_key(case):
    k = case_class(case)
    if case.get("bins"):
        k += "+bins"
    if case.get("scoped"):
        k += "+scoped"
    if case.get("solved"):
        k += "+solved"
    return k


def close(a, b, rel):
    return abs(a - b) <= rel * max(abs(a), abs(b), 1e-300)


def check_case(rep, case, obs, model_out, disagreements, stats):
    """all comparisons for one configuration"""
    key = shape_key(case)
    small = dict(case)
    if isinstance(obs, dict) and "exc" in obs:
        rep.violation(f"raised:{key}", dict(case=small, observed_impl=obs,
                                             broken="a valid configuration made the implementation raise or hang"))
        return
    try:
        exact = exact_inputs(obs)
    except ValueError:
        rep.violation(f"non-finite:{key}", dict(case=small, broken="non-finite P / motif probability"))
        return
    K = exact[0]
    bits = lik_scale_bits(obs, K)
    hmm = (case.get("bins") or {}).get("hmm")
    perbin = {} if hmm else None
    orc, method = oracle_columns(case, obs, exact, perbin)
    stats["method"][method] = stats["method"].get(method, 0) + 1
    if hmm:
        bad = param_checks(case, obs)
        if bad:
            rep.violation(f"{bad[0]}:solved-model" if case.get("solved") and bad[0] == "edge-length" else f"{bad[0]}:{key}",
                          dict(case=small, **bad[1]))
            return
        check_hmm(rep, case, obs, exact, orc, perbin, key, stats)
        return
    site = obs["site_liks"]
    # (1) per-position likelihood: implementation vs first-principles sum on the implementation's own matrices
    if len(site) != len(orc):
        rep.violation(f"site-count:{key}", dict(case=small, expected_by_spec=len(orc), observed_impl=len(site),
                                                 broken="number of alignment positions"))
        return
    applicable = all(o is not None for o in orc)
    lnl_spec = 0.0
    for p, (o, s) in enumerate(zip(orc, site)):
        if o is None:
            continue
        of = int_ratio_to_float(o, bits)
        stats["columns"] += 1
        lnl_spec += math.log(of) if of > 0 else float("-inf")
        if not close(of, s, REL_TOL):
            rep.violation(f"column-lik:{key}", dict(case=small, position=p, expected_by_spec=of, observed_impl=s,
                                                     model_output=None, oracle=method,
                                                     broken="pruning_eq_bruteforce / per-column likelihood differs from the sum over assignments"))
            return
    # (2) lnL = sum of logs
    if applicable:
        if lnl_spec != obs["lnL"] and not abs(lnl_spec - obs["lnL"]) <= LNL_TOL * max(1.0, abs(lnl_spec)):
            rep.violation(f"lnL:{key}", dict(case=small, expected_by_spec=lnl_spec, observed_impl=obs["lnL"],
                                             broken="compress_sum / lnL differs from the sum over positions of log column likelihood"))
            return
    # (2b) the parameter values the likelihood function actually uses
    bad = param_checks(case, obs)
    if bad:
        kind, doc = bad
        # closed-form ("solved") models get one stable key whatever the other options of the configuration
        rep.violation(f"{kind}:solved-model" if case.get("solved") and kind == "edge-length" else f"{kind}:{key}", dict(case=small, **doc))
        return
    if case.get("bins"):
        m = sum(b * r for b, r in zip(obs["bprobs"], obs["rates"]))
        pr_ = published_rates(case["bins"])
        if (abs(m - 1) > 1e-9 or abs(sum(obs["bprobs"]) - 1) > 1e-12 or len(pr_) != len(obs["rates"])
                or max(abs(x - y) for x, y in zip(pr_, obs["rates"])) > 1e-7
                or max(abs(b - w_) for b, w_ in zip(obs["bprobs"], case["bins"].get("bprobs") or [1.0 / len(pr_)] * len(pr_))) > 1e-12):
            rep.violation(f"bin-rates:{key}", dict(case=small, observed_impl=dict(rates=obs["rates"], bprobs=obs["bprobs"]),
                                                   expected_by_spec=dict(rates=pr_),
                                                   broken="bin probabilities / rates differ from the discrete gamma derived from (shape, bprobs): medians of the quantile bins, weighted mean 1"))
            return
    # (3) published definition of the model
    pub = published_psubs(case, obs)
    if pub is not None:
        stats["published"] += 1
        import numpy

        worst = 0.0
        for b, d in enumerate(pub):
            for e, M in d.items():
                worst = max(worst, float(numpy.abs(M - numpy.array(obs["psubs"][b][e])).max()))
        pi_pub = [0.25] * 4 if case["model"] in EQUAL_FREQ else obs["pi"]
        if case.get("mprobs"):
            want = [case["mprobs"][a] for a in obs["alphabet"]]
            if max(abs(x - y) for x, y in zip(want, obs["pi"])) > 1e-12:
                rep.violation(f"root-probs:{key}", dict(case=small, expected_by_spec=want, observed_impl=obs["pi"],
                                                         broken="root probabilities are not the motif probabilities that were set"))
                return
        if worst > P_TOL:
            rep.violation(f"published-P:{case['model'] if not case.get('build') else case_class(case)}" + ("+bins" if case.get("bins") else "")
                          + ("+scoped" if case.get("scoped") else "") + ("+solved" if case.get("solved") else ""),
                          dict(case=small, expected_by_spec="expm(Q t) with Q from the published definition", max_abs_diff=worst,
                               params=obs["params"], broken="P differs from exp(Q t) of the published rate matrix"))
            return
        if applicable:
            l2 = float_lnL(case, obs, pub, pi_pub, obs["bprobs"])
            # expm is accurate to ~1e-15 ABSOLUTE per entry of P: a position whose likelihood is itself tiny carries no
            # relative accuracy (conditioning, not a defect) -- same slack as for re-rooting / edge splits in C11
            slack = sum(1e-12 / max(x, 1e-300) for x in site)
            if l2 is not None and abs(l2 - obs["lnL"]) > PUB_LNL_TOL * max(1.0, abs(l2)) + slack:
                rep.violation(f"published-lnL:{key}", dict(case=small, expected_by_spec=l2, observed_impl=obs["lnL"],
                                                           broken="lnL differs from the value computed from the published definition"))
                return
    # (4) all possible columns
    if case.get("block") == "allcols":
        s = math.fsum(site)
        stats["allcols"] += 1
        if abs(s - 1) > 1e-9:
            rep.violation(f"allcols-sum:{key}", dict(case=small, expected_by_spec=1.0, observed_impl=s,
                                                     broken="columns_sum_to_one: likelihoods of all possible columns do not sum to 1"))
            return
    # (5) model vs implementation / oracle
    if model_out is None:
        return
    if isinstance(model_out, Exc):
        if applicable:
            disagreements.append(dict(key=f"model-raises:{key}", case=small, model_output=repr(model_out)))
        return
    m_index, m_counts, m_liks = model_out
    if m_index != obs["root_index"] or m_counts != obs["root_counts"]:
        disagreements.append(dict(key=f"compression:{key}", case=small, observed_impl=[obs["root_index"], obs["root_counts"]],
                                  model_output=[m_index, m_counts]))
        return
    for p, o in enumerate(orc):
        if o is not None and m_liks[m_index[p]] != o:
            disagreements.append(dict(key=f"model-vs-sum:{key}", case=small, position=p, expected_by_spec=str(o),
                                      model_output=str(m_liks[m_index[p]])))
            return
    lh = obs["lh_uniq"]
    if len(lh) == 1:
        for u, x in enumerate(lh[0]):
            if not close(int_ratio_to_float(m_liks[u], bits), x, REL_TOL):
                disagreements.append(dict(key=f"model-vs-impl-lh:{key}", case=small, unique_column=u, observed_impl=x,
                                          model_output=int_ratio_to_float(m_liks[u], bits)))
                return
    stats["model_ok"] += 1


def check_hmm(rep, case, obs, exact, orc, perbin, key, stats):
    """patch-HMM (sites_independent=False): the bins are allocated to two patches (first half / second half); a
    two-state Markov chain over patches with stationary probabilities pp (the patch sums of bprobs) and
    T[i][j] = pp[j]*switch (i != j) runs along the alignment; the emission of a patch at a position is the
    within-patch bprob-weighted mixture of the per-bin column likelihoods.  lnL = log of the forward-algorithm sum
    over all patch paths.  Per-bin column likelihoods are the exact sum-product values."""
    small = dict(case)
    if any(o is None for o in orc):
        return
    K = exact[0]
    bits1 = K * (n_edges(obs["tree"]) + 1)
    cols = columns_of(case, obs["mlen"])
    nb = len(obs["psubs"])
    # per-bin, per-unique-column values of the implementation vs the exact sum
    idx = obs["root_index"]
    for p, col in enumerate(cols):
        for b in range(nb):
            want = int_ratio_to_float(perbin[col][b], bits1)
            got = obs["lh_uniq"][b][idx[p]]
            if not close(want, got, REL_TOL):
                rep.violation(f"column-lik:{key}", dict(case=small, position=p, bin=b, expected_by_spec=want, observed_impl=got,
                                                         broken="per-bin column likelihood differs from the sum over assignments"))
                return
    bprobs = obs["bprobs"]
    half = nb // 2
    alloc = [0] * half + [1] * (nb - half)
    pp = [sum(x for a, x in zip(alloc, bprobs) if a == k) for k in (0, 1)]
    s_ = case["bins"]["hmm"]["switch"]
    T = [[1 - (1 - pp[0]) * s_, pp[1] * s_], [pp[0] * s_, 1 - (1 - pp[1]) * s_]]
    ll = 0.0
    al = None
    for col in cols:
        e = [0.0, 0.0]
        for a, w, v in zip(alloc, bprobs, perbin[col]):
            e[a] += (w / pp[a]) * int_ratio_to_float(v, bits1)
        if al is None:
            al = [pp[0] * e[0], pp[1] * e[1]]
        else:
            al = [(al[0] * T[0][0] + al[1] * T[1][0]) * e[0], (al[0] * T[0][1] + al[1] * T[1][1]) * e[1]]
        c = al[0] + al[1]
        if c <= 0:
            return
        ll += math.log(c)
        al = [al[0] / c, al[1] / c]
    stats["hmm"] = stats.get("hmm", 0) + 1
    stats["columns"] += len(cols)
    if not abs(ll - obs["lnL"]) <= LNL_TOL * max(1.0, abs(ll)):
        rep.violation("hmm-lnL:" + ("equal-patches" if abs(pp[0] - pp[1]) < 1e-12 else "unequal-patches"),
                      dict(case=small, expected_by_spec=ll, observed_impl=obs["lnL"], patch_probs=pp,
                           broken="lnL of the patch-HMM (sites_independent=False) differs from the forward-algorithm sum over patch paths"))


def nontrivial(case, obs):
    if not isinstance(obs, dict) or "exc" in obs:
        return False
    cols = columns_of(case, obs["mlen"])
    return bool(len(set(cols)) >= 2 and any(c not in "ACGT" + AA for s in cols for m in s for c in m) or len(set(cols)) < len(cols))


def build_cases(rng, tier):
    quick = tier == "quick"
    n_random = 36 if quick else 2000
    n_built = 14 if quick else 400
    cases = [dict(c) for c in CORPUS]
    for k, m in enumerate(NUC_REV + NUC_NONREV if not quick else ["JC69", "HKY85", "GTR", "GN"]):
        cases.append(allcols_case(rng, 3 + (k % 2), m))
    # all possible columns for directly built word models (root probabilities from monomers / conditional / ...)
    for mp in (["monomers", "conditional"] if quick else MPROB_MODELS):
        cases.append(allcols_built_case(rng, "codon", mp))
    for mp in (["monomers", "monomer"] if quick else MPROB_MODELS + ["monomers"]):
        cases.append(allcols_built_case(rng, "dinuc", mp))
    # one of each (kind x motif-prob model) first, then random ones
    for kind in ("codon", "dinuc"):
        for mp in MPROB_MODELS:
            cases.append(built_case(rng, tier, kind, mp))
    cases += [built_case(rng, tier) for _ in range(n_built)]
    # gap-as-a-state models (nucleotide, dinucleotide, trinucleotide) and gap-free trinucleotide models
    for rnd in range(1 if quick else 15):
        for kind in ("nuc", "dinuc", "trinuc"):
            cases.append(built_case(rng, tier, kind, "tuple", gaps=True))
        cases.append(built_case(rng, tier, "trinuc", MPROB_MODELS[rnd % 4], gaps=False))
    # every stem / clade combination of a tip_names scope (with and without an outgroup by chance), on trees that
    # have internal nodes, over models with and without a published-definition oracle
    scope_models = [["HKY85"], ["GTR"], ["GN"], ["TN93"], ["GY94"], ["F81"], ["MG94HKY"]]
    for rnd in range(1 if quick else 12):
        for k, o in enumerate(SCOPE_OPTS):
            cases.append(random_case(rng, tier, models=scope_models[(k + rnd) % len(scope_models)], min_tips=5, scope_opts=dict(o)))
    cases += [random_case(rng, tier) for _ in range(n_random)]
    return cases


DIMS = dict(alphabet=["nuc", "dinuc", "trinuc", "codon", "protein"], recode_gaps=["recode", "norecode"],
            mprob_model=["tuple", "monomer", "monomers", "conditional"], bins=["nobins", "equal", "unequal", "hmm-equal", "hmm-unequal"],
            origin=["named", "built"], lengths=["normal", "tiny"])


def dist_cell(case, obs):
    bins = case.get("bins")
    lens = newick_lengths(case["tree"]).values()
    return (case_kind(case), "recode" if obs.get("recode_gaps") else "norecode", obs.get("mprob_model", "?"),
            "nobins" if not bins else ("hmm-" if bins.get("hmm") else "") + ("unequal" if bins.get("bprobs") else "equal"),
            "built" if case.get("build") or case["model"].startswith(("DINUC:", "USER")) else "named",
            "tiny" if any(0 < t <= TINY for t in lens) else "normal")


def distribution_matrix(pairs):
    """counts over alphabet kind x recode_gaps x mprob_model x bins/bprobs x model origin x edge-length class;
    `cells` lists the non-empty cells, `empty_cells` the empty ones that are constructible (protein and named
    nucleotide models only exist with the tuple motif-prob model; named models are never 'monomers'),
    `marginals` the per-dimension and pairwise counts"""
    cells = {}
    for case, obs in pairs:
        if isinstance(obs, dict) and "exc" not in obs and "refused" not in obs:
            c = dist_cell(case, obs)
            cells[c] = cells.get(c, 0) + 1
    names = list(DIMS)
    marg = {d: {v: 0 for v in DIMS[d]} for d in names}
    pair = {}
    for c, n in cells.items():
        for d, v in zip(names, c):
            marg[d][v] = marg[d].get(v, 0) + n
        for i in range(len(names)):
            for j in range(i + 1, len(names)):
                k = f"{names[i]} x {names[j]}"
                pair.setdefault(k, {})
                kk = f"{c[i]}|{c[j]}"
                pair[k][kk] = pair[k].get(kk, 0) + n
    def feasible(c):
        a, r, m, b, o, l = c
        if a == "protein":
            return m == "tuple" and o == "named"
        if a == "nuc":
            return m == "tuple" or (m == "conditional" and o == "named")
        if a in ("dinuc", "trinuc"):
            return o == "built"
        if o == "named":
            return m != "monomers"
        return True
    empty = ["/".join(c) for c in itertools.product(*[DIMS[d] for d in names]) if c not in cells and feasible(c)]
    empty_pairs = {}
    for i in range(len(names)):
        for j in range(i + 1, len(names)):
            k = f"{names[i]} x {names[j]}"
            miss = [f"{a}|{b}" for a in DIMS[names[i]] for b in DIMS[names[j]] if f"{a}|{b}" not in pair.get(k, {})]
            if miss:
                empty_pairs[k] = miss
    return dict(dimensions=names, cells={"/".join(c): n for c, n in sorted(cells.items())}, n_nonempty=len(cells),
                empty_cells=empty, n_empty_feasible=len(empty), marginals=marg, pairwise=pair, empty_pairwise=empty_pairs)


def run(tier: str, seed: int) -> int:
    rep = core.Report(PROP, tier, seed)
    rng = random.Random(seed * 1000003 + 2)
    pr = core.proof_stage(PROP, COQ_TARGETS)
    core.proof_coverage(rep, pr, "make theories/Properties/C02.vo && coqc gen/assum_C02.v (Print Assumptions)", [
        "the theorems are about an abstract commutative semiring; IEEE-754 rounding of the implementation is outside them "
        "(correspondence tolerance rel 1e-9 per column, 1e-8 on lnL)",
        "the executed model instance is Z (laws proved: Z_laws); the implementation's floats are scaled to integers by a common "
        "power of two in the harness and the result is divided by 2^(K*(edges+1[+1])) in the harness (homogeneity argument, not proved in Coq)",
        "log is an uninterpreted function into a commutative monoid in the theorems; lnL is recomposed with math.log in the harness",
        "expm/eigen-decomposition (P from Q) is not modelled: P is read from the implementation and, for JC69/F81/K80/HKY85/TN93/GTR, "
        "compared with scipy.linalg.expm of the published rate matrix",
        "numba compilation of the kernels, numpy.inner",
    ])
    rep.assumptions += ["degenerate symbols are read with the IUPAC tables hard-coded in the oracle; a motif whose compatible "
                        "set is empty within the model's alphabet is outside the specification"]
    proof_broken = bool(pr["problems"])
    cases = build_cases(rng, tier)
    impl = core.run_impl_sharded("c02_impl.py", cases, nshards=min(core.NPROC, 6))
    ok_idx = [i for i, o in enumerate(impl) if isinstance(o, dict) and "exc" not in o]
    model_out = [None] * len(cases)
    try:
        exacts = {}
        for i in ok_idx:
            try:
                exacts[i] = exact_inputs(impl[i])
            except ValueError:
                pass
        idx = sorted(exacts)
        # 20/61-state cases are expensive as Coq literals: the model is evaluated on a bounded number of them
        # (the others are still compared implementation-vs-oracle)
        big_budget = 4 if tier == "quick" else 100
        keep = []
        for i in idx:
            if cases[i].get("no_model"):
                continue
            if len(impl[i]["alphabet"]) > 4:
                if big_budget <= 0:
                    continue
                big_budget -= 1
            keep.append(i)
        idx = keep
        outs = run_model(PROP, [cases[i] for i in idx], [impl[i] for i in idx], [exacts[i] for i in idx])
        for i, r in zip(idx, outs):
            model_out[i] = r
    except core.CheckError as e:
        if not proof_broken:
            raise
        rep.notes.append(f"model not runnable: {str(e)[:300]}")
    disagreements = []
    stats = dict(columns=0, published=0, allcols=0, model_ok=0, method={})
    for c, o, m in zip(cases, impl, model_out):
        check_case(rep, c, o, m, disagreements, stats)
    dist = {}
    for c in cases:
        k = (c["model"] if not c.get("build") else "BUILT:" + c["build"]["kind"] + ":" + str(c["build"].get("mprob_model"))) \
            + ("+bins" if c.get("bins") else "") + ("+scoped" if c.get("scoped") else "")
        dist[k] = dist.get(k, 0) + 1
    nt = {json.dumps([c["model"], c["tree"], c["aln"]], sort_keys=True) for c, o in zip(cases, impl) if nontrivial(c, o)}
    rep.coverage.update(
        evaluations=len(cases), distinct_nontrivial=len(nt),
        rule="one evaluation = one (model, tree, alignment, parameter values, scoping, bins) configuration, all its columns compared; "
             "non-trivial = alignment has >= 2 distinct columns and a degenerate/gap symbol, or repeated columns",
        samples=[dict(case=cases[0], lnL=impl[0].get("lnL") if isinstance(impl[0], dict) else None)],
        input_distribution=dict(configurations=len(cases), columns_compared=stats["columns"], by_model=dist,
                                polytomies=sum(1 for o in impl if isinstance(o, dict) and "tree" in o and has_polytomy(o["tree"])),
                                oracle_method=stats["method"], published_definition_checked=stats["published"],
                                allcols_blocks=stats["allcols"], model_equal_to_exact_sum=stats["model_ok"],
                                matrix=distribution_matrix(list(zip(cases, impl)))),
        partial=["IEEE-754 rounding, expm/eigendecomposition and log are outside the theorems (tolerance-based correspondence)",
                 "rate-matrix assembly from predicates (calcQ) is not modelled in Coq: tied by the published-definition oracle for "
                 "JC69/F81/K80/HKY85/TN93/GTR only; codon/protein/GN/ssGN matrices are taken from the implementation",
                 "patch-HMM (sites not independent) bin models are not covered"],
        model_impl_disagreements=len(disagreements), exhaustive=False,
    )
    core.conclude(rep, pr, f"{len(cases)} configurations / {stats['columns']} columns against the sum-product oracle",
                  disagreements[:5], "Model.LikRun.run_case vs cogent3 likelihood function", tier, PROP)
    return rep.finish("proof")


def replay(path: str) -> int:
    d = json.loads(open(path).read())
    if "case" not in d:
        print("replay names a broken obligation, not an input:", d.get("broken"))
        return 1
    c = d["case"]
    obs = core.run_impl_lines("c02_impl.py", [c])[0]
    rep = core.Report(PROP, "replay", 0)
    rep.findings = []
    before = len(rep.violations)
    dis = []
    stats = dict(columns=0, published=0, allcols=0, model_ok=0, method={})
    import contextlib
    import io

    buf = io.StringIO()
    with contextlib.redirect_stdout(buf):
        check_case(rep, c, obs, None, dis, stats)
    print("impl  : lnL =", obs.get("lnL") if isinstance(obs, dict) else obs)
    bad = len(rep.violations) > before
    if bad:
        v = json.loads(open(rep.violations[-1]["path"]).read())
        print("oracle: expected", v.get("expected_by_spec"), "observed", v.get("observed_impl"), "--", v.get("broken"))
        import os

        os.unlink(rep.violations[-1]["path"])
    print("REPRODUCED" if bad else "not reproduced")
    return 1 if bad else 0
