"""C03 implementation runner: drives the real Alignment / ArrayAlignment /
new-style SequenceCollection through operation chains and observes the state
after every step."""
import numpy

from vcheck.implutil import serve
from vcheck.val import exc_code

MOLTYPES = ["dna", "rna", "protein", "text"]


# row names: several are proper substrings / prefixes of one another
NAMES = ["Mouse", "Mouse_2", "Mo", "use_2", "Mouse_2b"]


def name_of(i):
    return NAMES[i] if 0 <= i < len(NAMES) else f"s{i}"


def id_of(name):
    name = str(name)
    return NAMES.index(name) if name in NAMES else int(name[1:])


def build(case, rows=None, arr=None):
    from cogent3 import make_aligned_seqs

    rows = case["rows"] if rows is None else rows
    arr = case["arr"] if arr is None else arr
    data = {name_of(i): s for i, s in rows}
    kw = {}
    if case.get("info"):
        kw["info"] = {"tag": "x", "n": 3}
    aln = make_aligned_seqs(data, moltype=case["moltype"], array_align=bool(arr), **kw)
    if case.get("feature") and not arr and len(aln) > 0:
        n0 = name_of(rows[0][0])
        try:
            aln.add_feature(seqid=n0, biotype="exon", name="f0", spans=[(0, 1)], on_alignment=False)
            aln.add_feature(biotype="region", name="f1", spans=[(0, 1)], on_alignment=True)
        except Exception:  # noqa: BLE001  (e.g. a row without residues)
            pass
    return aln


RO_METHODS = [
    ("len", lambda a: len(a)),
    ("names", lambda a: list(a.names)),
    ("num_seqs", lambda a: a.num_seqs),
    ("to_fasta", lambda a: a.to_fasta()),
    ("gapped", lambda a: [str(a.get_gapped_seq(n)) for n in a.names]),
    ("get_lengths", lambda a: sorted((k, int(v)) for k, v in a.get_lengths().items())),
    ("is_ragged", lambda a: bool(a.is_ragged())),
    ("count_gaps_per_pos", lambda a: numpy.asarray(a.count_gaps_per_pos().array).tolist() if len(a) else []),
    ("count_gaps_per_seq", lambda a: numpy.asarray(a.count_gaps_per_seq().array).tolist() if len(a) else []),
    ("get_gap_array", lambda a: numpy.asarray(a.get_gap_array()).tolist() if len(a) else []),
    ("counts_per_seq", lambda a: sorted((k, sorted(v.items())) for k, v in a.counts_per_seq().to_dict().items()) if len(a) else []),
    ("iupac_consensus", lambda a: str(a.iupac_consensus()) if len(a) and str(a.moltype.label) in ("dna", "rna") else ""),
    ("variable_positions", lambda a: list(map(int, a.variable_positions())) if len(a) else []),
    ("positions", lambda a: [list(map(str, p)) for p in a.positions]),
]


def _call(f, a):
    try:
        return ("ok", f(a))
    except Exception as e:  # noqa: BLE001
        return ("exc", type(e).__name__)


def readonly_mismatch(aln, case):
    """names of the read-only methods answering differently on `aln` and on a
    new object built from its rows"""
    from cogent3 import make_aligned_seqs
    from cogent3.core.alignment import ArrayAlignment

    try:
        d = aln.to_dict()
        fresh = make_aligned_seqs(d, moltype=aln.moltype, array_align=isinstance(aln, ArrayAlignment))
    except Exception as e:  # noqa: BLE001
        return ["fresh-construction:" + type(e).__name__]
    bad = []
    for name, f in RO_METHODS:
        if _call(f, aln) != _call(f, fresh):
            bad.append(name)
    return bad


def observe(aln, case, ro=True):
    from cogent3.core.alignment import Alignment, ArrayAlignment

    if isinstance(aln, ArrayAlignment):
        d = aln.to_dict()
        rows = [[id_of(n), d[n]] for n in aln.names]
        cls = 1
    elif isinstance(aln, Alignment):
        rows = []
        d = aln.to_dict()
        for n in aln.names:
            al = aln.named_seqs[n]
            rows.append([id_of(n), d[n], int(len(al)), [int(x) for x in al.map.gap_pos.tolist()],
                         [int(x) for x in al.map.cum_gap_lengths.tolist()], int(al.map.parent_length), str(al.data)])
        cls = 0
    else:
        raise TypeError(f"not an alignment: {type(aln)}")
    out = {"obs": [cls, int(len(aln)), rows]}
    if ro:
        out["ro"] = readonly_mismatch(aln, case)
        out["gapped_eq"] = all(str(aln.get_gapped_seq(n)) == d[n] for n in aln.names)
        out["moltype"] = str(aln.moltype.label)
    return out


def make_pred(aln, chars):
    chars = set(chars)
    alpha = aln.alphabet

    def pred(col):
        if isinstance(col, numpy.ndarray):
            s = "".join(str(c) for c in alpha.from_indices(col.flatten()))
        else:
            s = "".join(str(c) for c in col)
        return set(s) <= chars

    return pred


ARGS = {}   # per case: operation (as JSON) -> the argument objects handed to the library, re-used on every call


def op_args(op):
    """the mutable / caller-owned argument objects of an operation: built once per case and handed again to every
    later call of the same operation (also after a class conversion), as a caller keeping its index array would"""
    import json

    key = json.dumps(op, sort_keys=True)
    if key not in ARGS:
        o = op["op"]
        if o == "sample":
            ARGS[key] = {"locs": numpy.array(op["locs"], dtype=int)}
        elif o == "takepos":
            ARGS[key] = {"cols": list(op["cols"])}
        elif o == "takeseqs":
            names = [name_of(i) for i in op["names"]]
            ARGS[key] = {"names": names[0] if op.get("as_str") and len(names) == 1 else names}
        elif o == "addrows":
            ARGS[key] = {"other": [[i, r] for i, r in op["other"]]}
        else:
            ARGS[key] = {}
    return ARGS[key]


def snapshot(args):
    out = {}
    for k, v in args.items():
        out[k] = v.copy() if isinstance(v, numpy.ndarray) else (
            [list(e) if isinstance(e, list) else e for e in v] if isinstance(v, list) else v)
    return out


def same_args(a, b):
    for k in a:
        x, y = a[k], b[k]
        if isinstance(x, numpy.ndarray) or isinstance(y, numpy.ndarray):
            if not (isinstance(x, numpy.ndarray) and isinstance(y, numpy.ndarray) and x.dtype == y.dtype
                    and numpy.array_equal(x, y)):
                return False
        elif isinstance(x, list) and isinstance(y, list):
            if [list(e) if isinstance(e, (list, tuple)) else e for e in x] != [list(e) if isinstance(e, (list, tuple)) else e for e in y]:
                return False
        elif x != y or type(x) is not type(y):
            return False
    return True


REUSE_KINDS = ("sample", "takepos", "takeseqs", "addrows")


def apply_op(aln, op, case):
    from cogent3 import make_aligned_seqs
    from cogent3.core.alignment import ArrayAlignment

    o = op["op"]
    args = op_args(op)
    if o == "slice":
        return aln[op["a"]:op["b"]]
    if o == "slicestep":
        return aln[op["a"]:op["b"]:op["c"]]
    if o == "index":
        return aln[op["i"]]
    if o == "rc":
        return aln.rc()
    if o == "addself":
        return aln + aln
    if o == "addrows":
        # the right operand is an alignment of its own: its named rows in its own order
        other = make_aligned_seqs({name_of(i): r for i, r in args["other"]}, moltype=aln.moltype,
                                  array_align=isinstance(aln, ArrayAlignment))
        return aln + other
    if o == "rename":
        mapping = {name_of(a): name_of(b) for a, b in op["map"]}
        return aln.rename_seqs(lambda n: mapping.get(n, n))
    if o == "addslices":
        return aln[op["a"]:op["b"]] + aln[op["c"]:op["d"]]
    if o == "takepos":
        return aln.take_positions(args["cols"], negate=bool(op["negate"]))
    if o == "takeseqs":
        return aln.take_seqs(args["names"], negate=bool(op["negate"]))
    if o == "no_degen":
        return aln.no_degenerates(motif_length=op["motif"], allow_gap=bool(op["allow_gap"]))
    if o == "omit_gap":
        if op.get("default"):
            return aln.omit_gap_pos(motif_length=op["motif"])
        return aln.omit_gap_pos(allowed_gap_frac=op["num"] / op["den"], motif_length=op["motif"])
    if o == "filtered":
        return aln.filtered(make_pred(aln, op["chars"]), motif_length=op["motif"])
    if o == "degaprel":
        return aln.get_degapped_relative_to(name_of(op["name"]))
    if o == "sample":
        locs = args["locs"]   # the caller's own index array, handed over as it is
        return aln.sample(n=len(locs), with_replacement=True, motif_length=op["motif"],
                          randint=lambda lo, hi, n: locs)
    if o == "to_rna":
        return aln.to_rna()
    if o == "to_dna":
        return aln.to_dna()
    if o == "to_type":
        return aln.to_type(array_align=not isinstance(aln, ArrayAlignment))
    if o == "window":
        ws = list(aln.sliding_windows(op["w"], op["st"]))
        return ws[op["k"]] if 0 <= op["k"] < len(ws) else None
    raise ValueError(f"unknown op {o}")


def degap_obs(aln):
    d = aln.degap().to_dict()
    return [[id_of(n), d[n]] for n in aln.names]


def ro_values(aln):
    """the read-only methods the model states as functions of the rows (Model/Aligned.v al_positions ...)"""
    if len(aln) == 0 or str(aln.moltype.label) not in ("dna", "rna", "protein"):
        return None
    return [
        [id_of(n) for n in aln.names],
        int(len(aln)),
        ["".join(str(c) for c in col) for col in aln.positions],
        [[bool(x) for x in row] for row in numpy.asarray(aln.get_gap_array()).tolist()],
        [int(x) for x in numpy.asarray(aln.count_gaps_per_pos().array).tolist()],
        bool(aln.is_ragged()),
        [int(x) for x in numpy.asarray(aln.count_gaps_per_seq().array).tolist()],
        [int(x) for x in aln.variable_positions()],
        [[id_of(n), int(aln.get_lengths()[n])] for n in aln.names],
        [str(aln.get_seq(n)) for n in aln.names],
    ]


def probe():
    """behavioural probes for the pinned / repaired variants (Model/Aligned.v [variant])"""
    from cogent3 import make_aligned_seqs
    from cogent3.core.location import IndelMap

    def safe(f):
        try:
            return bool(f())
        except Exception:  # noqa: BLE001
            return False

    aln = make_aligned_seqs({"a": "TAC-T", "b": "T-CGT"}, moltype="dna", array_align=False)
    m = IndelMap(gap_pos=numpy.array([0, 1]), cum_gap_lengths=numpy.array([1, 2]), parent_length=1)
    return [
        safe(lambda: len(aln[:9]) == 5 and len(aln.named_seqs["a"].map[:9]) == 5),
        safe(lambda: len(set((m + m).gap_pos.tolist())) == len((m + m).gap_pos.tolist())),
        safe(lambda: (aln + aln).to_dict() == {"a": "TAC-TTAC-T", "b": "T-CGTT-CGT"}),
        safe(lambda: aln.take_positions([0], negate=True).to_dict() == {"a": "AC-T", "b": "-CGT"}),
        safe(lambda: aln[-1].to_dict() == {"a": "T", "b": "T"}),
    ]


def tables():
    """moltype constants the model is given as data"""
    from cogent3 import get_moltype

    out = {}
    for mt in ("dna", "rna", "protein"):
        m = get_moltype(mt)
        out[mt] = {"non_degen": "".join(m.alphabet.non_degen), "gaps": "".join(sorted(m.gaps)), "gap": m.gap,
                   "alpha_gap": m.alphabet.gap if hasattr(m.alphabet, "gap") else None}
    return out


def run_new_collection(case):
    """new-style SequenceCollection (no new-style alignment class exists on this tree):
    rc / to_rna / to_dna / take_seqs / degap against the strings"""
    from cogent3 import make_unaligned_seqs

    data = {name_of(i): s for i, s in case["rows"]}
    coll = make_unaligned_seqs(data, moltype=case["moltype"], new_type=True)
    steps = []
    for op in case["ops"]:
        o = op["op"]
        try:
            if o == "rc":
                new = coll.rc()
            elif o == "to_rna":
                new = coll.to_rna()
            elif o == "to_dna":
                new = coll.to_dna()
            elif o == "takeseqs":
                names = [name_of(i) for i in op["names"]]
                arg = names[0] if op.get("as_str") and len(names) == 1 else names
                keep = list(arg) if isinstance(arg, list) else arg
                new = coll.take_seqs(arg, negate=bool(op["negate"]))
                if arg != keep:
                    raise RuntimeError("take_seqs modified its argument")
            elif o == "degap":
                new = coll.degap()
            else:
                raise ValueError(o)
            d = new.to_dict()
            coll = new
            steps.append({"obs": [2, 0, [[id_of(n), d[n]] for n in new.names]]})
        except Exception as e:  # noqa: BLE001
            steps.append({"exc": exc_code(e), "cls": type(e).__name__, "msg": str(e)[:200]})
    return {"steps": steps}


def run_sub_alignment(case):
    """ArrayAlignment.get_sub_alignment(seqs, pos, negate_seqs, negate_pos)"""
    aln = build(case, arr=True)
    kw = {}
    if case["seqs"] is not None:
        kw["seqs"] = list(case["seqs"])
    if case["pos"] is not None:
        kw["pos"] = list(case["pos"])
    try:
        new = aln.get_sub_alignment(negate_seqs=bool(case["negate_seqs"]), negate_pos=bool(case["negate_pos"]), **kw)
    except Exception as e:  # noqa: BLE001
        return {"steps": [{"exc": exc_code(e), "cls": type(e).__name__, "msg": str(e)[:200]}]}
    if new is None:
        return {"steps": [{"exc": 0, "cls": "returned-none"}]}
    return {"steps": [observe(new, case)]}


def run_sample_draw(case):
    """sample() through its RANDOM-draw path (the library's own randint / permutation of numpy.random, seeded), on both
    classes built from the same rows: once with the defaults, once with recording wrappers around the same generators"""
    out = {}
    m, n, wr, seed = case["motif"], case["n"], bool(case["with_replacement"]), case["seed"]
    for cls, arr in (("old", False), ("arr", True)):
        try:
            aln = build(case, arr=arr)
            numpy.random.seed(seed)
            r1 = aln.sample(n=n, with_replacement=wr, motif_length=m)
            d1 = r1.to_dict()
            rec = []

            def randint(lo, hi, k):
                r = numpy.random.randint(lo, hi, k)
                rec.append(["randint", int(lo), int(hi), int(k), [int(x) for x in r]])
                return r

            def permutation(k):
                r = numpy.random.permutation(k)
                rec.append(["permutation", int(k), [int(x) for x in r]])
                return r

            numpy.random.seed(seed)
            r2 = aln.sample(n=n, with_replacement=wr, motif_length=m, randint=randint, permutation=permutation)
            d2 = r2.to_dict()
            out[cls] = {"rows": [[id_of(k), d1[k]] for k in r1.names], "len": int(len(r1)), "rec": rec,
                        "default_equals_wrapped": d1 == d2 and list(r1.names) == list(r2.names),
                        "ro": readonly_mismatch(r1, case)}
        except Exception as e:  # noqa: BLE001
            out[cls] = {"exc": exc_code(e), "cls": type(e).__name__, "msg": str(e)[:200]}
    return out


def run_case(case):
    if case.get("sample_draw"):
        return run_sample_draw(case)
    if case.get("sub_alignment"):
        return run_sub_alignment(case)
    if case.get("probe"):
        return {"probe": probe(), "tables": tables()}
    if case.get("new_collection"):
        return run_new_collection(case)
    aln = build(case)
    first = observe(aln, case)
    steps = []
    init = aln
    ARGS.clear()
    for op in case["ops"]:
        cur = init if case.get("indep") else aln
        args = op_args(op)
        before = snapshot(args)
        extra = {}
        try:
            new = apply_op(cur, op, case)
        except Exception as e:  # noqa: BLE001
            st = {"exc": exc_code(e), "cls": type(e).__name__, "msg": str(e)[:200]}
            if not same_args(before, args):
                st["args_modified"] = True
            steps.append(st)
            continue
        if not same_args(before, args):
            extra["args_modified"] = True
        if op["op"] in REUSE_KINDS and new is not None and not (isinstance(new, dict) and not new):
            # same alignment, same argument objects, once more: same result
            try:
                again = apply_op(cur, op, case)
                if again is None or list(again.names) != list(new.names) or again.to_dict() != new.to_dict():
                    extra["repeat_differs"] = True
            except Exception as e:  # noqa: BLE001
                extra["repeat_differs"] = type(e).__name__
            if not same_args(before, args):
                extra["args_modified"] = True
        if new is None or (isinstance(new, dict) and not new):
            steps.append(dict({"exc": 0, "cls": "returned-none"}, **extra))
            continue
        try:
            ob = observe(new, case, ro=not case.get("indep") or case.get("ro"))
        except Exception as e:  # noqa: BLE001
            steps.append({"exc": exc_code(e), "cls": type(e).__name__, "msg": "observing the result: " + str(e)[:200],
                          "at": "observe"})
            continue
        ob.update(extra)
        steps.append(ob)
        aln = new
    try:
        dg = degap_obs(aln)
    except Exception as e:  # noqa: BLE001
        dg = {"exc": exc_code(e), "cls": type(e).__name__}
    ro = None
    if not case.get("indep"):
        try:
            ro = ro_values(aln)
        except Exception as e:  # noqa: BLE001
            ro = {"exc": exc_code(e), "cls": type(e).__name__, "msg": str(e)[:200]}
    return {"first": first, "steps": steps, "degap": dg, "ro_values": ro}


if __name__ == "__main__":
    serve(run_case, limit=120)
