"""C07 — Incrementally recalculated likelihoods equal a fresh calculation.

Stage P: Properties/C07.v (Calculator double buffer / undo / recycling state
machine refines fresh evaluation; dirty-set controller).  Stage C: the real
Calculator and ParameterController driven with synthetic integer-valued cell
graphs vs the Coq model (vm_compute), full internal state compared.  Stage S:
plain-Python oracle = evaluate the DAG from scratch at the current parameter
values; real likelihood functions vs a newly built function."""
from __future__ import annotations

import itertools
import json
import random
import re

from vcheck import core
from vcheck.val import Exc, cbool, from_jsonable, jsonable, zlit

PROP = "C07"
COQ_TARGETS = ["theories/Model/CalcScope.vo", "theories/Model/CalcRun.vo"]
MOD = 10007
TOL = 1e-9


# ------------------------------------------------------------------ which variant of updates_postponed is in the source

def source_has_finally() -> bool:
    """fail-closed reading of ParameterController.updates_postponed"""
    txt = (core.REPO / "src/cogent3/recalculation/scope.py").read_text()
    m = re.search(r"def updates_postponed\(self\):(.*?)\n    def ", txt, flags=re.S)
    if not m:
        raise core.CheckError("cannot locate updates_postponed in recalculation/scope.py")
    body = m.group(1)
    if "_update_suspended" not in body or "yield" not in body:
        raise core.CheckError("updates_postponed no longer has the modelled shape")
    return re.search(r"^\s*finally\s*:", body, flags=re.M) is not None


def source_retains_dirty() -> bool:
    """_updateIntermediateValues: is the dirty set cleared only after the loop (so that it survives a raising
    defn.update())?  fail-closed reading of the source text"""
    txt = (core.REPO / "src/cogent3/recalculation/scope.py").read_text()
    m = re.search(r"def _updateIntermediateValues\(self\):(.*?)\n    def ", txt, flags=re.S)
    if not m:
        raise core.CheckError("cannot locate _updateIntermediateValues")
    body = m.group(1)
    if "defn.update()" not in body or "_changed" not in body:
        raise core.CheckError("_updateIntermediateValues no longer has the modelled shape")
    loop = body.index("for defn in self.defns")
    swapped = re.search(r"self\._changed\s*\)?\s*=\s*\(?.*set\(\)", body[:loop]) is not None or "set()" in body[:loop]
    cleared_after = re.search(r"self\._changed\.clear\(\)|self\._changed\s*=\s*set\(\)", body[loop:]) is not None
    if swapped:
        return False
    if cleared_after:
        return True
    raise core.CheckError("_updateIntermediateValues: cannot tell when the dirty set is cleared")


def source_export_chrono() -> bool:
    """does _InputDefn.get_param_rules emit the rules in creation order of the settings (proposed fix C07-3)
    rather than in order of the first cell of each group?  fail-closed reading of the source text"""
    txt = (core.REPO / "src/cogent3/recalculation/definition.py").read_text()
    m = re.search(r"def get_param_rules\(self\):(.*?)\n    def |def get_param_rules\(self\):(.*?)\nclass ", txt, flags=re.S)
    if not m:
        raise core.CheckError("cannot locate _InputDefn.get_param_rules")
    body = m.group(1) or m.group(2)
    if "scoped" not in body or "get_param_rule_dict" not in body:
        raise core.CheckError("get_param_rules no longer has the modelled shape")
    return "serial" in body


# ------------------------------------------------------------------ plain-Python oracle: evaluate the DAG from scratch

class Fail(Exception):
    pass


def cellfun(k, c, a):
    if k == 2:
        return (sum(a) + c) % MOD
    if k == 3:
        p = 1
        for x in a:
            p *= x
        return (p + c) % MOD
    if k == 4:
        s = sum(a)
        if c < s:
            raise Fail()
        return s
    if not a:
        return c
    return ((a[0] - sum(a[1:])) * c) % MOD


def fresh_eval(cells, x, consts):
    """x: optimiser-space values of the OptPars (by rank); consts: value by rank"""
    vals = []
    for r, (k, c, args, rec) in enumerate(cells):
        if k == 0:
            vals.append(3 * x[r] + 1 if c == 1 else x[r])
        elif k == 1:
            vals.append(consts[r])
        else:
            vals.append(cellfun(k, c, [vals[a] for a in args]))
    return vals


def opt_start(cells, inp0):
    return [((inp0[r] - 1) // 3 if c == 1 else inp0[r]) for r, (k, c, _, _) in enumerate(cells) if k == 0]


def calc_oracle(case, observed_lastv=None):
    """per step: (expected result, expected current values, expected x) or None when
    the history leaves the property's domain (a non-parameter cell was changed, or an index repeated).
    A step whose requested vector cannot be evaluated must raise; the calculator then holds SOME earlier
    vector (the one it reports in last_values: each coordinate either the old or the requested value) and
    must be consistent with it: expected current values = evaluation from scratch at that vector."""
    cells, inp0, ops = case["cells"], case["inp0"], case["ops"]
    nop = sum(1 for c in cells if c[0] == 0)
    x = opt_start(cells, inp0)
    try:
        cur = fresh_eval(cells, x, inp0)
    except Fail:
        return "init-fails"
    out = []
    valid = True
    for k, (kind, arg) in enumerate(ops):
        if kind == "change":
            idx = [i for i, _ in arg]
            if any(i >= nop for i in idx) or len(set(idx)) != len(idx):
                valid = False
            nx = list(x)
            for i, v in arg:
                if i < nop:
                    nx[i] = v
        else:
            nx = list(arg)
        if not valid:
            out.append(None)
            continue
        try:
            vals = fresh_eval(cells, nx, inp0)
            x, cur = nx, vals
            out.append((vals[-1], list(cur), list(x)))
        except Fail:
            obs = observed_lastv[k] if observed_lastv is not None else x
            if len(obs) == len(x) and all(o in (a, b) for o, a, b in zip(obs, x, nx)):
                try:
                    cur_o = fresh_eval(cells, obs, inp0)
                    x, cur = list(obs), cur_o
                except Fail:
                    pass
            out.append((Exc(9), list(cur), list(x)))
    return out


def ctl_oracle(case):
    ds, asg, ops = case["defns"], list(case["asg"]), case["ops"]

    def ev():
        """None when a definition rejects the current settings (a newly built function would raise)"""
        vals = []
        try:
            for d, (k, c, args) in enumerate(ds):
                vals.append(asg[d] if not args else cellfun(k, c, [vals[a] for a in args]))
        except Fail:
            return None
        return vals

    out = [ev()]
    for o in ops:
        if o[0] == "assign":
            asg[o[1]] = o[2]
        else:
            for d, v in o[1]:
                asg[d] = v
        out.append(ev())
    return out


# ------------------------------------------------------------------ generators

def rand_graph(rng, small=False):
    nop = rng.choice([1, 2, 2, 3] if not small else [1, 2])
    ncon = rng.choice([0, 1, 1, 2] if not small else [0, 1])
    nev = rng.randint(2, 4 if small else 8)
    cells, inp0 = [], []
    for _ in range(nop):
        t = rng.choice([0, 0, 1])
        cells.append([0, t, [], False])
        inp0.append(3 * rng.randint(0, 4) + 1 if t else rng.randint(0, 5))
    for _ in range(ncon):
        cells.append([1, 0, [], False])
        inp0.append(rng.randint(0, 5))
    x0 = opt_start(cells, inp0)
    for j in range(nev):
        r = len(cells)
        na = min(r, rng.choice([1, 2, 2, 3]))
        if j == nev - 1 and r >= 2:
            # the output cell: make it depend on the most recent cells so that most of the graph is live
            args = sorted(set([r - 1] + rng.sample(range(r), na - 1)))
        else:
            args = sorted(rng.sample(range(r), na))
        rng.shuffle(args)
        k = rng.choice([2, 2, 3, 3, 5, 4])
        c = rng.randint(0, 6)
        rec = rng.random() < 0.4
        cells.append([k, c, args, rec])
        inp0.append(0)
        if k == 4:
            # choose the bound near the initial sum so that some parameter values make it raise
            try:
                vals = fresh_eval(cells[:-1] + [[2, 0, args, rec]], x0 + [0] * 0, inp0)
                cells[-1][1] = vals[-1] + rng.choice([0, 1, 2, 4, 8, 30])
            except Fail:
                cells[-1][1] = 50
    return cells, inp0


def rand_history(rng, cells, inp0, nsteps, with_const=False):
    nop = sum(1 for c in cells if c[0] == 0)
    consts = [r for r, c in enumerate(cells) if c[0] == 1]
    x = opt_start(cells, inp0)
    hist = [list(x)]          # believed optimiser vectors (ignores failures: fine for generating)
    last_change = None
    ops = []
    for _ in range(nsteps):
        w = rng.random()
        if w < 0.30 or last_change is None:
            i = rng.randrange(nop)
            ch = [[i, rng.randint(0, 6)]]
            op = ["change", ch]
        elif w < 0.45:
            # exact revert of the previous change (the optimiser's undo idiom)
            op = ["change", [list(p) for p in last_change]]
        elif w < 0.55:
            # revert + something else
            i = rng.randrange(nop)
            extra = [[i, rng.randint(0, 6)]]
            ch = [list(p) for p in last_change if p[0] != i] + extra
            rng.shuffle(ch)
            op = ["change", ch]
        elif w < 0.63:
            # partial revert / repeat of the same change
            op = ["change", [list(p) for p in (ops[-1][1] if ops[-1][0] == "change" else last_change)][:1]]
        elif w < 0.73:
            ids = rng.sample(range(nop), rng.randint(1, nop))
            op = ["change", [[i, rng.randint(0, 6)] for i in ids]]
        elif w < 0.83:
            op = ["vec", [rng.randint(0, 6) for _ in range(nop)]]
        elif w < 0.93:
            op = ["vec", list(rng.choice(hist[-3:]))]     # an earlier vector: A, B, A
        else:
            op = ["vec", list(hist[-1])]                  # the same vector again
        if with_const and consts and rng.random() < 0.15:
            ch = [[rng.choice(consts), rng.randint(0, 6)]]
            if rng.random() < 0.6:
                ch.append([rng.randrange(nop), rng.randint(0, 6)])
            if rng.random() < 0.2:
                ch.append(list(ch[-1][:1]) + [rng.randint(0, 6)])   # repeated index
            op = ["change", ch]
        ops.append(op)
        nx = list(hist[-1])
        if op[0] == "change":
            last_change = [[i, hist[-1][i]] for i, _ in op[1] if i < nop] or last_change
            for i, v in op[1]:
                if i < nop:
                    nx[i] = v
        else:
            last_change = [[i, hist[-1][i]] for i in range(nop) if hist[-1][i] != op[1][i]] or last_change
            nx = list(op[1])
        hist.append(nx)
    return ops


def calc_case(rng, block, nsteps=None, with_const=False, small=False):
    cells, inp0 = rand_graph(rng, small)
    ops = rand_history(rng, cells, inp0, nsteps or rng.randint(6, 30), with_const)
    return dict(kind="calc", block=block, cells=cells, inp0=inp0, ops=ops)


EX_GRAPHS = [
    # a, b -> rec(a,b) -> top ; b feeds top directly
    ([[0, 0, [], False], [0, 1, [], False], [2, 1, [0, 1], True], [4, 9, [2], False], [3, 2, [3, 1], False]], [1, 4, 0, 0, 0]),
    # two recycled cells in a chain, a constant, a failing guard in the middle
    ([[0, 0, [], False], [0, 0, [], False], [1, 0, [], False], [2, 0, [0, 2], True], [4, 5, [3, 1], False], [5, 3, [4, 0], True]],
     [1, 1, 2, 0, 0, 0]),
]


def exhaustive_block(tier):
    depth = 3 if tier == "quick" else 4
    cases = []
    for cells, inp0 in EX_GRAPHS:
        alphabet = [["change", [[0, 1]]], ["change", [[0, 2]]], ["change", [[1, 1]]], ["change", [[1, 3]]],
                    ["change", [[0, 2], [1, 1]]], ["vec", [1, 1]], ["vec", [2, 3]]]
        for hist in itertools.product(alphabet, repeat=depth):
            cases.append(dict(kind="calc", block="exhaustive", cells=cells, inp0=inp0, ops=[list(o) for o in hist]))
    return cases


def ctl_case(rng, block, raising=False, guards=False):
    nleaf = rng.randint(1, 3)
    nev = rng.randint(1, 5)
    ds = [[2, 0, []] for _ in range(nleaf)]
    for _ in range(nev):
        d = len(ds)
        args = sorted(rng.sample(range(d), min(d, rng.choice([1, 2, 2, 3]))))
        ds.append([rng.choice([2, 3, 5]), rng.randint(0, 6), args])
    # every definition must be reachable from the top one
    used = {a for d in ds for a in d[2]}
    top = len(ds) - 1
    for d in range(top):
        if d not in used:
            ds[top][2] = sorted(set(ds[top][2]) | {d})
    asg = [rng.randint(0, 6) if not d[2] else 0 for d in ds]
    if guards:
        # some definitions reject argument values whose sum exceeds a bound close to the initial sum
        for d in range(nleaf, len(ds)):
            if rng.random() < 0.4:
                ds[d][0] = 4
                vals = ctl_oracle(dict(defns=ds[: d] + [[2, 0, ds[d][2]]], asg=asg[: d + 1], ops=[]))[0]
                ds[d][1] = (vals[-1] if vals else 20) + rng.choice([0, 1, 2, 3, 5])
        if ctl_oracle(dict(defns=ds, asg=asg, ops=[]))[0] is None:
            for d in ds:
                if d[0] == 4:
                    d[1] = 10 ** 6
    ops = []
    for _ in range(rng.randint(3, 10)):
        if rng.random() < 0.55:
            ops.append(["assign", rng.randrange(nleaf), rng.randint(0, 6)])
        else:
            body = [[rng.randrange(nleaf), rng.randint(0, 6)] for _ in range(rng.randint(0, 3))]
            ops.append(["post", body, False])
    if raising:
        k = rng.randint(0, len(ops) - 1)
        ops.insert(k, ["post", [[rng.randrange(nleaf), 7 + rng.randint(0, 3)]], True])
        ops.append(["assign", rng.randrange(nleaf), 11])
    return dict(kind="ctl", block=block, defns=ds, asg=asg, ops=ops)


TREES = [("(a:0.1,b:0.2,c:0.3)", ["a", "b", "c"]),
         ("(a:0.1,b:0.2,(c:0.1,d:0.3):0.05)", ["a", "b", "c", "d", "edge.0"]),
         ("((a:0.2,b:0.1):0.1,c:0.3,(d:0.1,e:0.2):0.07)", ["a", "b", "c", "d", "e", "edge.0", "edge.1"])]
RATE_PARS = {"HKY85": ["kappa"], "GTR": ["A/C", "A/G", "A/T", "C/G", "C/T"], "F81": []}


BOUNDS = {"length": (0.0, 10.0), "rate": (1e-6, 1e6), "rate_shape": (0.01, 1e10)}


def lf_setting(rng, model, edges, bins=False):
    w = rng.random()
    pars = RATE_PARS[model]
    if w < 0.12:
        p = [rng.uniform(0.1, 1.0) for _ in range(4)]
        if rng.random() < 0.15:
            p[rng.randrange(4)] = 0.0            # a motif with probability exactly 0
        s = sum(p)
        return dict(what="mprobs", value=[v / s for v in p])
    if w < 0.2:
        return dict(what="aln", length=rng.choice([30, 60]), aln_seed=rng.randint(0, 3))
    if bins == "gamma" and w < 0.3:
        v = rng.choice([0.01, 0.01, round(rng.uniform(0.3, 4.0), 3)])      # lower bound of rate_shape is 0.01
        return dict(what="par", par="rate_shape", edges=None, value=v, const=rng.random() < 0.3, indep=False)
    # scope of the rule: every edge / one edge / a subset, tied or independent
    sc = rng.random()
    E = None if sc < 0.3 else [rng.choice(edges)] if sc < 0.65 else sorted(rng.sample(edges, rng.randint(2, min(3, len(edges)))))
    at_bound = rng.random() < 0.35            # a value sitting exactly on a bound (0.0 for lengths)
    const = rng.random() < 0.25
    beyond = at_bound and not const and rng.random() < 0.3      # a free value beyond a bound must be clipped to it
    if w < 0.6 or not pars:
        v = rng.choice([0.0, 0.0, 0.0, 10.0]) if at_bound else round(rng.uniform(0.01, 1.5), 3)
        if beyond:
            v = rng.choice([-0.25, 12.5])
        return dict(what="par", par="length", edges=E, value=v, const=const, indep=rng.random() < 0.6)
    v = (rng.choice([1e-6, 1e-6, 1e6]) if model == "HKY85" else 1e-6) if at_bound else round(rng.uniform(0.3, 6.0), 3)
    if beyond:
        v = rng.choice([1e-7, 2e6]) if model == "HKY85" else 1e-7
    # with rate-heterogeneity bins a rule can also be scoped by bin, and an independent rule splits the parameter by bin too
    B = None
    if bins and rng.random() < 0.4:
        B = [rng.choice(["bin0", "bin1"])]
    return dict(what="par", par=rng.choice(pars), edges=E, bins=B, value=v, const=const, indep=rng.random() < 0.4)


def lf_case(rng, block, raising=False):
    tree, edges = rng.choice(TREES)
    model = rng.choice(["HKY85", "HKY85", "GTR", "F81"])
    spec = dict(tree=tree, model=model, length=60, aln_seed=rng.randint(0, 3))
    bins = (not raising) and rng.random() < 0.35
    if bins:
        spec["dist"] = rng.choice(["gamma", "free", "free"])
        spec["bins"] = 2 if spec["dist"] == "gamma" else rng.choice([2, 3])
    ops = []
    for _ in range(rng.randint(4, 9)):
        w = rng.random()
        if w < 0.45:
            ops.append(dict(op="set", s=lf_setting(rng, model, edges, spec.get("dist", "gamma") if bins else False)))
        elif w < 0.65:
            ops.append(dict(op="postponed", body=[lf_setting(rng, model, edges, spec.get("dist", "gamma") if bins else False) for _ in range(rng.randint(1, 3))], raises=False))
        elif w < 0.9:
            steps = []
            for _ in range(rng.randint(3, 10)):
                h = rng.choice(["vec", "one", "one", "revert", "same", "change", "change", "bound"])
                d = round(rng.uniform(-0.05, 0.3), 3)
                if h == "vec":
                    steps.append(["vec", [round(rng.uniform(-0.05, 0.3), 3) for _ in range(rng.randint(1, 3))]])
                elif h in ("one", "change"):
                    steps.append([h, rng.randint(0, 9), rng.choice([d, d, 0.0])])
                elif h == "bound":
                    steps.append(["bound", rng.randint(0, 9), rng.choice(["lo", "lo", "hi"])])
                else:
                    steps.append([h])
            if rng.random() < 0.5:
                # the session ENDS with one or two parameters on a bound
                steps += [["bound", rng.randint(0, 9), rng.choice(["lo", "lo", "hi"])] for _ in range(rng.randint(1, 2))]
            ops.append(dict(op="calc", steps=steps))
        elif w < 0.95:
            ops.append(dict(op="roundtrip"))
        else:
            ops.append(rng.choice([dict(op="refresh"), dict(op="optimise", evals=rng.choice([0, 1, 3, 6]))]))
    if raising:
        k = rng.randint(0, len(ops))
        ops.insert(k, dict(op="postponed", body=[dict(what="par", par="length", edges=[edges[0]], value=0.9, const=False, indep=True)],
                           raises=True))
        ops.append(dict(op="set", s=dict(what="par", par="length", edges=[edges[1]], value=0.77, const=False, indep=True)))
    return dict(kind="lf", block=block, spec=spec, edges=edges, ops=ops)


def lf_exhaustive_block(tier):
    """every sequence of `depth` operations over a fixed alphabet on one small function (set -> revert -> set,
    free -> constant -> free, batched block, optimiser session with undo, motif probabilities)"""
    tree, edges = TREES[0]
    spec = dict(tree=tree, model="HKY85", length=60, aln_seed=2)
    par = lambda **kw: dict(dict(what="par", edges=None, bins=None, const=False, indep=False), **kw)
    alphabet = [
        dict(op="set", s=par(par="kappa", value=3.0)),
        dict(op="set", s=par(par="kappa", value=3.0, const=True)),
        dict(op="set", s=par(par="length", edges=["a"], value=0.5, indep=True)),
        dict(op="set", s=par(par="length", edges=["a"], value=0.1, indep=True)),          # back to the initial value
        dict(op="postponed", raises=False, body=[par(par="length", edges=["b"], value=0.4, indep=True),
                                                 par(par="kappa", edges=["a", "b"], value=2.0)]),
        dict(op="calc", steps=[["one", 0, 0.1], ["revert"], ["change", 1, 0.2], ["change", 1, 0.0], ["vec", [0.05, 0.0]]]),
        dict(op="set", s=dict(what="mprobs", value=[0.1, 0.2, 0.3, 0.4])),
        dict(op="set", s=par(par="length", edges=["c"], value=0.0, indep=True)),            # free, exactly on the lower bound
        dict(op="set", s=par(par="length", edges=["b"], value=0.0, const=True)),            # constant 0
        dict(op="set", s=par(par="length", edges=["a", "c"], value=12.5)),                  # beyond the upper bound: clipped to 10
        dict(op="calc", steps=[["one", 1, 0.1], ["bound", 2, "lo"], ["bound", 0, "hi"]]),   # session ends on two bounds
    ]
    depth = 2 if tier == "quick" else 3
    # a 7-operation sub-alphabet (free / constant, set -> set, batched block, free length exactly 0, a value beyond
    # a bound, optimiser session ending on bounds) at full depth; thorough adds all pairs over the 11 operations
    sub = [alphabet[i] for i in (0, 1, 2, 4, 7, 9, 10)]
    hists = list(itertools.product(sub, repeat=depth))
    if tier != "quick":
        hists += [h for h in itertools.product(alphabet, repeat=2) if not all(o in sub for o in h)]
    cases = [dict(kind="lf", block="exhaustive", spec=spec, edges=edges, ops=[dict(o) for o in hist] + [dict(op="roundtrip")])
             for hist in hists]
    # scopes over two dimensions (edge x bin): every sequence of rules tying / splitting / fixing sub-scopes
    spec2 = dict(tree=tree, model="HKY85", length=60, aln_seed=1, bins=2)
    alpha2 = [
        dict(op="set", s=par(par="kappa", value=2.0)),                                            # everything tied
        dict(op="set", s=par(par="kappa", edges=["a"], bins=["bin0"], value=5.0)),                # one corner
        dict(op="set", s=par(par="kappa", edges=["a", "b"], value=3.0, indep=True)),              # split by edge AND bin
        dict(op="set", s=par(par="kappa", bins=["bin1"], value=1.5, const=True)),                 # a constant slab
        dict(op="set", s=par(par="kappa", edges=["b", "c"], bins=["bin0"], value=4.0)),           # a tied sub-box
        dict(op="calc", steps=[["one", 2, 0.1], ["bound", 3, "lo"]]),
    ]
    cases += [dict(kind="lf", block="exhaustive-bins", spec=spec2, edges=edges, ops=[dict(o) for o in hist])
              for hist in itertools.product(alpha2, repeat=depth)]
    return cases


def lf_refused_rule_block(rng, tier):
    """(A) a rule that expands to several scopes and is refused with ValueError because ONE of them has incompatible
    bounds; the caller catches; afterwards (immediately, after another accepted rule, after make_calculator(), after a
    short optimise()) everything must equal a function rebuilt from the accepted rules only.  Every edge / cell in
    turn is the tightly bounded one."""
    par = lambda **kw: dict(dict(what="par", edges=None, bins=None, const=False, indep=False), **kw)
    follow = [[dict(op="roundtrip")], [dict(op="refresh")], [dict(op="optimise", evals=2)],
              [dict(op="set", s=par(par="kappa", value=2.0))], [dict(op="set", s=par(par="length", edges=["b"], value=0.4, indep=True))]]
    cases = []
    tree, edges = TREES[1]
    for k, e in enumerate(edges):
        for j, f in enumerate(follow):
            if tier == "quick" and (k + j) % 2:
                continue
            spec = dict(tree=tree, model="HKY85", length=60, aln_seed=(k + j) % 4)
            ops = [dict(op="set", s=par(par="length", edges=[e], value=1.0, upper=2.0, indep=True)),
                   dict(op="set", s=par(par="length", value=4.0, lower=3.0, indep=True))]        # refused: lower 3 > upper 2 at e
            ops += [dict(o) for o in f] + [dict(op="refresh")]
            cases.append(dict(kind="lf", block="refused-rules", spec=spec, edges=edges, ops=ops))
    # a refused rule over edge x bin cells, the tight cell in every position
    tree, edges = TREES[0]
    for e in edges:
        for b in ("bin0", "bin1"):
            spec = dict(tree=tree, model="HKY85", length=60, aln_seed=1, bins=2, dist="gamma")
            ops = [dict(op="set", s=par(par="kappa", edges=[e], bins=[b], value=1.5, upper=2.0)),
                   dict(op="set", s=par(par="kappa", value=4.0, lower=3.0, indep=True)),
                   dict(op="refresh"),
                   dict(op="set", s=par(par="kappa", edges=[edges[0]], value=1.2))]
            cases.append(dict(kind="lf", block="refused-rules", spec=spec, edges=edges, ops=ops))
    # random mixtures: tightened bounds, wide rules with a raised lower bound (some refused), refreshes
    for _ in range(8 if tier == "quick" else 150):
        tree, edges = rng.choice(TREES)
        spec = dict(tree=tree, model=rng.choice(["HKY85", "F81"]), length=60, aln_seed=rng.randint(0, 3))
        ops = []
        for _ in range(rng.randint(4, 8)):
            w = rng.random()
            if w < 0.3:
                ops.append(dict(op="set", s=par(par="length", edges=sorted(rng.sample(edges, rng.randint(1, 2))), value=round(rng.uniform(0.1, 1.9), 2),
                                                upper=2.0, indep=rng.random() < 0.7)))
            elif w < 0.55:
                E = None if rng.random() < 0.5 else sorted(rng.sample(edges, rng.randint(2, len(edges))))
                ops.append(dict(op="set", s=par(par="length", edges=E, value=round(rng.uniform(3.0, 5.0), 2), lower=rng.choice([1.0, 3.0]),
                                                indep=rng.random() < 0.7)))
            elif w < 0.7:
                ops.append(dict(op="set", s=par(par="length", edges=[rng.choice(edges)], value=round(rng.uniform(0.1, 1.0), 2), indep=True)))
            elif w < 0.85:
                ops.append(rng.choice([dict(op="refresh"), dict(op="optimise", evals=rng.choice([0, 2]))]))
            else:
                ops.append(dict(op="roundtrip"))
        cases.append(dict(kind="lf", block="refused-rules", spec=spec, edges=edges, ops=ops))
    return cases


def lf_hidden_partition_corpus():
    """witnesses of the known finding lf:roundtrip:hidden-partition (get_param_rules omits rate_partition of
    distribution='free'): the ONLY cases where the round trip is evaluated without handing the hidden partition over"""
    tree, edges = TREES[0]
    out = []
    for nb, op in ((2, dict(op="calc", steps=[["vec", [0.1, 0.05, 0.02]], ["one", 0, 0.2], ["revert"], ["one", 1, 0.15]])),
                   (3, dict(op="optimise", evals=4)),
                   (2, dict(op="optimise", evals=6))):
        spec = dict(tree=tree, model="HKY85", length=60, aln_seed=nb, bins=nb, dist="free")
        out.append(dict(kind="lf", block="corpus-hidden-partition", spec=spec, edges=edges, plain_hidden=True, ops=[op, dict(op="roundtrip")]))
    return out


def lf_hidden_partition_block(rng, tier):
    """(B) models with optimisable partitions that are not user parameters (ordered_param='rate', distribution='free'):
    optimiser sessions / optimise(max_evaluations=small) / update_from_calculator, then settings"""
    par = lambda **kw: dict(dict(what="par", edges=None, bins=None, const=False, indep=False), **kw)
    tree, edges = TREES[0]
    alphabet = [
        dict(op="calc", steps=[["vec", [0.1, 0.05, 0.02]], ["one", 0, 0.2], ["revert"], ["one", 1, 0.15]]),
        dict(op="optimise", evals=4),
        dict(op="set", s=par(par="kappa", value=2.5)),
        dict(op="set", s=par(par="length", edges=["a"], value=0.4, indep=True)),
        dict(op="refresh"),
    ]
    cases = []
    for nb in (2, 3):
        spec = dict(tree=tree, model="HKY85", length=60, aln_seed=nb, bins=nb, dist="free")
        hists = itertools.product(alphabet, repeat=2) if tier == "quick" else itertools.product(alphabet, repeat=3)
        hists = list(hists)
        if tier == "quick":
            hists = [h for h in hists if h[0]["op"] in ("calc", "optimise")]
        cases += [dict(kind="lf", block="hidden-partitions", spec=spec, edges=edges, ops=[dict(o) for o in h]) for h in hists]
    return cases


GS_P = [0.17241379310344826, 0.043103448275862065, 0.7758620689655171, 0.008620689655172414]


def lf_rejection_block(rng, tier):
    """GeneralStationary: settings that the model rejects (inadmissible rate / motif-probability combinations), the
    caller catches the exception and goes on; later settings repair the combination.  All sequences over a small
    alphabet + random ones."""
    tree, edges = TREES[0]
    par = lambda **kw: dict(dict(what="par", edges=None, bins=None, const=False, indep=False), **kw)
    alphabet = [
        dict(op="set", s=par(par="C>T", value=0.05)),
        dict(op="set", s=par(par="C>T", value=1.0)),
        dict(op="set", s=dict(what="mprobs", value=GS_P)),
        dict(op="set", s=dict(what="mprobs", value=[0.25, 0.25, 0.25, 0.25])),
        dict(op="set", s=par(par="T>C", value=20.0)),
        dict(op="set", s=par(par="length", edges=["a"], value=0.5, indep=True)),
    ]
    cases = []
    for seed in (1, 2):
        spec = dict(tree=tree, model="GS", length=60, aln_seed=seed)
        hists = list(itertools.product(alphabet[:4], repeat=3)) if tier == "quick" else list(itertools.product(alphabet, repeat=3))
        if seed == 2:
            hists = hists[:: 2 if tier == "quick" else 1]
        cases += [dict(kind="lf", block="rejections", spec=spec, edges=edges, tolerant=True, ops=[dict(o) for o in h]) for h in hists]
    rates = ["A>G", "A>C", "C>G", "C>A", "A>T", "C>T", "T>G", "T>A", "T>C"]
    for _ in range(10 if tier == "quick" else 150):
        spec = dict(tree=tree, model="GS", length=60, aln_seed=rng.randint(0, 3))
        ops = []
        for _ in range(rng.randint(4, 8)):
            if rng.random() < 0.35:
                p = [rng.choice([0.01, 0.05, 0.2, 0.5, 0.9]) for _ in range(4)]
                ops.append(dict(op="set", s=dict(what="mprobs", value=[x / sum(p) for x in p])))
            elif rng.random() < 0.8:
                ops.append(dict(op="set", s=par(par=rng.choice(rates), value=rng.choice([0.05, 0.2, 1.0, 1.0, 5.0, 20.0, 100.0]))))
            else:
                ops.append(dict(op="postponed", raises=False, body=[par(par=rng.choice(rates), value=rng.choice([0.05, 1.0, 20.0])),
                                                                    par(par="length", edges=[rng.choice(edges)], value=0.3, indep=True)]))
        cases.append(dict(kind="lf", block="rejections", spec=spec, edges=edges, tolerant=True, ops=ops))
    return cases


# ------------------------------------------------------------------ rendering for Coq

def zl(xs):
    return "[" + ";".join(zlit(int(x)) for x in xs) + "]"


def coq_case(c, fin, retain=True):
    if c["kind"] == "calc":
        cells = "[" + ";".join(f"({k},{zlit(cc)},{zl(a)},{cbool(rec)})" for k, cc, a, rec in c["cells"]) + "]"
        ops = []
        for kind, arg in c["ops"]:
            if kind == "change":
                ops.append("ZChange [" + ";".join(f"({i},{zlit(v)})" for i, v in arg) + "]")
            else:
                ops.append("ZVec " + zl(arg))
        return f"ACalc ({cells}, {zl(c['inp0'])}, [" + ";".join(ops) + "])"
    ds = "[" + ";".join(f"({k},{zlit(cc)},{zl(a)})" for k, cc, a in c["defns"]) + "]"
    ops = []
    for o in c["ops"]:
        if o[0] == "assign":
            ops.append(f"ZAssign {o[1]} {zlit(o[2])}")
        else:
            ops.append("ZPost [" + ";".join(f"({d},{zlit(v)})" for d, v in o[1]) + f"] {cbool(o[2])}")
    return f"ACtl ({cbool(fin)}, {cbool(retain)}, {ds}, {zl(c['asg'])}, [" + ";".join(ops) + "])"


def permute_ctl(c, order):
    """renumber the definitions in the controller's own topological order (order[new] = old)"""
    new_of = {old: new for new, old in enumerate(order)}
    ds = [[c["defns"][old][0], c["defns"][old][1], [new_of[a] for a in c["defns"][old][2]]] for old in order]
    asg = [c["asg"][old] for old in order]
    ops = []
    for o in c["ops"]:
        if o[0] == "assign":
            ops.append(["assign", new_of[o[1]], o[2]])
        else:
            ops.append(["post", [[new_of[d], v] for d, v in o[1]], o[2]])
    return dict(c, defns=ds, asg=asg, ops=ops)


def run_model(cases, fin, retain=True, impl=None):
    terms = []
    for k, c in enumerate(cases):
        if c["kind"] == "ctl" and impl is not None and isinstance(impl[k], list) and impl[k] and impl[k][0][0] == "order":
            c = permute_ctl(c, impl[k][0][1])
        terms.append(coq_case(c, fin, retain))
    return core.coq_eval(PROP, ["Model.Calc", "Model.CalcRun"], "run_any", terms, "anycase", shard=120)


# ------------------------------------------------------------------ comparison

def norm_impl_calc(ir):
    return from_jsonable(ir)


def check_calc(rep, c, ir, mr, stats):
    """returns a disagreement dict or None"""
    ir = from_jsonable(ir)
    orc = calc_oracle(c, [st[2][1] for st in ir[1:]] if isinstance(ir, list) else None)
    if isinstance(ir, dict) and "exc" in ir:
        rep.violation("calc:runner-raised", dict(case=c, observed_impl=ir, broken="the real Calculator raised an unexpected exception / hung"))
        return None
    if orc == "init-fails":
        if ir != Exc(9):
            rep.violation("calc:init", dict(case=c, expected_by_spec="initial evaluation raises", observed_impl=jsonable(ir),
                                            model_output=jsonable(mr), broken="Calculator construction"))
        return None if ir == mr else dict(key="calc:init", case=c, observed_impl=jsonable(ir), model_output=jsonable(mr))
    if ir == Exc(9):
        rep.violation("calc:init", dict(case=c, expected_by_spec="initial evaluation succeeds", observed_impl=jsonable(ir),
                                        model_output=jsonable(mr), broken="Calculator construction"))
        return None
    nontrivial = False
    for k, (op, exp) in enumerate(zip(c["ops"], orc)):
        res, log, st = ir[k + 1]
        prev = ir[k][2] if k else ir[0]
        sw, lastv, undo, b0, b1, alias = st
        # non-trivial: the undo pre-step fired (all of last_undo among the requested changes) or a recycled cell was recomputed
        pundo, plast = prev[2], prev[1]
        req = [list(p) for p in op[1]] if op[0] == "change" else [[i, v] for i, (o, v) in enumerate(zip(plast, op[1])) if o != v]
        if pundo and all(u in req for u in pundo):
            nontrivial = True
            stats["undo_hits"] += 1
        if any(c["cells"][r][3] for r in log):
            stats["recycled_evals"] += 1
        if res == Exc(9):
            stats["exceptions"] += 1
        stats["steps"] += 1
        if exp is None:
            stats["outside_domain_steps"] += 1
            continue
        e_res, e_vals, e_x = exp
        curbuf = b1 if sw else b0
        shape = None
        if res != e_res:
            shape = "exception-mismatch" if (res == Exc(9)) != (e_res == Exc(9)) else "stale-value"
        elif curbuf != e_vals:
            shape = "stale-cell"
        elif lastv != e_x:
            shape = "last-values"
        if shape:
            small = dict(c, ops=c["ops"][: k + 1])
            rep.violation(f"calc:{shape}:{op[0]}", dict(case=small, step=k, expected_by_spec=jsonable([e_res, e_vals, e_x]),
                                                        observed_impl=jsonable([res, curbuf, lastv]),
                                                        model_output=jsonable(mr[k + 1] if isinstance(mr, list) and len(mr) > k + 1 else mr),
                                                        broken="value of the incremental Calculator differs from a fresh evaluation of the same DAG"))
            return None
    if nontrivial:
        stats["nontrivial"].add(json.dumps([c["cells"], c["inp0"], c["ops"]]))
    if ir != mr:
        k = next((i for i, (a, b) in enumerate(zip(ir, mr)) if a != b), None) if isinstance(mr, list) else None
        return dict(key="calc:state", case=c, step=k, observed_impl=jsonable(ir[k] if k is not None else ir),
                    model_output=jsonable(mr[k] if k is not None else mr))
    return None


def check_ctl(rep, c, ir, mr, stats):
    ir = from_jsonable(ir)
    if isinstance(ir, dict) and "exc" in ir:
        rep.violation("ctl:runner-raised", dict(case=c, observed_impl=ir, broken="the real ParameterController raised"))
        return None
    order = ir[0][1]
    ir = ir[1:]
    if isinstance(mr, list) and mr and isinstance(mr[0], list) and mr[0] and mr[0][0] == "order":
        mr = mr[1:]                      # (model unavailable: the implementation's own output was passed)
    elif isinstance(mr, list):
        # the model ran on the case renumbered in the controller's order: map its values back
        mr = [[[st[0][order.index(d)] for d in range(len(order))], st[1]] for st in mr]
    orc = ctl_oracle(c)
    raised = False
    rejected = False
    for k, exp in enumerate(orc):
        if k and c["ops"][k - 1][0] == "post" and c["ops"][k - 1][2]:
            raised = True
        stats["steps"] += 1
        if exp is None:
            stats["ctl_inadmissible_steps"] += 1
            rejected = True
            continue
        if rejected:
            stats["ctl_repairs"] += 1
            rejected = False
        if ir[k][0] != exp:
            key = "postponed-exception:stale" if raised else f"ctl:stale:{c['ops'][k - 1][0] if k else 'init'}"
            rep.violation(key, dict(case=dict(c, ops=c["ops"][:k]), step=k, expected_by_spec=exp, observed_impl=jsonable(ir[k]),
                                    model_output=jsonable(mr[k] if isinstance(mr, list) and len(mr) > k else mr),
                                    broken="definition values differ from a fresh evaluation after this history"
                                           + (" (an exception inside `with updates_postponed()` left updates suspended)" if raised else "")))
            break
    if len(c["ops"]) >= 2:
        stats["nontrivial"].add(json.dumps([c["defns"], c["asg"], c["ops"]]))
    if ir != mr:
        return dict(key="ctl:state", case=c, observed_impl=jsonable(ir), model_output=jsonable(mr))
    return None


# kind -> keys [value, is_constant, init, lower, upper] of the exported rule (theorem rules_export_keeps_every_key);
# run() overwrites the entries with what the Coq model computes
RULE_KEYS = {"const": [True, True, False, False, False], "var": [False, False, True, True, True], "nvar": [False, False, True, False, False]}


def check_lf(rep, c, ir, stats):
    if isinstance(ir, dict) and "exc" in ir:
        rep.violation("lf:runner-raised:" + re.sub(r"[0-9.]+", "N", (ir.get("tb") or "").strip().split("\n")[-1])[:70],
                      dict(case=c, observed_impl=ir, broken="a valid history made the likelihood function raise or hang"))
        return
    raised = False
    was_rejected = False
    for k, (tag, lnl, f_lnl, nfp, f_nfp, extra, rt, tabs) in enumerate(ir):
        stats["lf_steps"] += 1
        if tag == "postponed-raise":
            raised = True
        if tag.endswith(":rejected"):
            stats["lf_rejected_rules"] += 1
        if tag in ("refresh", "optimise"):
            stats["lf_refresh_steps"] += 1
        if f_lnl is None:
            stats["lf_inadmissible_steps"] += 1      # the newly built function rejects these settings too
            was_rejected = True
            continue
        if c.get("tolerant") and was_rejected:
            stats["lf_repairs"] += 1
            was_rejected = False
        bad = None
        if any(t.get("stale") for t in (tabs or {}).values()):
            bad = "assignments-ahead-of-index"      # settings were assigned by a call that did not complete / update
        elif abs(lnl - f_lnl) > TOL * max(1.0, abs(f_lnl)):
            bad = "lnL"
        elif nfp != f_nfp:
            bad = "nfp"
        elif extra and extra.get("worst", 0.0) > TOL:
            bad = "calc-step"
        elif extra and extra.get("writeback", 0.0) > TOL:
            bad = "writeback"           # after update_from_calculator the function does not report the calculator's value
        elif extra and extra.get("reread", 0.0) > TOL:
            bad = "reread"              # the reported value changes when every definition is updated again
        elif extra and extra.get("rejection_mismatch"):
            bad = "rule-rejection"      # a rule was refused / accepted against the bounds it meets
        if extra:
            stats["lf_calc_steps"] += extra.get("nsteps", 0)
        if bad:
            key = "postponed-exception:stale" if raised else f"lf:{bad}:{tag}"
            rep.violation(key, dict(case=c, step=k, expected_by_spec=dict(lnL=f_lnl, nfp=f_nfp), observed_impl=dict(lnL=lnl, nfp=nfp, extra=extra),
                                    broken="likelihood function value differs from a newly built function given the same final settings"
                                           + (" (an exception inside `with lf.updates_postponed()` left updates suspended)" if raised else "")))
            return
        if rt is None:
            continue
        # rule export -> new function -> import: lnL, nfp and every parameter value
        stats["roundtrips"] += 1
        stats["rt_params"] += rt["nparams"]
        for par, const, keys, i0, ilo, ihi, v0, vec0 in rt["rules"]:
            stats["rules"] += 1
            stats["rules_init_zero"] += int(i0)
            stats["rules_init_at_lower"] += int(ilo)
            stats["rules_init_at_upper"] += int(ihi)
            stats["rules_const_zero"] += int(v0)
            stats["rules_vector_with_zero"] += int(vec0)
            vector = par in ("mprobs", "bprobs") or par.endswith("_partition")
            kind = "const" if const else "var" if keys[3] or keys[4] or not vector else "nvar"
            want = RULE_KEYS.get(kind)
            if want is not None and keys != want:
                rep.violation(f"lf:rule-keys:{kind}", dict(case=dict(c, ops=c["ops"][:k]), step=k, expected_by_spec=want, observed_impl=[par, keys],
                                                            broken="an exported rule lacks a key Setting.get_param_rule_dict always emits "
                                                                   "(Model.Calc.export / rules_export_keeps_every_key)"))
                break
        rbad = None
        both_inf = rt["lnL"] == lnl      # covers -inf == -inf
        comp = rt.get("compensated")
        if (comp is not None and rt["worst"] > TOL and rt["which"] and str(rt["which"][0]).split("#")[0].endswith("_partition")
                and rt["nfp"] == nfp and comp["nfp"] == nfp and comp["worst"] <= TOL
                and (comp["lnL"] == lnl or abs(comp["lnL"] - lnl) <= TOL * max(1.0, abs(lnl)))):
            # ONLY this: the rules omit an optimisable partition that is not a user parameter, and supplying that
            # partition makes the rebuilt function identical (lnL, nfp, every value).  Anything else is a real alarm.
            rbad = "hidden-partition"
        elif rt["worst"] > TOL and rt["which"] and str(rt["which"][0]).split("#")[0] in ("mprobs", "bprobs"):
            rbad = "probability-vector"          # the export altered a probability vector (adjusted_gt_minprob)
        elif not both_inf and abs(rt["lnL"] - lnl) > TOL * max(1.0, abs(lnl)):
            rbad = "lnL"
        elif rt["nfp"] != nfp:
            rbad = "nfp"
        elif rt["worst"] > TOL:
            rbad = "param"
        if rbad and not raised and rbad not in ("probability-vector", "hidden-partition") and any(non_box_groups(t["cells"]) for t in tabs.values()):
            rbad = "non-box-tie-group"      # the exported scope of a tie group is the bounding box of its cells
        if rbad and not raised:
            rep.violation(f"lf:roundtrip:{rbad}", dict(case=dict(c, ops=c["ops"][:k]), step=k, expected_by_spec=dict(lnL=lnl, nfp=nfp),
                                                        observed_impl=dict(lnL=rt["lnL"], nfp=rt["nfp"], worst_param=rt["which"]),
                                                        broken="get_param_rules -> new function -> apply_param_rules does not reproduce the "
                                                               "source function (lnL / nfp / a parameter value)"))
            return
    if len(ir) > 3:
        stats["nontrivial"].add(json.dumps(c, sort_keys=True))


def rule_model_cases():
    """settings with boundary values (scaled by 1000) pushed through the Coq export/import model: (numeric, target, source)"""
    srcs = [(0, 0, 0, 0), (0, 0, 500, 0), (1, 0, 0, 10000), (1, 0, 10000, 10000), (1, 0, 250, 10000), (1, 0, 0, 0), (2, 0, 0, 0), (2, 0, 250, 0)]
    curs = [(1, 0, 100, 10000), (0, 0, 300, 0), (1, 50, 100, 200)]
    out = []
    for sk in srcs:
        for ck in curs:
            numeric = sk[0] != 2 and ck[0] != 2
            if sk[0] == 2:
                ck = (2, 0, 100, 0)
            out.append((numeric, ck, sk))
    return out


def run_rule_model(rep):
    cases = rule_model_cases()
    z = lambda t: "(" + ",".join(zlit(x) for x in t) + ")"
    res = core.coq_eval(PROP, ["Model.Calc", "Model.CalcRun"], "run_any",
                        [f"ARule ({cbool(n)}, {z(c)}, {z(sk)})" for n, c, sk in cases], "anycase", shard=200, tag="r")
    bad = []
    for (n, c, sk), (keys, got) in zip(cases, res):
        kind = {0: "const", 1: "var", 2: "nvar"}[sk[0]]
        RULE_KEYS[kind] = keys
        want = [0, sk[2]] if sk[0] == 0 else [1, sk[1], sk[2], sk[3]] if sk[0] == 1 else [2, sk[2]]
        if got != want:
            bad.append(dict(key="rule-model", case=dict(numeric=n, target=c, source=sk), model_output=jsonable(got), expected=want))
    return bad


# ------------------------------------------------------------------ scope tables: real definitions vs Model.CalcScope

DIMS = ("edge", "bin", "locus")


def non_box_groups(cells):
    """plain check: groups of a table whose cell set is not the product of its projections"""
    groups = {}
    for k, idx, *_ in cells:
        groups.setdefault(idx, []).append(tuple(k))
    keys = {tuple(k) for k, *_ in cells}
    bad = []
    for idx, ks in groups.items():
        proj = [sorted({k[d] for k in ks}) for d in range(len(ks[0]))]
        box = {k for k in keys if all(k[d] in proj[d] for d in range(len(k)))}
        if box != set(ks):
            bad.append(idx)
    return bad


def scope_model_cases(c, ir, fin, chrono):
    """for one likelihood-function history: one model case per numeric parameter.
    returns [(par, coq term, expected observations per step)]"""
    if isinstance(ir, dict) or not ir or len(ir[0]) < 8:
        return []
    out = []
    # align the operations with the records (record 0 = init)
    steps = []
    for o in c["ops"]:
        if o["op"] == "set":
            steps.append(("rules", [o["s"]] if o["s"]["what"] == "par" else []))
        elif o["op"] == "postponed":
            if o["raises"] and not fin:
                break                      # the tables are stale from here on (reported by the oracle)
            steps.append(("rules", [x for x in o["body"] if x["what"] == "par"]))
        elif o["op"] in ("calc", "optimise"):
            steps.append(("calc", None))
        else:
            steps.append(("rules", []))
    steps = steps[: len(ir) - 1]
    for par, t0 in ir[0][7].items():
        dims = t0["dims"]
        cats = {d: sorted({k[dims.index(d)] for k, *_ in t0["cells"]}) for d in dims}
        floats = {t0["lower"], t0["upper"]}
        for rec in ir[: len(steps) + 1]:
            for tab in (rec[7][par], rec[6]["tables"][par]):
                for _, _, _, lo, v, hi, *_ in tab["cells"]:
                    floats.update(x for x in (lo, v, hi) if x is not None)
            for r in rec[6]["canon"].get(par, []):
                floats.update(x for x in (r["value"], r["lower"], r["upper"]) if x is not None)
        for kind, rules in steps:
            for r in rules or []:
                if r["par"] == par:
                    floats.update(float(r[x]) for x in ("value", "lower", "upper") if r.get(x) is not None)
        rank = {x: i for i, x in enumerate(sorted(floats))}

        def cnum(k):
            return tuple(cats[d].index(k[dims.index(d)]) if d in dims else 0 for d in DIMS)

        def row(cell):
            k, idx, const, lo, v, hi = cell[:6]
            return list(cnum(k)) + [idx, const, None if lo is None else rank[lo], rank[v], None if hi is None else rank[hi]]

        def obs(rec):
            tab, rt = rec[7][par], rec[6]
            rules = []
            for r in rt["canon"].get(par, []):
                sc = [[cats[d].index(x) for x in r["scope"][d]] if d in r["scope"] else None for d in DIMS]
                rules.append(sc + [r["indep"], r["const"], rank[r["value"]], None if r["lower"] is None else rank[r["lower"]],
                                   None if r["upper"] is None else rank[r["upper"]]])
            new = rt["tables"][par]
            return [[row(x) for x in tab["cells"]], tab["nfp"], rules, [[row(x) for x in new["cells"]], new["nfp"]]]

        def zopt(x):
            return "None" if x is None else f"(Some {zlit(x)})"

        def zl_opt(names, d):
            if not names or d not in dims:
                return "None"
            return "(Some [" + ";".join(str(cats[d].index(n)) for n in names) + "])"

        ops, marks = [], []
        ok = True
        for j, (kind, rules) in enumerate(steps):
            if kind == "calc":
                tab = ir[j + 1][7][par]
                upd = ";".join(f"(({','.join(map(str, cnum(k)))}), {zlit(rank[v])})" for k, _, const, _, v, *_ in tab["cells"] if not const)
                ops.append(f"ZUpdate [{upd}]")
            else:
                mine = [r for r in rules if r["par"] == par]
                if any(r.get("bins") and "bin" not in dims for r in mine):
                    ok = False
                    break
                for r in mine:
                    ind = "None" if r.get("const") else f"(Some {cbool(bool(r.get('indep')))})"
                    ops.append(f"ZRule (({zl_opt(r.get('edges'), 'edge')}, {zl_opt(r.get('bins'), 'bin')}, None), {ind}, {cbool(bool(r.get('const')))}, "
                               f"(Some {zlit(rank[float(r['value'])])}), "
                               f"{'None' if r.get('const') or r.get('lower') is None else '(Some ' + zlit(rank[float(r['lower'])]) + ')'}, "
                               f"{'None' if r.get('const') or r.get('upper') is None else '(Some ' + zlit(rank[float(r['upper'])]) + ')'})")
                if not mine:
                    ops.append("ZUpdate []")
            marks.append(len(ops))      # index (1-based) of the model observation that closes this step
        if not ok:
            continue
        # identity of the initial settings: creation order when the source exposes it (chrono export), else group index
        serials = sorted({x[6] for x in t0["cells"] if len(x) > 6 and x[6] is not None})
        ident = (lambda x: serials.index(x[6])) if chrono and serials else (lambda x: x[1])
        t0z = ";".join(f"(({','.join(map(str, cnum(x[0])))}), ({ident(x)},{cbool(x[2])},{zlit(rank[x[3]] if x[3] is not None else rank[x[4]])},"
                       f"{zlit(rank[x[4]])},{zlit(rank[x[5]] if x[5] is not None else rank[x[4]])}))" for x in t0["cells"])
        term = (f"AScope ({zlit(rank[t0['lower']])}, {zlit(rank[t0['upper']])}, {cbool(t0['indep_default'])}, {cbool(chrono)}, "
                f"[{t0z}], [{';'.join(ops)}])")
        expected = [obs(ir[0])] + [obs(ir[j + 1]) for j in range(len(steps))]
        out.append((par, term, expected, [0] + marks))
    return out


def check_scope_tables(rep, lfs, impl_l, fin, chrono, stats):
    """model (vm_compute) vs the real definitions: table, nfp, exported rules, imported table after every step"""
    todo = []
    for ci, (c, ir) in enumerate(zip(lfs, impl_l)):
        for par, term, expected, marks in scope_model_cases(c, ir, fin, chrono):
            todo.append((ci, par, term, expected, marks))
    if not todo:
        return []
    res = core.coq_eval(PROP, ["Model.Calc", "Model.CalcScope", "Model.CalcRun"], "run_any", [t[2] for t in todo], "anycase", shard=60, tag="s")
    dis = []
    for (ci, par, term, expected, marks), mr in zip(todo, res):
        stats["scope_cases"] += 1
        for j, (exp, mk) in enumerate(zip(expected, marks)):
            if not isinstance(mr, list) or mk >= len(mr):
                got = mr if not isinstance(mr, list) else mr[-1]
            else:
                got = mr[mk]
            stats["scope_steps"] += 1
            stats["scope_cells"] += len(exp[0])
            if chrono and isinstance(got, list) and len(got) == 4:
                got = [got[0], got[1], sorted(got[2], key=repr), got[3]]
                exp = [exp[0], exp[1], sorted(exp[2], key=repr), exp[3]]
            if got != exp:
                which = next((n for n, (a, b) in zip(("table", "nfp", "exported-rules", "imported-table"), zip(got, exp)) if a != b), "step") \
                    if isinstance(got, list) and len(got) == 4 else "failed"
                dis.append(dict(key=f"scope:{which}", case=lfs[ci], parameter=par, step=j, observed_impl=jsonable(exp), model_output=jsonable(got)))
                break
    return dis


# ------------------------------------------------------------------ the check

def new_stats():
    return dict(steps=0, undo_hits=0, recycled_evals=0, exceptions=0, outside_domain_steps=0, lf_steps=0, lf_calc_steps=0,
                roundtrips=0, rt_params=0, rules=0, rules_init_zero=0, rules_init_at_lower=0, rules_init_at_upper=0,
                rules_const_zero=0, rules_vector_with_zero=0, scope_cases=0, scope_steps=0, scope_cells=0, ctl_inadmissible_steps=0, ctl_repairs=0,
                lf_inadmissible_steps=0, lf_repairs=0, lf_rejected_rules=0, lf_refresh_steps=0, nontrivial=set())


def run(tier: str, seed: int) -> int:
    rep = core.Report(PROP, tier, seed)
    rng = random.Random(seed * 7919 + 7)
    fin = source_has_finally()
    chrono = source_export_chrono()
    retain = source_retains_dirty()
    pr = core.proof_stage(PROP, COQ_TARGETS)
    core.proof_coverage(rep, pr, "make theories/Properties/C07.vo theories/Model/CalcRun.vo && coqc gen/assum_C07.v (Print Assumptions)", [
        "cell functions are abstract (Section variables f/h); the theorems hold for every choice; None = the calc raised "
        "ParameterOutOfBoundsError/ArithmeticError (the only exceptions Calculator.plain_update converts into a rolled-back "
        "CalculationInterupted; any other exception type escaping a calc leaves the real Calculator half-updated and is outside the model)",
        "object identity is modelled per rank for recycled cells only: calc functions of non-recycled cells are assumed to return "
        "new/immutable values and recycled ones to overwrite (not read) the array they are given",
        "Python == on parameter values is modelled as Leibniz equality (no NaN, no -0.0/0.0 distinction); "
        "transform_from_optimiser(transform_to_optimiser(default)) == default is a hypothesis of calc_inv_init",
        "with_undo=True, trace=False; the _programs memo table is modelled as the pure function it caches",
        "controller model: one value per definition (a definition's per-scope value list is one abstract value), defn.update() total",
        "floating point, numba kernels, matrix exponentials of the real likelihood functions are outside the theorems; they are "
        "sampled by the newly-built-function oracle with relative tolerance 1e-9",
        "scope-table model: one numeric parameter, dimensions (edge, bin, locus), plain category lists (no EACH/ALL wrappers); Setting "
        "identity = creation order; correspondence maps the floats of a case to integers order-preservingly",
        f"variants read from the source text (fail-closed): updates_postponed finally={fin}; get_param_rules creation-order export={chrono}; "
        f"_updateIntermediateValues keeps the dirty set when an update raises={retain}",
    ])
    rep.assumptions += ["change vectors name optimisable parameters (index < number of OptPars), each at most once; histories that "
                        "set a ConstCell through Calculator.change or repeat an index are compared model-vs-implementation only"]
    proof_broken = bool(pr["problems"])

    quick = tier == "quick"
    n_calc, n_const, n_ctl, n_lf = (300, 60, 150, 40) if quick else (6000, 1200, 2500, 400)
    if proof_broken:
        n_calc, n_ctl = n_calc * 3, n_ctl * 3
    cases = []
    # the raising-block region: one witness per layer (reported once; KNOWN-FINDING when listed)
    cases += [ctl_case(random.Random(101), "raising", raising=True), ctl_case(random.Random(102), "raising", raising=True)]
    cases += [lf_case(random.Random(103), "raising", raising=True)]
    cases += lf_hidden_partition_corpus()
    cases += exhaustive_block(tier)
    cases += [calc_case(rng, "random") for _ in range(n_calc)]
    cases += [calc_case(rng, "random-small", small=True, nsteps=rng.randint(4, 12)) for _ in range(n_calc // 2)]
    cases += [calc_case(rng, "random-const", with_const=True) for _ in range(n_const)]
    cases += [ctl_case(rng, "random") for _ in range(n_ctl)]
    cases += [ctl_case(rng, "random-rejections", guards=True) for _ in range(n_ctl)]
    cases += lf_rejection_block(rng, tier)
    cases += lf_refused_rule_block(rng, tier)
    cases += lf_hidden_partition_block(rng, tier)
    cases += lf_exhaustive_block(tier)
    cases += [lf_case(rng, "random") for _ in range(n_lf)]

    synth = [c for c in cases if c["kind"] != "lf"]
    lfs = [c for c in cases if c["kind"] == "lf"]
    impl_s = core.run_impl_sharded("c07_impl.py", synth)
    impl_l = core.run_impl_sharded("c07_impl.py", lfs, nshards=min(core.NPROC, max(1, len(lfs) // 4)), timeout=3000)
    model = None
    try:
        model = run_model(synth, fin, retain, impl_s)
    except core.CheckError as e:
        if not proof_broken:
            raise
        rep.notes.append(f"model not runnable: {str(e)[:300]}")

    stats = new_stats()
    disagreements = []
    if model is not None:
        disagreements += run_rule_model(rep)
    for k, (c, ir) in enumerate(zip(synth, impl_s)):
        mr = model[k] if model is not None else None
        d = (check_calc if c["kind"] == "calc" else check_ctl)(rep, c, ir, mr if mr is not None else from_jsonable(ir), stats)
        if d and model is not None:
            disagreements.append(d)
    for c, ir in zip(lfs, impl_l):
        check_lf(rep, c, ir, stats)
    if model is not None:
        disagreements += check_scope_tables(rep, lfs, impl_l, fin, chrono, stats)

    blocks = {}
    for c in cases:
        blocks[c["kind"] + ":" + c["block"]] = blocks.get(c["kind"] + ":" + c["block"], 0) + 1
    sample = next(c for c in cases if c["kind"] == "calc" and c["block"] == "random")
    rep.coverage.update(
        evaluations=stats["steps"] + stats["lf_steps"] + stats["lf_calc_steps"] + stats["roundtrips"],
        distinct_nontrivial=len(stats["nontrivial"]),
        rule="one evaluation = one step of one history (a Calculator.change / testoptparvector call, a controller assignment or "
             "postponed block, a likelihood-function setting / block / optimiser-session step), each compared with an evaluation "
             "from scratch; a synthetic Calculator history is non-trivial when at least one step takes the undo short-cut (all of "
             "last_undo re-requested); controller histories when >= 2 operations; likelihood-function histories when >= 3 steps",
        samples=[dict(case=dict(sample, ops=sample["ops"][:4]))],
        input_distribution=dict(cases=len(cases), blocks=blocks, calc_steps=stats["steps"], undo_shortcut_steps=stats["undo_hits"],
                                steps_recomputing_a_recycled_cell=stats["recycled_evals"], steps_raising=stats["exceptions"],
                                steps_outside_domain_model_vs_impl_only=stats["outside_domain_steps"],
                                lf_steps=stats["lf_steps"], lf_optimiser_steps=stats["lf_calc_steps"],
                                rule_roundtrips=stats["roundtrips"], parameter_values_compared=stats["rt_params"],
                                exported_rules=stats["rules"], exported_rules_init_exactly_0=stats["rules_init_zero"],
                                exported_rules_init_on_lower_bound=stats["rules_init_at_lower"],
                                exported_rules_init_on_upper_bound=stats["rules_init_at_upper"],
                                exported_rules_constant_exactly_0=stats["rules_const_zero"],
                                exported_probability_vectors_with_a_zero=stats["rules_vector_with_zero"],
                                controller_steps_in_a_rejected_state=stats["ctl_inadmissible_steps"],
                                controller_repairs_after_rejection=stats["ctl_repairs"],
                                lf_steps_in_a_rejected_state=stats["lf_inadmissible_steps"], lf_repairs_after_rejection=stats["lf_repairs"],
                                lf_rules_refused_for_incompatible_bounds=stats["lf_rejected_rules"],
                                lf_refresh_or_optimise_steps=stats["lf_refresh_steps"],
                                scope_table_model_cases=stats["scope_cases"], scope_table_steps_compared=stats["scope_steps"],
                                scope_table_cells_compared=stats["scope_cells"]),
        model_impl_disagreements=len(disagreements),
        partial=PARTIAL,
        exhaustive=False,
        exhaustive_block=f"synthetic Calculator: all histories of length {3 if quick else 4} over a 7-operation alphabet on "
                         f"{len(EX_GRAPHS)} fixed graphs; likelihood function: all sequences of {2 if quick else 3} operations over a "
                         "7-operation alphabet (thorough: plus all pairs over 11 operations) (HKY85, 3 taxa; incl. free length exactly 0.0, constant 0, a value beyond a bound, optimiser session ending on bounds), "
                         "rule export/import round trip after every step",
    )
    core.conclude(rep, pr, f"{len(cases)} histories against evaluation from scratch", disagreements[:5],
                  "Model.CalcRun.run_any vs cogent3.recalculation Calculator / ParameterController", tier, PROP)
    return rep.finish("proof")


PARTIAL = [
    "rule export/import: proved per setting (rules_roundtrip_setting, rules_export_keeps_every_key) and at the scope level for ONE "
    "numeric parameter (scope_rules_roundtrip: same cell->value map, partition and nfp) under the hypothesis that every tie group is a "
    "box and that bounds are the parameter's class bounds; the non-box case is refuted (scope_roundtrip_nonbox_refuted). Probability-vector "
    "parameters (mprobs, bprobs) and the summation of nfp over parameters are sampled: after EVERY step of every LF history the exported "
    "rules are applied to a new function and lnL, nfp and every parameter value are compared",
    "scope tables: scope_history_refines covers rules with an explicit value and bounds None / the class bounds; rules with value=None "
    "(mean of the current values) or user-changed bounds are modelled (executable, compared by vm_compute) but not covered by the theorem",
    "set_alignment / set_motif_probs: the mapping of these calls to leaf assignments is sampled by the LF histories against a newly "
    "built function, not modelled; the scoped set_param_rule path IS modelled (Model/CalcScope.v) and compared cell by cell",
    "Calculator.change on a non-optimiser cell (ConstCell rank) or with a repeated index: outside wf_op; compared "
    "model-vs-implementation only (the model reproduces the stale result of the dead `undo is invalid` guard, see "
    "Proofs/CalcProofs.v nonparameter_change_undo_stale)",
    "after a change that raised, the theorems state that the calculator is left consistent at SOME vector (the one in "
    "last_values), not that this is the vector before the call (it can be the undone vector)",
]


def replay(path: str) -> int:
    d = json.loads(open(path).read())
    if "case" not in d:
        print("replay names a broken obligation, not an input:", d.get("broken"))
        return 1
    c = d["case"]
    ir = core.run_impl_lines("c07_impl.py", [c])[0]
    rep = core.Report(PROP, "replay", 0)
    rep.findings = []
    stats = new_stats()
    import contextlib
    import io

    buf = io.StringIO()
    with contextlib.redirect_stdout(buf):
        if c["kind"] == "calc":
            check_calc(rep, c, ir, from_jsonable(ir), stats)
        elif c["kind"] == "ctl":
            check_ctl(rep, c, ir, from_jsonable(ir), stats)
        else:
            check_lf(rep, c, ir, stats)
    print("impl  :", json.dumps(ir)[:3000])
    if c["kind"] == "calc":
        fi = from_jsonable(ir)
        print("oracle:", json.dumps(jsonable(calc_oracle(c, [st[2][1] for st in fi[1:]] if isinstance(fi, list) else None)))[:3000])
    elif c["kind"] == "ctl":
        print("oracle:", json.dumps(ctl_oracle(c))[:3000])
    else:
        print("oracle: columns 3 and 5 of each step are the newly built function's lnL / nfp")
    bad = bool(rep.violations)
    for v in rep.violations:
        # the replay must not leave new replay files behind
        try:
            import os

            os.unlink(v["path"])
        except OSError:
            pass
    print("REPRODUCED" if bad else "not reproduced")
    return 1 if bad else 0
