"""C12 implementation runner: drives the real genetic-code objects, moltypes,
sequences, collections and alignments of cogent3 (old and new implementations).

One case = one dict {"k": kind, ...}; the answer mirrors Model/GeneticCodeRun.v
`run_case` (strings as str, exceptions as {"exc": code})."""
import itertools
import warnings

warnings.filterwarnings("ignore")

from vcheck.implutil import serve
from vcheck.val import Exc, exc_code

E_ALPHA = 7


def code_of(e: BaseException) -> int:
    """AlphabetError is a plain Exception in the old implementation and a TypeError in the
    new one: both are canonicalised to 7"""
    if type(e).__name__ == "AlphabetError":
        return E_ALPHA
    return exc_code(e)


def observe(fn, *a, **kw):
    try:
        return fn(*a, **kw)
    except Exception as e:  # noqa: BLE001
        return Exc(code_of(e))


_cache = {}


def mods():
    if not _cache:
        import cogent3
        from cogent3.core import genetic_code as og
        from cogent3.core import moltype as om
        from cogent3.core import new_alignment as na
        from cogent3.core import new_genetic_code as ng
        from cogent3.core import new_moltype as nm

        _cache.update(cogent3=cogent3, og=og, ng=ng, om=om, nm=nm, na=na)
    return _cache


def get_gc(v, cid):
    m = mods()
    return m["og"].get_code(cid) if v == "old" else m["ng"].get_code(cid)


def get_mt(v, mt):
    m = mods()
    mod = m["om"] if v == "old" else m["nm"]
    return getattr(mod, mt.upper())


def translate_one(v, cid, s, start, minus):
    gc = get_gc(v, cid)
    if v == "new":
        return gc.translate(s, start, rc=bool(minus))
    if minus:
        s = mods()["om"].DNA.rc(s)
    return gc.translate(s, start)


BOOLS3 = list(itertools.product([False, True], repeat=3))  # (incomplete_ok, include_stop, trim_stop)


def get_trans(kind, cid, seqs, ok, inc, trim):
    m = mods()
    kw = dict(gc=cid, incomplete_ok=ok, include_stop=inc, trim_stop=trim)
    if kind in (0, 6):
        seq = m["om"].DNA.make_seq(seqs[0], name="s0")
        if kind == 6:
            seq = seq.rc()
        return [str(seq.get_translation(**kw))]
    if kind in (1, 5):
        seq = m["nm"].DNA.make_seq(seq=seqs[0], name="s0")
        if kind == 5:
            seq = seq.rc()
        return [str(seq.get_translation(**kw))]
    data = {f"s{i}": s for i, s in enumerate(seqs)}
    names = list(data)
    if kind == 2:
        coll = m["cogent3"].make_unaligned_seqs(data, moltype="dna")
    elif kind == 3:
        coll = m["na"].make_unaligned_seqs(data, moltype="dna")
    elif kind == 4:
        coll = m["cogent3"].make_aligned_seqs(data, moltype="dna", array_align=False)
    elif kind == 7:
        coll = m["cogent3"].make_aligned_seqs(data, moltype="dna", array_align=True)
    else:
        raise ValueError(kind)
    res = coll.get_translation(**kw)
    d = res.to_dict()
    return [str(d[n]) for n in names]


def expand(c):
    """long periodic sequences travel compressed as unit + n (see c12.py)"""
    if "unit" in c and "s" not in c:
        c = dict(c)
        u, n = c["unit"], c["n"]
        c["s"] = (u * (n // len(u) + 1))[:n]
    if "useqs" in c and "seqs" not in c:
        c = dict(c)
        c["seqs"] = [(u * (n // len(u) + 1))[:n] + tail for u, n, tail in c["useqs"]]
    return c


def run_case(c):
    c = expand(c)
    k = c["k"]
    m = mods()
    if k == "getitem":
        r = observe(lambda: get_gc(c["v"], c["id"])[c["codon"]])
        return r if isinstance(r, Exc) else ord(r)
    if k == "codeinfo":
        # derived tables of a code object: registry look-ups, start / stop / sense codon sets, aa -> codons
        def f():
            v, cid = c["v"], c["id"]
            gc = get_gc(v, cid)
            words = ["".join(p) for p in itertools.product("TCAG", repeat=3)]
            out = [int(get_gc(v, gc.name).ID), int(get_gc(v, str(cid)).ID), str(gc.name)]
            out.append(sorted(gc.start_codons))
            out.append(sorted(gc["*"]))
            out.append(sorted(gc.sense_codons))
            out.append([[aa, sorted(gc[aa])] for aa in "ACDEFGHIKLMNPQRSTVWY*"])
            out.append([bool(gc.is_stop(w)) for w in words])
            out.append([bool(gc.is_start(w)) for w in words] if v == "old" else sorted(gc.stop_codons))
            return out
        return observe(f)
    if k == "degen_codons":
        # old Sequence.get_translation on every codon of IUPAC nucleotide symbols, include_stop False / True
        def one(w, inc):
            seq = m["om"].DNA.make_seq(w, name="s0")
            return str(seq.get_translation(gc=c["id"], incomplete_ok=False, include_stop=inc, trim_stop=False))
        syms = c["syms"]
        words = ["".join(p) for p in itertools.product(syms, repeat=3)]
        out = []
        for inc in (False, True):
            row = []
            for w in words:
                r = observe(one, w, inc)
                row.append("!" if isinstance(r, Exc) else r)
            out.append("".join(row))
        return out
    if k == "codontable":
        canon = "TCAG"
        words = ["".join(p) for p in itertools.product(canon, repeat=3)]
        return [observe(translate_one, c["v"], c["id"], w, 0, c["minus"]) for w in words]
    if k == "translate":
        return observe(translate_one, c["v"], c["id"], c["s"], c["start"], c["minus"])
    if k == "allframes":
        return [observe(translate_one, c["v"], c["id"], c["s"], st, mn) for mn in (False, True) for st in (0, 1, 2)]
    if k == "translate_arr":
        # the new object fed with a numpy index array (what new Sequence.get_translation passes)
        import numpy

        gc = get_gc("new", c["id"])
        arr = numpy.array(mods()["nm"].DNA.most_degen_alphabet().to_indices(c["s"]), dtype=numpy.uint8)
        return observe(gc.translate, arr, c["start"], rc=bool(c["minus"]))
    if k == "sixframes":
        if c["v"] == "new":
            def f():
                return [[strand == "-", int(start), tr] for strand, start, tr in get_gc("new", c["id"]).sixframes(c["s"])]
            return observe(f)
        def g():
            seq = get_mt("old", c["m"]).make_seq(c["s"])
            return list(get_gc("old", c["id"]).sixframes(seq))
        return observe(g)
    if k == "app_frames":
        # cogent3.app.translate.translate_frames (uses the old objects)
        def f():
            from cogent3.app.translate import translate_frames

            seq = m["om"].DNA.make_seq(c["s"], name="s0")
            if c.get("rc"):
                seq = seq.rc()
            return list(translate_frames(seq, gc=c["id"], allow_rc=c.get("allow_rc", True)))
        return observe(f)
    if k == "app_translate_seqs":
        # cogent3.app.translate.translate_seqs on a collection (aligned or not), both trim settings
        def f(trim):
            from cogent3.app.translate import translate_seqs

            data = {f"s{i}": s for i, s in enumerate(c["seqs"])}
            mk = m["cogent3"].make_aligned_seqs if c["aligned"] else m["cogent3"].make_unaligned_seqs
            coll = mk(data, moltype="dna")
            if c.get("rc"):
                coll = coll.rc()
            res = translate_seqs(moltype="dna", gc=c["id"], trim_terminal_stop=trim)(coll)
            if type(res).__name__ == "NotCompleted":
                return Exc(E_ALPHA)
            d = res.to_dict()
            return [str(d[n]) for n in data]
        return [observe(f, False), observe(f, True)]
    if k == "best_frame":
        def f():
            from cogent3.app.translate import best_frame

            seq = m["om"].DNA.make_seq(c["s"], name="s0")
            return int(best_frame(seq, gc=c["id"], allow_rc=c["allow_rc"]))
        return observe(f)
    if k == "select_rc":
        # select_translatable(allow_rc=True), frame chosen by best_frame
        def f(trim):
            from cogent3.app.translate import select_translatable

            data = {f"s{i}": s for i, s in enumerate(c["seqs"])}
            app = select_translatable(moltype="dna", gc=c["id"], allow_rc=True, trim_terminal_stop=trim)
            res = app(m["cogent3"].make_unaligned_seqs(data, moltype="dna"))
            if type(res).__name__ == "NotCompleted":
                return []
            d = res.to_dict()
            return [[n, str(d[n])] for n in data if n in d]
        return [observe(f, False), observe(f, True)]
    if k == "app_select":
        # select_translatable with a given frame: the in-frame part of every sequence without internal stop
        def f(trim):
            from cogent3.app.translate import select_translatable

            data = {f"s{i}": s for i, s in enumerate(c["seqs"])}
            app = select_translatable(moltype="dna", gc=c["id"], frame=c["frame"], trim_terminal_stop=trim)
            res = app(m["cogent3"].make_unaligned_seqs(data, moltype="dna"))
            if type(res).__name__ == "NotCompleted":
                return []
            d = res.to_dict()
            return [[n, str(d[n])] for n in data if n in d]
        return [observe(f, False), observe(f, True)]
    if k == "gettrans":
        return [observe(get_trans, c["kind"], c["id"], c["seqs"], ok, inc, trim) for ok, inc, trim in BOOLS3]
    if k == "complement":
        return observe(get_mt(c["v"], c["m"]).complement, c["s"])
    if k == "rc":
        return observe(get_mt(c["v"], c["m"]).rc, c["s"])
    if k == "rc2":
        mt = get_mt(c["v"], c["m"])
        return observe(lambda: mt.rc(mt.rc(c["s"])))
    if k == "viewops":
        # str() after each of a chain of rc() / complement() / [a:b] on a sequence object
        def f():
            mt = get_mt(c["v"], c["m"])
            seq = mt.make_seq(c["s"]) if c["v"] == "old" else mt.make_seq(seq=c["s"])
            out = []
            for op in c["ops"]:
                if op == "rc":
                    seq = seq.rc()
                elif op == "comp":
                    seq = seq.complement()
                else:
                    seq = seq[op[0]:op[1]]
                out.append(str(seq))
            return out
        return observe(f)
    if k == "seqrc":
        # sequence objects: str(seq.rc()), str(seq.complement()), str(seq.rc().rc())
        def f():
            mt = get_mt(c["v"], c["m"])
            seq = mt.make_seq(c["s"]) if c["v"] == "old" else mt.make_seq(seq=c["s"])
            return [str(seq.rc()), str(seq.complement()), str(seq.rc().rc())]
        return observe(f)
    if k == "resolve":
        def f():
            return sorted(get_mt(c["v"], c["m"]).resolve_ambiguity(c["motif"]))
        return observe(f)
    if k == "what":
        return observe(lambda: ord(get_mt("old", c["m"])._what_ambiguity(list(c["motifs"]))))
    if k == "degen":
        def f():
            mt = get_mt(c["v"], c["m"])
            r = mt.degenerate_from_seq(c["symbols"])
            return None if r is None else ord(r)
        return observe(f)
    if k == "pinned":
        return None  # model-only case
    raise ValueError(f"unknown case kind {k}")


if __name__ == "__main__":
    serve(run_case, limit=120)
