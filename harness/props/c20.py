"""C20 — Tables follow the list-of-rows model and survive delimited round-trips.

Stage P: Properties/C20.v (hash join = nested loop, cross join, sort = the stable
sorted permutation, selection/derivation ops against list-of-rows comprehensions,
csv parse . format = id).  Stage C: the real cogent3 Table API and
Table.write/load_table in temp dirs vs Model.TableRun.run_case (vm_compute).
Stage S: a plain-Python list-of-rows oracle written from the property text."""
from __future__ import annotations

import itertools
import json
import random

from vcheck import core
from vcheck.val import Exc, cbool, zlit, zstr

PROP = "C20"
COQ_TARGETS = ["theories/Model/TableRun.vo"]
E_NOT_MODELLED = 77

# ------------------------------------------------------------------ rendering for Coq


def coq_cell(c):
    if c is None:
        return "CN"
    if isinstance(c, bool):
        return f"(CB {cbool(c)})"
    if isinstance(c, int):
        return f"(CI {zlit(c)})"
    if isinstance(c, str):
        return f"(CS {zstr(c)})"
    if isinstance(c, float):
        m, e = float_dec(c)
        return f"(CF {zlit(m)} {zlit(e)})"
    raise TypeError(c)


def float_dec(x: float):
    """the decimal m * 10^e that repr(x) shows, m without trailing zeros (0.0 -> (0, 0))"""
    from decimal import Decimal

    d = Decimal(repr(x))
    sign, digits, exp = d.as_tuple()
    m = int("".join(map(str, digits)))
    if m == 0:
        return 0, 0
    while m % 10 == 0:
        m //= 10
        exp += 1
    return (-m if sign else m), exp


def dec_float(m: int, e: int) -> float:
    return float(f"{m}e{e}")


FLOAT_TAG = "<f>"


def model_floats(v):
    """the model prints a float cell as ["<f>", m, e]"""
    if isinstance(v, list):
        if len(v) == 3 and v[0] == FLOAT_TAG and isinstance(v[1], int) and isinstance(v[2], int) \
                and not isinstance(v[1], bool) and not isinstance(v[2], bool):
            return dec_float(v[1], v[2])
        return [model_floats(x) for x in v]
    return v


def coq_strs(l):
    return "[" + ";".join(zstr(s) for s in l) + "]"


def coq_ostrs(l):
    if isinstance(l, str):
        l = [l]  # the API turns a single name into a one-element list
    return "None" if l is None else f"(Some {coq_strs(l)})"


def coq_ostr(s):
    return "None" if s is None else f"(Some {zstr(s)})"


def coq_table(tb):
    cols = "[" + ";".join("[" + ";".join(coq_cell(c) for c in col) + "]" for col in tb["cols"]) + "]"
    return f"({coq_strs(tb['header'])}, {cols})"


def coq_pred(p):
    k = p[0]
    if k == "true":
        return "PTrue"
    if k == "gt":
        return f"(PGt {p[1]} {zlit(p[2])})"
    if k == "eqc":
        return f"(PEqC {p[1]} {coq_cell(p[2])})"
    if k == "eqcols":
        return f"(PEqCols {p[1]} {p[2]})"
    if k == "mulgt":
        return f"(PMulGt {p[1]}%nat {p[2]}%nat {zlit(p[3])})"
    if k == "sqgt":
        return f"(PSqGt {p[1]}%nat {zlit(p[2])})"
    if k == "addgt":
        return f"(PAddGt {p[1]}%nat {p[2]}%nat {zlit(p[3])})"
    if k == "not":
        return f"(PNot {coq_pred(p[1])})"
    raise ValueError(k)


def coq_expr(e):
    k = e[0]
    if k == "const":
        return f"(EConst {coq_cell(e[1])})"
    if k == "add":
        return f"(EAdd {e[1]} {e[2]})"
    if k == "iseq":
        return f"(EIsEq {e[1]} {coq_cell(e[2])})"
    if k == "mul":
        return f"(EMul {e[1]}%nat {e[2]}%nat)"
    if k == "sq":
        return f"(ESq {e[1]}%nat)"
    raise ValueError(k)


def coq_op(o):
    k = o["op"]
    if k == "join":
        return f"OJoin {o['other']} {coq_ostrs(o['cs'])} {coq_ostrs(o['co'])} {cbool(o['inner'])} {zstr(o['prefix'])}"
    if k == "sorted":
        return f"OSorted {coq_ostrs(o['columns'])} {coq_ostrs(o['reverse'])}"
    if k == "filtered":
        return f"OFiltered {coq_pred(o['pred'])} {coq_ostrs(o['columns'])}"
    if k == "count":
        return f"OCount {coq_pred(o['pred'])} {coq_ostrs(o['columns'])}"
    if k == "filtered_by_column":
        return f"OFilteredByCol {coq_cell(o['cell'])}"
    if k == "get_columns":
        return f"OGetColumns {coq_strs(o['columns'])}"
    if k == "with_new_column":
        return f"OWithNew {zstr(o['name'])} {coq_expr(o['expr'])} {coq_ostrs(o['columns'])}"
    if k == "appended":
        others = "[" + ";".join(f"({zstr(t)}, {i}%nat)" for t, i in o["others"]) + "]"
        return f"OAppended {coq_ostr(o['newcol'])} {zstr(o['self_title'])} {others}"
    if k == "transposed":
        return f"OTransposed {zstr(o['new'])} {coq_ostr(o['sah'])}"
    if k == "distinct":
        return f"ODistinct {coq_strs(o['columns'])}"
    if k in ("count_unique", "distinct_arg"):
        a = o["arg"]
        term = ("CNone" if a["form"] == "none" else f"(CName {zstr(a['value'])})" if a["form"] == "name"
                else f"(CInt {zlit(a['value'])})" if a["form"] == "int" else f"(CList {coq_strs(a['value'])})")
        return ("OCountUnique " if k == "count_unique" else "ODistinctArg ") + term
    raise ValueError(k)


def coq_case(c):
    if c["kind"] == "ops":
        ops = ";".join(coq_op(o) for o in c["ops"])  # nat literals get their %nat in _natify
        return "(CaseOps [" + ";".join(coq_table(t) for t in c["tables"]) + "] [" + ops + "])"
    return f"(CaseRT {ord(c['sep'])} {coq_table(c['table'])})"


def run_model(cases):
    # nat arguments (column positions, table indices) are small literals: print them with %nat
    plain = [i for i, c in enumerate(cases) if c["kind"] in ("ops", "rt")]
    idx = [i for i, c in enumerate(cases) if c["kind"] in ("iops", "irt")]
    res = [None] * len(cases)
    terms = [_natify(coq_case(cases[i])) for i in plain]
    out = core.coq_eval(PROP, ["Lib.Chars", "Model.Csv", "Model.Table", "Model.TableCount", "Model.TableRun"], "run_case", terms, "case", shard=150)
    for i, r in zip(plain, out):
        res[i] = _model_canon(cases[i], r)
    iterms = [_natify(coq_icase(cases[i])) for i in idx]
    iout = core.coq_eval(PROP, ["Lib.Chars", "Model.Csv", "Model.Table", "Model.TableCount", "Model.TableRun", "Model.TableIndex"], "run_icase", iterms,
                         "icase", shard=150, tag="i")
    for i, r in zip(idx, iout):
        res[i] = model_floats(r)
    return res


def coq_iop(o):
    k = o["op"]
    if k == "lookup":
        return f"ILookup {coq_cell(o['label'])} {zstr(o['col'])}"
    if k == "row":
        return f"IRow {coq_cell(o['label'])}"
    if k == "get_columns_ix":
        return f"IGetColumns {coq_strs(o['columns'])} {cbool(o['with_index'])}"
    if k == "inner_join_index":
        return f"IInnerJoinIndex {o['other']}%nat {coq_ostr(o['other_index'])} {zstr(o['prefix'])}"
    return f"IBase ({coq_op(o)})"


def coq_icase(c):
    if c["kind"] == "iops":
        ops = ";".join(coq_iop(o) for o in c["ops"])
        return ("(ICaseOps [" + ";".join(coq_table(t) for t in c["tables"]) + "] " + coq_ostr(c["tables"][0].get("index_name"))
                + " [" + ops + "])")
    return (f"(ICaseRT {ord(c['sep'])} {zstr(c['title'])} {zstr(c['legend'])} {coq_ostr(c['index_name'])} "
            f"{coq_table(c['table'])})")


def _natify(term: str) -> str:
    import re

    term = re.sub(r"\(PGt (\d+) ", r"(PGt \1%nat ", term)
    term = re.sub(r"\(PEqC (\d+) ", r"(PEqC \1%nat ", term)
    term = re.sub(r"\(PEqCols (\d+) (\d+)\)", r"(PEqCols \1%nat \2%nat)", term)
    term = re.sub(r"\(EAdd (\d+) (\d+)\)", r"(EAdd \1%nat \2%nat)", term)
    term = re.sub(r"\(EIsEq (\d+) ", r"(EIsEq \1%nat ", term)
    term = re.sub(r"OJoin (\d+) ", r"OJoin \1%nat ", term)
    return term


def _model_canon(c, r):
    r = model_floats(r)
    if c["kind"] == "ops":
        out = []
        for o, v in zip(c["ops"], r):
            if o["op"] == "distinct" and isinstance(v, list):
                v = sorted(v, key=repr)
            out.append(v)
        # the model stops after the first error, like the runner
        return out
    return r


# ------------------------------------------------------------------ generators

NAMES = ["a", "b", "c", "d", "e"]
STR_POOL = ["a", "ab", "b", "B", "", "abc", "ba", "zz", "a b", "x,y", "é", "10"]
STR_POOL_PREFIX_FREE = ["a", "b", "B", "c", "zz", "ba", "é", "xy"]
SPECIAL_CELLS = ["", ",", "\t", '"', "a,b", '"q"', " x ", "a\nb", "\n", 'a"b,c\td', "x\ty", "''", "a"]


BIG_INTS = [2 ** 33 + 1, -(2 ** 35), 2 ** 62, 7, -3, 4_000_000_000, 3_000_000_000, -(2 ** 62), 3_037_000_500]
# products and squares of these are never in [2^63, 2^64) (numpy.array would hold such a result, next to a
# negative one, as float64), so derived columns stay exact Python ints
BIG_INTS_DERIVE = [2 ** 33 + 1, -(2 ** 35), 2 ** 62, 7, -3]


def rand_col(rng, typ, n, small=True):
    if typ == "int":
        return [rng.randint(-2, 4 if small else 40) for _ in range(n)]
    if typ == "str":
        return [rng.choice(STR_POOL) for _ in range(n)]
    if typ == "strpf":
        return [rng.choice(STR_POOL_PREFIX_FREE) for _ in range(n)]
    if typ == "bool":
        return [rng.random() < 0.5 for _ in range(n)]
    if typ == "big":
        # magnitudes whose products / squares leave int64 (Python ints are unbounded)
        return [rng.choice(BIG_INTS) for _ in range(n)]
    if typ == "float":
        return [rng.choice([0.5, -1.25, 2.0, 0.1, 3.75, 1e-3, 2.0, 1e20]) for _ in range(n)]
    if typ == "intnone":
        return [rng.choice([None, 0, 1, 2, 7]) for _ in range(n)]
    if typ == "mixed":
        return [rng.choice([None, 1, "a", True, "1", 0]) for _ in range(n)]
    if typ == "uniq":
        return rng.sample(range(-5, 30), n)
    if typ == "uniqstr":
        return rng.sample(["k%d" % i for i in range(40)], n)
    raise ValueError(typ)


def kind_of(col):
    """numpy dtype kind cast_to_array gives a non-empty column"""
    if not col:
        return "f"
    ts = {type(x) for x in col}
    if ts == {int}:
        return "i"
    if ts == {str}:
        return "U"
    if ts == {bool}:
        return "b"
    if ts == {float} or ts == {int, float}:
        return "f"
    return "O"


def rand_table(rng, names=None, nmax=8, types=None, nrows=None):
    ncols = rng.randint(1, 4)
    names = list(names) if names else rng.sample(NAMES, ncols)
    n = rng.choice([0, 1, 1, 2, 3, 4, 5, 6, nmax]) if nrows is None else nrows
    cols, typs = [], []
    for _ in names:
        typ = rng.choice(types or ["int", "int", "str", "strpf", "bool", "intnone", "mixed", "uniq", "uniqstr", "float", "big"])
        typs.append(typ)
        cols.append(rand_col(rng, typ, n))
    return dict(header=names, cols=cols, types=typs)


def rand_pred(rng, tb, cols):
    """a predicate valid on the selected columns (positions refer to the selection)"""
    sel = cols if cols is not None else tb["header"]
    kinds = [kind_of(tb["cols"][tb["header"].index(c)]) for c in sel]
    choices = [["true"]]
    ints = [i for i, k in enumerate(kinds) if k in "ibf"]
    if ints:
        choices.append(["gt", rng.choice(ints), rng.randint(-1, 3)])
    pure_ints = [i for i, k in enumerate(kinds) if k == "i"]
    if pure_ints:
        a, b = rng.choice(pure_ints), rng.choice(pure_ints)
        kk = rng.choice([0, 10 ** 19, -(10 ** 19), 2 ** 63, 2 ** 64, 12, -(2 ** 63)])
        choices.append(["mulgt", a, b, kk])
        choices.append(["sqgt", a, rng.choice([10 ** 19, 2 ** 64, 40, 2 ** 63])])
        choices.append(["addgt", a, b, rng.choice([0, 2 ** 62, -(2 ** 62), 2 ** 63])])
    i = rng.randrange(len(sel))
    col = tb["cols"][tb["header"].index(sel[i])]
    if col:
        choices.append(["eqc", i, rng.choice(col)])
    choices.append(["eqc", i, rng.choice([1, "a", True, None, 0, False, ""])])
    if len(sel) > 1:
        choices.append(["eqcols", 0, rng.randrange(1, len(sel))])
    p = rng.choice(choices)
    if rng.random() < 0.25:
        p = ["not", p]
    return p


def rand_expr(rng, tb, cols):
    sel = cols if cols is not None else tb["header"]
    kinds = [kind_of(tb["cols"][tb["header"].index(c)]) for c in sel]
    choices = [["const", rng.choice([0, 5, "k", True])], ["iseq", rng.randrange(len(sel)), rng.choice([1, "a", True, 0])]]
    ints = [i for i, k in enumerate(kinds) if k == "i"]
    strs = [i for i, k in enumerate(kinds) if k == "U"]
    def col_of(i):
        return tb["cols"][tb["header"].index(sel[i])]
    small = [i for i in ints if all(abs(x) < 2 ** 31 for x in col_of(i))]
    derive = [i for i in ints if all(x in BIG_INTS_DERIVE or abs(x) < 2 ** 15 for x in col_of(i))]
    if small:
        choices.append(["add", rng.choice(small), rng.choice(small)])
    if derive:
        choices.append(["mul", rng.choice(derive), rng.choice(derive)])
        choices.append(["sq", rng.choice(derive)])
    if strs:
        choices.append(["add", rng.choice(strs), rng.choice(strs)])
    return rng.choice(choices)


def sub_cols(rng, header, allow_none=True, kmax=3):
    if allow_none and rng.random() < 0.3:
        return None
    k = rng.randint(1, min(kmax, len(header)))
    return rng.sample(header, k)


def table_after(tb, o, tables):
    """the oracle's view of the table after op o (used by the generator to keep later ops well typed)"""
    r = oracle_step(o, dict(header=tb["header"], cols=tb["cols"]), tables)
    if r is None or isinstance(r, Exc) or not isinstance(r, dict):
        return None
    return r


def rand_sort_op(rng, tb, allow_prefix=False):
    header = tb["header"]
    kinds = {c: kind_of(col) for c, col in zip(header, tb["cols"])}
    sortable = [c for c in header if kinds[c] in "iUbf"]
    objs = [c for c in header if kinds[c] == "O"]
    if objs and rng.random() < 0.15:
        c = rng.choice(objs)
        return dict(op="sorted", columns=[c] + rng.sample(sortable, min(len(sortable), rng.randint(0, 1))),
                    reverse=[c] if rng.random() < 0.3 else None)
    if not sortable or not tb["cols"] or not tb["cols"][0]:
        return None
    revable = list(sortable)  # int, float, str (prefixes included), bool
    w = rng.random()
    if w < 0.3 and set(sortable) == set(header):
        columns = None
    else:
        columns = rng.sample(sortable, rng.randint(1, min(3, len(sortable))))
    reverse = None
    if revable and rng.random() < 0.6:
        if columns is None:
            # reverse only => it becomes the column list
            reverse = rng.sample(revable, rng.randint(1, min(2, len(revable))))
        else:
            inside = [c for c in columns if c in revable]
            outside = [c for c in revable if c not in columns]
            if inside and (not outside or rng.random() < 0.6):
                reverse = rng.sample(inside, rng.randint(1, len(inside)))
            elif outside:
                reverse = rng.sample(outside, rng.randint(1, min(2, len(outside))))
    return dict(op="sorted", columns=columns, reverse=reverse)


def prefix_free_latin1(col):
    vals = sorted(set(col))
    for a, b in zip(vals, vals[1:]):
        if b.startswith(a):
            return False
    return all(0 < ord(ch) < 255 for v in vals for ch in v)


def rand_op(rng, tb, tables):
    header = tb["header"]
    nonempty = bool(tb["cols"]) and bool(tb["cols"][0])
    w = rng.random()
    if w < 0.2 and len(tables) > 1:
        k = rng.randrange(1, len(tables))
        other = tables[k]
        shared = [c for c in header if c in other["header"]]
        mode = rng.random()
        if mode < 0.35 and shared:
            cs = co = None
        elif mode < 0.6 and shared:
            cs, co = rng.sample(shared, rng.randint(1, min(2, len(shared)))), None
            if rng.random() < 0.5:
                cs, co = co, cs
        else:
            n = rng.randint(1, min(2, len(header), len(other["header"])))
            cs, co = rng.sample(header, n), rng.sample(other["header"], n)
        return dict(op="join", other=k, cs=cs, co=co, inner=True, prefix=rng.choice(["right_", "right_", "r.", "x"]))
    if w < 0.27 and len(tables) > 1:
        return dict(op="join", other=rng.randrange(1, len(tables)), cs=None, co=None, inner=False, prefix="right_")
    if w < 0.45:
        o = rand_sort_op(rng, tb)
        if o:
            return o
    if w < 0.55 and header:
        cols = sub_cols(rng, header)
        return dict(op="filtered", pred=rand_pred(rng, tb, cols), columns=cols, form=rng.choice(["callable", "string"]))
    if w < 0.62 and header:
        cols = sub_cols(rng, header)
        return dict(op="count", pred=rand_pred(rng, tb, cols), columns=cols, form=rng.choice(["callable", "string"]))
    if w < 0.67 and header:
        return dict(op="filtered_by_column", cell=rng.choice([1, "a", True, None, 0, "zz"]))
    if w < 0.74 and header:
        return dict(op="get_columns", columns=sub_cols(rng, header, allow_none=False))
    if w < 0.82 and header:
        cols = sub_cols(rng, header)
        name = rng.choice(["new", "new", rng.choice(header)])
        return dict(op="with_new_column", name=name, expr=rand_expr(rng, tb, cols), columns=cols,
                    form=rng.choice(["callable", "string"]))
    if w < 0.85 and header:
        return dict(op="distinct", columns=sub_cols(rng, header, allow_none=False, kmax=2))
    if w < 0.88 and header:
        if rng.random() < 0.6:
            return dict(op="count_unique", arg=rand_carg(rng, header))
        return dict(op="distinct_arg", arg=rand_carg(rng, header, allow_none=False))
    if w < 0.94 and header:
        others = [[rng.choice(["t1", "T", ""]), k] for k in range(1, len(tables))
                  if set(tables[k]["header"]) == set(header) and rng.random() < 0.8]
        return dict(op="appended", newcol=rng.choice([None, "src", "src"]), self_title=rng.choice(["t0", "", "me"]), others=others)
    if header and nonempty:
        # a column with unique values if there is one
        uniq = [c for c, col in zip(header, tb["cols"]) if len({repr(x) for x in col}) == len(col)
                and len(_pyset(col)) == len(col)]
        sah = rng.choice(uniq) if uniq and rng.random() < 0.85 else rng.choice(header)
        if rng.random() < 0.3 and (uniq and header[0] in uniq):
            sah = None
        return dict(op="transposed", new="hdr", sah=sah)
    return dict(op="count", pred=["true"], columns=None)


def _pyset(col):
    out = []
    for x in col:
        if not any(x == y for y in out):
            out.append(x)
    return out


def random_ops_case(rng, nmax=8):
    t0 = rand_table(rng, nmax=nmax)
    tables = [t0]
    # a second table sharing some column names, and sometimes a third with the same columns as t0
    names1 = rng.sample(NAMES, rng.randint(1, 3))
    if not set(names1) & set(t0["header"]) and rng.random() < 0.8:
        names1[0] = rng.choice(t0["header"])
    t1 = rand_table(rng, names=names1, nmax=nmax)
    # share key values: copy the type of the shared column
    for i, c in enumerate(t1["header"]):
        if c in t0["header"]:
            typ = t0["types"][t0["header"].index(c)]
            typ = {"uniq": "int", "uniqstr": "str"}.get(typ, typ)
            if rng.random() < 0.85:
                t1["cols"][i] = rand_col(rng, typ, len(t1["cols"][i]))
                t1["types"][i] = typ
    tables.append(t1)
    if rng.random() < 0.5:
        perm = list(t0["header"])
        rng.shuffle(perm)
        n2 = rng.choice([0, 1, 2, 3])
        t2 = dict(header=perm, cols=[rand_col(rng, {"uniq": "int", "uniqstr": "str"}.get(t0["types"][t0["header"].index(c)],
                                                                                     t0["types"][t0["header"].index(c)]), n2)
                                     for c in perm], types=None)
        tables.append(t2)
    ops = []
    cur = dict(header=t0["header"], cols=t0["cols"])
    for _ in range(rng.choice([1, 1, 2, 2, 3])):
        if not cur["header"]:
            break
        o = rand_op(rng, cur, tables)
        ops.append(o)
        if o["op"] in ("count", "distinct", "count_unique", "distinct_arg"):
            continue
        nxt = table_after(cur, o, tables)
        if nxt is None:
            break
        cur = nxt
    return dict(kind="ops", tables=[dict(header=t["header"], cols=t["cols"]) for t in tables], ops=ops, block="random")


def error_cases():
    """invalid arguments: model and implementation must fail the same way"""
    t0 = dict(header=["a", "b"], cols=[[1, 2, 2], ["x", "y", "z"]])
    t1 = dict(header=["a", "c"], cols=[[2, 3], ["u", "v"]])
    mk = lambda ops: dict(kind="ops", tables=[t0, t1], ops=ops, block="errors")
    return [
        mk([dict(op="join", other=1, cs=["zz"], co=["a"], inner=True, prefix="right_")]),
        mk([dict(op="join", other=1, cs=["a", "b"], co=["a"], inner=True, prefix="right_")]),
        mk([dict(op="join", other=1, cs=["a"], co=["a"], inner=False, prefix="right_")]),
        mk([dict(op="sorted", columns=["zz"], reverse=None)]),
        mk([dict(op="sorted", columns=["a", "b"], reverse=["b", "zz"])]),
        mk([dict(op="get_columns", columns=["a", "q"])]),
        mk([dict(op="transposed", new="h", sah="a")]),
        mk([dict(op="transposed", new="h", sah="nope")]),
        mk([dict(op="appended", newcol="a", self_title="t", others=[])]),
        mk([dict(op="appended", newcol="s", self_title="t", others=[["o", 1]])]),
        mk([dict(op="distinct", columns=["nope"])]),
        mk([dict(op="filtered", pred=["true"], columns=["nope"])]),
    ]


def exhaustive_join_block(tier):
    """every pair of key columns over {1,2} of length 0..L (duplicates, empties), payload = row id;
    natural join, explicit key join and cross join"""
    L = 2 if tier == "quick" else 3
    keys = [list(p) for n in range(L + 1) for p in itertools.product([1, 2], repeat=n)]
    cases = []
    for ka in keys:
        for kb in keys:
            t0 = dict(header=["k", "p"], cols=[ka, ["s%d" % i for i in range(len(ka))]])
            t1 = dict(header=["k", "q"], cols=[kb, [10 + i for i in range(len(kb))]])
            cases.append(dict(kind="ops", tables=[t0, t1], block="exh-join",
                              ops=[dict(op="join", other=1, cs=None, co=None, inner=True, prefix="right_")]))
            cases.append(dict(kind="ops", tables=[t0, t1], block="exh-join",
                              ops=[dict(op="join", other=1, cs=None, co=None, inner=False, prefix="right_")]))
    # two key columns, bool/int equality (True == 1)
    vals = [(1, "x"), (1, "y"), (True, "x"), (0, "x")]
    for n, m in ((2, 2), (3, 2)) if tier == "quick" else ((2, 2), (3, 2), (3, 3)):
        for ra in itertools.product(vals, repeat=n):
            for rb in itertools.product(vals[:3], repeat=m):
                if len(cases) % (7 if tier == "quick" else 2):
                    pass
                t0 = dict(header=["u", "v", "p"], cols=[[r[0] for r in ra], [r[1] for r in ra], list(range(n))])
                t1 = dict(header=["v2", "u2"], cols=[[r[1] for r in rb], [r[0] for r in rb]])
                cases.append(dict(kind="ops", tables=[t0, t1], block="exh-join",
                                  ops=[dict(op="join", other=1, cs=["u", "v"], co=["u2", "v2"], inner=True, prefix="r_")]))
    if tier == "quick":
        head, tail = cases[: 2 * len(keys) ** 2], cases[2 * len(keys) ** 2:]
        cases = head + tail[::5]
    return cases


SORT_ARGS = None


def sort_arg_combos():
    """(columns, reverse) combinations over the key columns x (int), y (str), z (bool): every column type in
    reverse= alone and combined, as the only key and as one key of a multi-key sort, reverse inside /
    disjoint from / instead of columns"""
    global SORT_ARGS
    if SORT_ARGS is None:
        out = []
        def subsets(l):
            return [list(c) for k in range(len(l) + 1) for c in itertools.combinations(l, k)]
        for cols in (["x"], ["y"], ["z"], ["x", "y"], ["y", "z"], ["z", "x"], ["z", "y", "x"], ["x", "y", "z"]):
            for rev in subsets(cols):
                out.append((cols, rev or None))
        for rev in (["x"], ["y"], ["z"], ["z", "x"], ["y", "z"], ["x", "y"], ["z", "y", "x"]):
            out.append((None, rev))                      # reverse only: it becomes the column list
        out += [(["x"], ["z"]), (["y"], ["z"]), (["z"], ["x"]), (["z"], ["y", "x"]), (["x"], "z"), ("z", None), ("z", "z")]
        SORT_ARGS = out
    return SORT_ARGS


def exhaustive_sort_block(tier):
    """every table of 1..N rows over {0,1} x {"a","ab"} x {False,True} (a proper-prefix pair included) with a
    row-id column, against the (columns, reverse) combinations of sort_arg_combos; plus float keys
    (oracle only, the model has no float cell)"""
    cells = list(itertools.product([0, 1], ["a", "ab"], [False, True]))
    args = sort_arg_combos()
    cases = []

    def add(rows, k):
        n = len(rows)
        tb = dict(header=["x", "y", "z", "id"], cols=[[r[0] for r in rows], [r[1] for r in rows], [r[2] for r in rows], list(range(n))])
        c, r = args[k % len(args)]
        cases.append(dict(kind="ops", tables=[tb], ops=[dict(op="sorted", columns=c, reverse=r)], block="exh-sort"))

    k = 0
    for n in (1, 2):
        for rows in itertools.product(cells, repeat=n):
            step = (3 if n == 2 else 2) if tier == "quick" else 1
            for a in range(0, len(args), step):
                add(rows, a + (k % step))
            k += 1
    tables3 = list(itertools.product(cells, repeat=3))
    stride, per = (8, 5) if tier == "quick" else (1, 9)
    for t_i, rows in enumerate(tables3[::stride]):
        for a in range(per):
            add(rows, t_i * per + a)
    if tier != "quick":
        rng = random.Random(4)
        for _ in range(1500):
            add([rng.choice(cells) for _ in range(4)], rng.randrange(len(args)))
    # object-dtype key columns (None / mixed values): TypeError where the values cannot be compared
    for col in ([None, 1, 2], [1, None], [None, None], [1, "a"], [1, True, 0], [None], ["a", None, "b"], [2, True, 0.5], ["b", "a", None]):
        n = len(col)
        tb = dict(header=["k", "a", "id"], cols=[col, [1] * n, list(range(n))])
        tb2 = dict(header=["k", "a", "id"], cols=[col, list(range(n, 0, -1)), list(range(n))])
        for c, r in ((["k"], None), (None, ["k"]), (["k", "a"], None), (["a", "k"], None), (["a", "k"], ["k"]), (["k", "a"], ["a"])):
            cases.append(dict(kind="ops", tables=[tb], ops=[dict(op="sorted", columns=c, reverse=r)], block="exh-sort-object"))
            cases.append(dict(kind="ops", tables=[tb2], ops=[dict(op="sorted", columns=c, reverse=r)], block="exh-sort-object"))
    # float keys (and float x bool), oracle only
    fvals = [0.5, -1.25, 2.0]
    fargs = [(["f"], None), (["f"], ["f"]), (None, ["f"]), (["z", "f"], ["f"]), (["z", "f"], ["z"]), (["f", "z"], ["z", "f"]), (["z"], ["f"])]
    frows = list(itertools.product(itertools.product(fvals, [False, True]), repeat=3))
    for t_i, rows in enumerate(frows[::(7 if tier == "quick" else 1)]):
        c, r = fargs[t_i % len(fargs)]
        tb = dict(header=["f", "z", "id"], cols=[[x[0] for x in rows], [x[1] for x in rows], [0, 1, 2]])
        cases.append(dict(kind="ops", tables=[tb], ops=[dict(op="sorted", columns=c, reverse=r)], block="exh-sort-float"))
    return cases


def bigint_block(tier):
    """integer columns of magnitude up to 2^62 with callbacks that multiply / square / add them, as a callable
    and as a string, for filtered / count / with_new_column; Python semantics: unbounded ints"""
    t0 = dict(header=["n", "m", "s"],
              cols=[[4_000_000_000, 3, -(2 ** 62), 2 ** 33 + 1, -3_000_000_000, 3_037_000_500],
                    [3_000_000_000, 2 ** 62, 4, -(2 ** 35), 3_000_000_000, 3_037_000_500],
                    ["a", "b", "c", "d", "e", "f"]])
    t1 = dict(header=["n", "m"], cols=[[2 ** 33 + 1, -(2 ** 35), 2 ** 62, 7, -3], [2 ** 62, 7, -3, 2 ** 33 + 1, -(2 ** 35)]])
    cases = []
    ks = [0, 10 ** 19, -(10 ** 19), 2 ** 63, 2 ** 64, -(2 ** 63), 9 * 10 ** 18]
    for form in ("callable", "string"):
        for op in ("filtered", "count"):
            for k in ks:
                cases.append(dict(kind="ops", tables=[t0], block="bigint",
                                  ops=[dict(op=op, pred=["mulgt", 0, 1, k], columns=["n", "m"], form=form)]))
                cases.append(dict(kind="ops", tables=[t0], block="bigint",
                                  ops=[dict(op=op, pred=["sqgt", 0, abs(k)], columns=["n"], form=form)]))
                cases.append(dict(kind="ops", tables=[t0], block="bigint",
                                  ops=[dict(op=op, pred=["addgt", 0, 1, k], columns=None if k % 2 else ["n", "m"], form=form)]))
        for e, cols in ((["mul", 0, 1], ["n", "m"]), (["sq", 0], ["n"]), (["sq", 1], None), (["mul", 1, 0], ["m", "n"]),
                        (["mul", 0, 0], ["n", "m"])):
            cases.append(dict(kind="ops", tables=[t1], block="bigint",
                              ops=[dict(op="with_new_column", name="c", expr=e, columns=cols, form=form),
                                   dict(op="count", pred=["sqgt", 2, 2 ** 64], columns=None, form=form)]))
    return cases


def arg_forms(header):
    """every way to spell the columns argument of count_unique / distinct_values"""
    forms = [dict(form="none", omit=True), dict(form="none", omit=False)]
    for i, c in enumerate(header):
        forms += [dict(form="name", value=c), dict(form="int", value=i), dict(form="int", value=i - len(header)),
                  dict(form="list", value=[c]), dict(form="tuple", value=[c])]
    for a, b in itertools.permutations(header, 2):
        forms += [dict(form="list", value=[a, b]), dict(form="tuple", value=[a, b])]
    if len(header) >= 3:
        forms += [dict(form="list", value=list(header)), dict(form="tuple", value=list(reversed(header)))]
    forms += [dict(form="name", value="nope"), dict(form="int", value=len(header)), dict(form="int", value=-len(header) - 1),
              dict(form="list", value=[header[0], "nope"])]
    return forms


def count_forms_block(tier):
    """count_unique / distinct_values with every argument form on a ONE-column table, on wider tables and on a
    table without rows: the keys are scalars exactly when one column is selected, the counts are a plain
    Counter over the rows, and both methods return the same keys"""
    one = dict(header=["a"], cols=[[1, True, 2, 1, 0, False]])
    one_s = dict(header=["s"], cols=[["x", "", "x", "y"]])
    two = dict(header=["a", "b"], cols=[[1, 1, 2, 1], ["x", "x", "y", "z"]])
    wide = dict(header=["i", "s", "b", "n"], cols=[[1, 0, 1, 2, 0, 1], ["", "a", "", "ab", "a", "b"], [True, False, True, True, False, False],
                                                  [None, 1, None, 0, 1, None]])
    flt = dict(header=["f", "k"], cols=[[0.5, 0.5, 2.0, 1e20], ["p", "p", "q", "p"]])
    empty = dict(header=["a", "b"], cols=[[], []])
    cases = []
    for tb in (one, one_s, two, wide, flt, empty):
        forms = arg_forms(tb["header"])
        if tb is wide and tier == "quick":
            forms = forms[::2] + forms[-4:]
        for a in forms:
            cases.append(dict(kind="ops", tables=[tb], block="count-forms", ops=[dict(op="count_unique", arg=a)]))
            if not a.get("omit"):
                cases.append(dict(kind="ops", tables=[tb], block="count-forms", ops=[dict(op="distinct_arg", arg=a)]))
    return cases


def rand_carg(rng, header, allow_none=True):
    w = rng.random()
    if allow_none and w < 0.2:
        return dict(form="none", omit=rng.random() < 0.5)
    if w < 0.4:
        return dict(form="name", value=rng.choice(header))
    if w < 0.55:
        return dict(form="int", value=rng.randrange(-len(header), len(header)))
    k = rng.randint(1, min(3, len(header)))
    return dict(form=rng.choice(["list", "tuple"]), value=rng.sample(header, k))


def exhaustive_types_block(tier):
    """one fixed table holding a column of every dtype (int, str with the empty string, bool, int-with-None,
    mixed objects with 1 / True / "1" / None / 0 / False): filtered / count with an equality test against
    every probe value on every column, distinct_values of every column and column pair, joins on every pair of
    key columns of the two tables (int against bool keys: True == 1, None keys, empty-string keys)"""
    t0 = dict(header=["i", "s", "b", "n", "m", "id"],
              cols=[[1, 0, 1, 2, 0, 1], ["", "a", "", "ab", "a", "b"], [True, False, True, True, False, False],
                    [None, 1, None, 0, 1, None], [1, True, "1", None, 0, False], [0, 1, 2, 3, 4, 5]])
    t1 = dict(header=["i", "s", "b", "n", "m", "q"],
              cols=[[0, 1, 1, 3], ["a", "", "b", ""], [False, True, True, False], [1, None, 0, None], [True, None, "1", 0],
                    [10, 11, 12, 13]])
    keys = ["i", "s", "b", "n", "m"]
    probes = [1, 0, True, False, "", None, "a", "1", 2]
    mkc = lambda ops: dict(kind="ops", tables=[t0, t1], ops=ops, block="exh-types")
    cases = []
    for c in keys:
        for v in probes:
            cases.append(mkc([dict(op="filtered", pred=["eqc", 0, v], columns=[c]),
                              dict(op="count", pred=["not", ["eqc", 0, v]], columns=[c])]))
            cases.append(mkc([dict(op="count", pred=["eqc", 0, v], columns=[c])]))
        cases.append(mkc([dict(op="distinct", columns=[c])]))
        cases.append(mkc([dict(op="filtered_by_column", cell=probes[keys.index(c)])]))
    for a, b in itertools.permutations(keys, 2):
        cases.append(mkc([dict(op="distinct", columns=[a, b])]))
        cases.append(mkc([dict(op="filtered", pred=["eqcols", 0, 1], columns=[a, b])]))
    for a in keys:
        for b in keys:
            cases.append(mkc([dict(op="join", other=1, cs=[a], co=[b], inner=True, prefix="r_")]))
    for a, b in (("i", "b"), ("b", "i"), ("n", "m"), ("s", "m"), ("i", "s")):
        cases.append(mkc([dict(op="join", other=1, cs=[a, b], co=[a, b], inner=True, prefix="r_")]))
        cases.append(mkc([dict(op="join", other=1, cs=[a, b], co=[b, a], inner=True, prefix="r_")]))
    cases.append(mkc([dict(op="join", other=1, cs=None, co=None, inner=True, prefix="r_")]))
    return cases


def rt_case(tb, sep, formats, block):
    return dict(kind="rt", sep=sep, table=dict(header=tb["header"], cols=tb["cols"]), formats=formats, block=block)


def exhaustive_rt_block(tier):
    """every one-row table with 1 or 2 cells from the special pool, tab and comma"""
    cases = []
    pool = SPECIAL_CELLS
    for a in pool:
        for sep, fmt in (("\t", "tsv"), (",", "csv")):
            cases.append(rt_case(dict(header=["h"], cols=[[a, "k"]]), sep, [fmt], "exh-rt"))
    pairs = list(itertools.product(pool, repeat=2))
    if tier == "quick":
        pairs = pairs[::3]
    for a, b in pairs:
        for sep, fmt in (("\t", "tsv"), (",", "csv")):
            cases.append(rt_case(dict(header=["h", "g"], cols=[[a, "k"], [b, "k"]]), sep, [fmt], "exh-rt"))
    return cases


TYPED_COLUMNS = {
    "int": [[0, 1, -7], [12, 12, 5], [-1, 10 ** 14, 3], [2 ** 62, -2 ** 62, 0]],
    "float": [[0.5, -1.25, 2.0], [0.0, 100.0, 1e15], [1.5e-07, 1e-05, 0.0001], [1e16, 1e20, 2.5e+30], [123456.789, -0.001, 3.75],
              [1.0, 2.0, 3.0]],
    "bool": [[True, False, True], [False, False, False]],
    "plain": [["a", "ab", "k27"], ["", "a b", "abc"], ["B", "zz", "x_y"], ["", "", "q"]],
    # conventions of the type inference (numbers / literals written as text)
    "numeric-looking": [["007", "010", "1"], ["1", "2", "3"], ["1", "2.5", "3"], ["1.50", "2e3", ".5"], ["007", "x", "1"]],
    "literal-looking": [["True", "x", "None"], ["True", "False", "True"], ["None", "None", "a"]],
    "none": [[None, 1, 2], [None, "a", None], [None, 0.5, 2.0], [None, None, None], [True, None, False]],
    "mixed": [[1, "a", True], [1, 2.5, "x"], [0.5, True, "k"]],
}


def typed_rt_block(tier):
    """round trips whose type inference the Coq model covers: every typed column alone and
    pairs of columns of different kinds, tab and comma"""
    cases = []
    cols = [(k, c) for k, cs in TYPED_COLUMNS.items() for c in cs]
    for i, (k, c) in enumerate(cols):
        sep = "\t" if i % 2 == 0 else ","
        cases.append(rt_case(dict(header=["h"], cols=[c]), sep, ["tsv" if sep == "\t" else "csv"], "typed-rt"))
    step = 7 if tier == "quick" else 1
    pairs = [(a, b) for a in cols for b in cols if a[0] != b[0]]
    for i, ((ka, ca), (kb, cb)) in enumerate(pairs[::step]):
        sep = "\t" if i % 2 == 0 else ","
        fmts = ["tsv" if sep == "\t" else "csv"] + (["json", "pickle"] if i % 9 == 0 else [])
        cases.append(rt_case(dict(header=["p", "q r"], cols=[ca, cb]), sep, fmts, "typed-rt"))
    return cases


def rand_rt_case(rng):
    ncols = rng.randint(1, 4)
    n = rng.choice([1, 1, 2, 3, 5, 8])
    header = rng.sample(["a", "b", "c d", "e,f", 'g"h', "i\tj", "k"], ncols)
    cols = []
    for _ in header:
        typ = rng.choice(["int", "special", "special", "str", "bool", "intnone", "strnone", "bigint", "float", "plain", "floatsci"])
        if typ == "special":
            col = [rng.choice(SPECIAL_CELLS) for _ in range(n)]
            if rng.random() < 0.5:
                col = ["".join(rng.choice(['a', ',', '\t', '"', '\n', ' ', 'b', "'"]) for _ in range(rng.randint(0, 5))) for _ in range(n)]
        elif typ == "plain":
            col = [rng.choice(["a", "ab", "k27", "a b", "", "abc", "B", "zz", "x_y"]) for _ in range(n)]
        elif typ == "floatsci":
            col = [rng.choice([1.5e-07, 1e20, 123456.789, 1e16, 0.001, 1e-05, 2.5e+30, -4.0, 0.0, 1e15, 7.25]) for _ in range(n)]
        elif typ == "strnone":
            col = [rng.choice(["p", "q r", None, ""]) for _ in range(n)]
        elif typ == "bigint":
            col = [rng.choice([-1, 1]) * rng.randint(0, 10 ** rng.randint(1, 15)) for _ in range(n)]
        else:
            col = rand_col(rng, typ, n, small=False)
        col = [x.replace("\u00e9", "e'") if isinstance(x, str) else x for x in col]
        # steer away from cells that only look numeric / evaluate (reported once by the corpus witnesses)
        if kind_of(col) in "UO" and any(isinstance(x, str) and looks_evaluable(x) for x in col):
            col = [("s" + x) if isinstance(x, str) and looks_evaluable(x) else x for x in col]
        cols.append(col)
    sep = rng.choice(["\t", ","])
    fmt = "tsv" if sep == "\t" else "csv"
    formats = [fmt]
    if rng.random() < 0.35:
        formats += [fmt + ".gz", "json", "pickle"]
    return rt_case(dict(header=header, cols=cols), sep, formats, "random-rt")


def looks_evaluable(s: str) -> bool:
    """would cast_str_to_array turn this text into something else than the text?"""
    for typ in (int, float, complex):
        try:
            typ(s)
            return True
        except ValueError:
            pass
    try:
        eval(s, {}, {})  # noqa: S307  (harness-side probe of literal-looking text)
        return True
    except (TypeError, NameError, SyntaxError):
        pass
    except Exception:  # noqa: BLE001
        return True
    try:
        eval(s)  # noqa: S307  builtins names such as "id"
        return True
    except Exception:  # noqa: BLE001
        return False


def corpus_cases():
    """one witness per finding class seen while building the check (kept so the verdict is stable)"""
    rng = random.Random(20)
    rows40 = [[rng.randint(0, 2), i] for i in range(40)]
    return [
        # (repaired) reverse sort of a string column with a proper-prefix pair
        dict(kind="ops", block="corpus", tables=[dict(header=["a", "b"], cols=[["a", "ab", "b"], [1, 2, 3]])],
             ops=[dict(op="sorted", columns=None, reverse=["a"])]),
        # (repaired) stability beyond 16 rows
        dict(kind="ops", block="corpus", tables=[dict(header=["k", "i"], cols=[[r[0] for r in rows40], [r[1] for r in rows40]])],
             ops=[dict(op="sorted", columns=["k"], reverse=None)]),
        # (repaired) cross join with a table without rows
        dict(kind="ops", block="corpus", tables=[dict(header=["a"], cols=[[1, 2]]), dict(header=["b"], cols=[[]])],
             ops=[dict(op="join", other=1, cs=None, co=None, inner=False, prefix="right_")]),
        # delimited round trip of a table without rows
        rt_case(dict(header=["a", "b"], cols=[[], []]), "\t", ["tsv", "csv", "json", "pickle"], "corpus"),
        # carriage return inside a cell
        rt_case(dict(header=["a", "b"], cols=[["x\ry", "p"], ["z", "q"]]), ",", ["csv", "json"], "corpus"),
        # text that only looks numeric
        rt_case(dict(header=["zip", "n"], cols=[["007", "010"], ["x", "y"]]), "\t", ["tsv"], "corpus"),   # accepted: restored as numbers
        # text that evaluates
        rt_case(dict(header=["a", "b"], cols=[["id", "x"], ["1+1", "y"]]), "\t", ["tsv"], "corpus"),
        rt_case(dict(header=["a", "b"], cols=[["1/0", "x"], ["p", "y"]]), "\t", ["tsv"], "corpus"),
        # integers beyond int64: OverflowError escapes cast_str_to_numeric
        rt_case(dict(header=["id", "n"], cols=[[2 ** 70, 2], [1, 2]]), "\t", ["tsv", "json"], "corpus"),
        # natural join of tables whose shared columns stand in a different order
        dict(kind="ops", block="corpus",
             tables=[dict(header=["a", "b", "p"], cols=[[1, 2], [2, 1], ["x", "y"]]),
                     dict(header=["b", "a", "q"], cols=[[2, 1], [1, 2], ["u", "v"]])],
             ops=[dict(op="join", other=1, cs=None, co=None, inner=True, prefix="right_")]),
        # transposed(select_as_header=b) of a table whose index_name is another column
        dict(kind="ops", block="corpus",
             tables=[dict(header=["a", "b", "c"], cols=[["r1", "r2"], ["k1", "k2"], [1, 2]], index_name="a")],
             ops=[dict(op="transposed", new="new", sah="b")]),
        # text that evaluates to a container: "1,2" is the tuple (1, 2), "[1,2]" a list
        rt_case(dict(header=["a", "b"], cols=[["1,2", "x"], ["[1,2]", "y"]]), "\t", ["tsv"], "corpus"),
        # a .bz2 suffix is honoured on load but written as <name>.bz2.gz
        rt_case(dict(header=["a"], cols=[[1, 2]]), "\t", ["tsv.bz2"], "corpus"),
        # .pkl is read as pickle but not written as pickle
        rt_case(dict(header=["a"], cols=[[1, 2]]), "\t", ["pkl"], "corpus"),
    ]


# ------------------------------------------------------------------ plain-Python oracle: list of row tuples


def rows_of(tb):
    n = len(tb["cols"][0]) if tb["cols"] else 0
    return [[col[i] for col in tb["cols"]] for i in range(n)]


def mk(header, rows):
    return dict(header=list(header), cols=[[r[j] for r in rows] for j in range(len(header))])


def o_pred(p):
    k = p[0]
    if k == "true":
        return lambda r: True
    if k == "gt":
        return lambda r: r[p[1]] > p[2]
    if k == "eqc":
        return lambda r: r[p[1]] == p[2]
    if k == "eqcols":
        return lambda r: r[p[1]] == r[p[2]]
    if k == "mulgt":
        return lambda r: r[p[1]] * r[p[2]] > p[3]
    if k == "sqgt":
        return lambda r: r[p[1]] ** 2 > p[2]
    if k == "addgt":
        return lambda r: r[p[1]] + r[p[2]] > p[3]
    if k == "not":
        q = o_pred(p[1])
        return lambda r: not q(r)
    raise ValueError(k)


def o_expr(e):
    k = e[0]
    if k == "const":
        return lambda r: e[1]
    if k == "add":
        return lambda r: r[e[1]] + r[e[2]]
    if k == "iseq":
        return lambda r: r[e[1]] == e[2]
    if k == "mul":
        return lambda r: r[e[1]] * r[e[2]]
    if k == "sq":
        return lambda r: r[e[1]] ** 2
    raise ValueError(k)


def homogeneous(vals):
    return len({type(v) for v in vals}) <= 1 and all(isinstance(v, (int, str, bool, float)) for v in vals)


def resolve_sort_columns(header, columns, reverse):
    """documented resolution of the two arguments; None where the call is invalid"""
    reverse = [reverse] if isinstance(reverse, str) else list(reverse or [])
    columns = [columns] if isinstance(columns, str) else columns
    if reverse and columns is None:
        columns = list(reverse)
    if columns is None:
        columns = list(header)
    columns = list(columns)
    if reverse and not set(columns) & set(reverse):
        columns += [c for c in reverse if c not in columns]
    if not set(reverse) <= set(columns) or len(set(columns)) != len(columns) or not set(columns) <= set(header):
        return None
    if len(set(reverse)) != len(reverse):
        return None
    return columns, reverse


def py_incomparable(vals):
    """would Python's < raise between two of these values?  None compares with nothing, numbers with
    numbers, strings with strings"""
    classes = {0 if v is None else 2 if isinstance(v, str) else 1 for v in vals}
    return 0 in classes or classes >= {1, 2}


def sort_spec(header, rows, columns, reverse, kinds=None):
    """stable sort by the key tuple with per-column reversal (ints / floats / bools by value, strings by code
    point, False < True).  Returns Exc(3) where Python's sort of the row tuples raises TypeError for sure (the
    FIRST key column holds values that cannot be compared, at least two rows); None where it is undetermined
    (such a column as a later key: it is only compared on ties of the earlier keys)."""
    res = resolve_sort_columns(header, columns, reverse)
    if res is None:
        return None
    columns, reverse = res
    for n, c in enumerate(columns):
        vals = [r[header.index(c)] for r in rows]
        if py_incomparable(vals) and len(rows) >= 2:
            if n == 0 or c in reverse:
                return Exc(3)      # a reversed column is ranked with numpy.unique, which sorts all its values
            return None
        if any(not isinstance(v, (int, float, str, bool)) for v in vals) and len(rows) >= 2:
            return None
    out = list(rows)
    for c in reversed(columns):
        j = header.index(c)
        out.sort(key=lambda r: r[j], reverse=c in reverse)
    return out


def join_key_names(h0, h1, cs, co):
    if cs is None and co is None:
        ks = [c for c in h0 if c in h1]
        return ks, list(ks)          # natural join: the same-named columns are compared
    if cs is None or co is None:
        k = cs or co
        return k, k
    return cs, co


def oracle_step(o, cur, tables):
    """expected observation after op o on table `cur` (header/cols), or None where the
    list-of-rows specification does not say (invalid arguments, unmodelled corner)."""
    header, rows = cur["header"], rows_of(cur)
    k = o["op"]
    if k == "join":
        other = tables[o["other"]]
        h1, rows1 = other["header"], rows_of(other)
        if not o["inner"]:
            if o["cs"] is not None or o["co"] is not None:
                return None
            nh = header + ["right_" + c for c in h1]
            if len(set(nh)) != len(nh):
                return None
            return mk(nh, [r + r1 for r in rows for r1 in rows1])
        ks, ko = join_key_names(header, h1, o["cs"], o["co"])
        if not ks or len(ks) != len(ko) or not set(ks) <= set(header) or not set(ko) <= set(h1):
            return None
        mask = [j for j, c in enumerate(h1) if c not in ko]
        nh = header + [o["prefix"] + h1[j] for j in mask]
        if len(set(nh)) != len(nh):
            return None
        i0 = [header.index(c) for c in ks]
        i1 = [h1.index(c) for c in ko]
        out = [r + [r1[j] for j in mask] for r in rows for r1 in rows1
               if [r[i] for i in i0] == [r1[i] for i in i1]]
        return mk(nh, out)
    if k == "sorted":
        if not rows:
            return None
        kinds = cur.get("kinds") or [kind_of(col) for col in cur["cols"]]
        out = sort_spec(header, rows, o["columns"], o["reverse"], kinds=kinds)
        if isinstance(out, Exc):
            return out
        return None if out is None else mk(header, out)
    if k in ("filtered", "count"):
        cols = o["columns"] if o["columns"] is not None else header
        if not set(cols) <= set(header):
            return None
        idx = [header.index(c) for c in cols]
        f = o_pred(o["pred"])
        try:
            keep = [r for r in rows if f([r[i] for i in idx]) is True]
        except TypeError:
            return None
        return mk(header, keep) if k == "filtered" else len(keep)
    if k == "filtered_by_column":
        keepc = [j for j, col in enumerate(cur["cols"]) if any(x == o["cell"] for x in col)]
        if rows and not keepc:
            return dict(header=[], cols=[])
        return mk([header[j] for j in keepc], [[r[j] for j in keepc] for r in rows])
    if k == "get_columns":
        if not set(o["columns"]) <= set(header) or len(set(o["columns"])) != len(o["columns"]):
            return None
        idx = [header.index(c) for c in o["columns"]]
        return mk(o["columns"], [[r[i] for i in idx] for r in rows])
    if k == "with_new_column":
        cols = o["columns"] if o["columns"] is not None else header
        if not set(cols) <= set(header):
            return None
        idx = [header.index(c) for c in cols]
        f = o_expr(o["expr"])
        try:
            vals = [f([r[i] for i in idx]) for r in rows]
        except TypeError:
            return None
        keepc = [j for j, c in enumerate(header) if c != o["name"]]
        return mk([header[j] for j in keepc] + [o["name"]], [[r[j] for j in keepc] + [v] for r, v in zip(rows, vals)])
    if k == "distinct":
        if not set(o["columns"]) <= set(header):
            return None
        idx = [header.index(c) for c in o["columns"]]
        return sorted(_pyset([[r[i] for i in idx] for r in rows]), key=repr)
    if k in ("count_unique", "distinct_arg"):
        a = o["arg"]
        form, val = a["form"], a.get("value")
        if form == "none":
            if k == "distinct_arg":
                return Exc(5)
            names = list(header)
        elif form == "name":
            names = [val]
        elif form == "int":
            if not -len(header) <= val < len(header):
                return Exc(5)
            names = [header[val]]
        else:
            names = list(val)
        if not set(names) <= set(header):
            return Exc(5)
        if len(set(names)) != len(names):
            return None
        idx = [header.index(c) for c in names]
        scalar = len(names) == 1          # however the single column was spelled
        keys, counts = [], []
        for r in rows:
            kk = [r[i] for i in idx]
            for n, k2 in enumerate(keys):
                if k2 == kk:
                    counts[n] += 1
                    break
            else:
                keys.append(kk)
                counts.append(1)
        if k == "distinct_arg":
            return [scalar, sorted(keys, key=repr)]
        return [scalar, sorted(([kk, n] for kk, n in zip(keys, counts)), key=repr)]
    if k == "appended":
        if o["newcol"] is not None and o["newcol"] in header:
            return None
        series = [(o["self_title"], cur)] + [(t, tables[i]) for t, i in o["others"]]
        out = []
        for title, tb in series:
            if set(tb["header"]) != set(header) or len(tb["header"]) != len(header):
                return None
            idx = [tb["header"].index(c) for c in header]
            for r in rows_of(tb):
                rr = [r[i] for i in idx]
                out.append(([title] if o["newcol"] is not None else []) + rr)
        nh = ([o["newcol"]] if o["newcol"] is not None else []) + header
        return mk(nh, out)
    if k == "transposed":
        if not header:
            return None
        sah = o["sah"] or header[0]
        if sah not in header:
            return None
        j = header.index(sah)
        vals = [r[j] for r in rows]
        if len(_pyset(vals)) != len(vals):
            return None
        nh = [o["new"]] + [str(v) for v in vals]
        if len(set(nh)) != len(nh) or any(h != h.strip() for h in nh):
            return None
        others = [c for c in header if c != sah]
        return mk(nh, [[c] + [r[header.index(c)] for r in rows] for c in others])
    raise ValueError(k)


def same_table(obs, exp):
    """observation [header, cols, nrows, kinds] against the oracle's header/cols.  A table without
    rows is compared on its rows only (the implementation drops the columns of empty tables in
    several places; the row-list specification cannot see that)."""
    h, cols = obs[0], obs[1]
    n_exp = len(exp["cols"][0]) if exp["cols"] else 0
    n_obs = len(cols[0]) if cols else 0
    if n_exp == 0 and n_obs == 0:
        return True
    return h == exp["header"] and cols == exp["cols"] and all(
        _same_type(a, b) for ca, cb in zip(cols, exp["cols"]) for a, b in zip(ca, cb))


def _same_type(a, b):
    """an int put into a column together with floats is held as the equal float (numpy column typing)"""
    if type(a) is type(b):
        return True
    return {type(a), type(b)} == {int, float}


def natural_order_differs(o, cur, tables):
    if o["op"] != "join" or not o["inner"] or o["cs"] is not None or o["co"] is not None:
        return False
    h0, h1 = cur["header"], tables[o["other"]]["header"]
    return [c for c in h0 if c in h1] != [c for c in h1 if c in h0]


def in_refuted_region(o, cur, tables):
    """inputs on which the faithful model is PROVED to violate the specification (`_refuted` theorems of
    Properties/C20.v).  For table operations there is none left (reverse sort, cross join and natural-join
    key pairing were repaired and the model follows the repaired code); the carriage-return region of the
    delimited round trip is handled in compare_rt."""
    return False


def _decode_obs(v):
    """floats travel as {"float": repr}"""
    if isinstance(v, dict) and "float" in v:
        return float(v["float"])
    if isinstance(v, list):
        return [_decode_obs(x) for x in v]
    return v


def op_dtype_keys(o, cur, tables):
    """which column dtypes (numpy kind letters: i int, f float, U str, b bool, O object = None/mixed) an
    operation was exercised on -- measured, printed into the evidence"""
    header = cur["header"]
    kinds = cur.get("kinds") or [kind_of(col) for col in cur["cols"]]
    kd = dict(zip(header, kinds))
    k = o["op"]
    out = []
    if k == "sorted":
        res = resolve_sort_columns(header, o["columns"], o["reverse"])
        if res:
            cols, rev = res
            for c in cols:
                out.append(f"sorted:{kd.get(c)}:{'reverse' if c in rev else 'ascending'}:{'single' if len(cols) == 1 else 'multikey'}")
    elif k == "join":
        other = tables[o["other"]]
        if not o["inner"]:
            out.append("cross_join:" + ("empty" if not rows_of(cur) or not rows_of(other) else "rows"))
        else:
            ks, ko = join_key_names(header, other["header"], o["cs"], o["co"])
            okd = dict(zip(other["header"], [kind_of(col) for col in other["cols"]]))
            for a, b in zip(ks or [], ko or []):
                out.append(f"join:key:{kd.get(a)}={okd.get(b)}")
    elif k in ("filtered", "count", "with_new_column", "get_columns", "distinct"):
        cols = o.get("columns") if o.get("columns") is not None else header
        for c in cols:
            out.append(f"{k}:{kd.get(c)}")
    elif k in ("count_unique", "distinct_arg"):
        a = o["arg"]
        n = (len(header) if a["form"] == "none" else 1 if a["form"] in ("name", "int") else len(a["value"]))
        out.append(f"{k}:form={a['form']}:{'one' if n == 1 else 'many' if n > 1 else 'zero'}-column{'' if len(header) != 1 else ':one-column-table'}")
    elif k in ("appended", "transposed", "filtered_by_column"):
        for c in header:
            out.append(f"{k}:{kd.get(c)}")
    return out


def strip_kinds(v):
    if isinstance(v, list) and len(v) == 4 and isinstance(v[0], list) and isinstance(v[2], int) and isinstance(v[3], list):
        return v[:3]
    return v


def is_exc(v):
    return isinstance(v, dict) and "exc" in v


# ------------------------------------------------------------------ comparison


def classify_ops(o, cur, tables, obs, exp):
    k = o["op"]
    if k == "join" and not o["inner"]:
        empty = not rows_of(cur) or not rows_of(tables[o["other"]])
        return "cross_join:empty-table" if empty else "cross_join:rows"
    if k == "join":
        if natural_order_differs(o, cur, tables):
            return "inner_join:natural:shared-columns-in-different-order"
        return "inner_join:" + ("natural" if o["cs"] is None and o["co"] is None else "explicit-keys")
    if k == "sorted":
        if is_exc(obs):
            return "sorted:raises"
        header, rows = cur["header"], rows_of(cur)
        got = rows_of(dict(header=obs[0], cols=obs[1]))
        exp_rows = rows_of(exp)
        # same multiset and same key sequence => only ties were reordered
        cols = resolve_sort_columns(header, o["columns"], o["reverse"])[0]
        idx = [header.index(c) for c in cols]
        if sorted(map(repr, got)) == sorted(map(repr, exp_rows)) and \
                [[r[i] for i in idx] for r in got] == [[r[i] for i in idx] for r in exp_rows]:
            return "sorted:unstable-ties"
        return "sorted:order"
    if k in ("filtered", "count", "with_new_column") and effective_form(o, cur) == "string":
        return k + ":string-callback" + (":raises" if is_exc(obs) else "")
    if tables and tables[0].get("index_name"):
        return k + ":index_name-set"
    return k + (":raises" if is_exc(obs) else ":rows")


def effective_form(o, cur):
    """the impl runner uses the string form only when every selected column name is an identifier"""
    import keyword

    if o.get("form") != "string":
        return "callable"
    names = o["columns"] if o.get("columns") is not None else cur["header"]
    ok = all(isinstance(c, str) and c.isidentifier() and not keyword.iskeyword(c) for c in names)
    return "string" if ok and names else "callable"


def compare_ops(rep, c, ir, mr, stats):
    """returns list of disagreements (model vs implementation where the oracle is silent or agrees)"""
    dis = []
    tables = c["tables"]
    cur = dict(header=tables[0]["header"], cols=tables[0]["cols"])
    if is_exc(ir):  # the runner itself failed
        rep.violation("runner:" + str(ir.get("tb", ""))[-80:], dict(case=c, observed_impl=ir, broken="implementation runner failed"))
        return dis
    for i, o in enumerate(c["ops"]):
        if i >= len(ir):
            break
        obs = _decode_obs(ir[i])
        seen_types = None
        if o["op"] in ("filtered", "with_new_column") and isinstance(obs, list) and len(obs) == 5:
            seen_types, obs = obs[4], obs[:4]
        elif o["op"] == "count" and isinstance(obs, list):
            seen_types, obs = obs[1], obs[0]
        if seen_types is not None:
            stats["cb_types"] = sorted(set(stats.get("cb_types", [])) | set(seen_types))
            bad_types = [t for t in seen_types if t not in ("int", "float", "str", "bool", "NoneType")]
            if bad_types:
                stats["spec_violations"] += 1
                rep.violation(o["op"] + ":callable-sees-non-python-values",
                              dict(case=dict(kind="ops", tables=[dict(header=cur["header"], cols=cur["cols"])] + tables[1:], ops=[o]),
                                   op=o, expected_by_spec="the callable is handed Python int/float/str/bool/None values",
                                   observed_impl=dict(types_handed_to_callable=seen_types),
                                   broken="a callable callback received numpy scalars instead of Python values"))
        if o["op"] == "distinct" and isinstance(obs, list):
            obs = sorted(obs, key=repr)  # canonical order after floats are decoded
        if o["op"] in ("count_unique", "distinct_arg") and isinstance(obs, list):
            cross = obs[2] if o["op"] == "count_unique" else None
            obs = [obs[0], sorted(obs[1], key=repr)]
            if cross is not None and not (isinstance(cross, list) and cross[0] == obs[0]
                                          and sorted(cross[1], key=repr) == sorted([e[0] for e in obs[1]], key=repr)):
                stats["spec_violations"] += 1
                rep.violation("count_unique:keys-differ-from-distinct_values",
                              dict(case=dict(kind="ops", tables=[dict(header=cur["header"], cols=cur["cols"])] + tables[1:], ops=[o]), op=o,
                                   expected_by_spec="count_unique(arg) has exactly the keys distinct_values(arg) returns, in the same scalar / tuple form",
                                   observed_impl=dict(count_unique=obs, distinct_values=cross),
                                   broken="count_unique and distinct_values disagree for the same argument"))
        stats["steps"] += 1
        stats["ops"][o["op"]] = stats["ops"].get(o["op"], 0) + 1
        for dk in op_dtype_keys(o, cur, tables):
            stats.setdefault("op_dtype", {})[dk] = stats.get("op_dtype", {}).get(dk, 0) + 1
        exp = oracle_step(o, cur, tables)
        if o["op"] in ("count_unique", "distinct_arg") and isinstance(obs, list) and obs[0] is None and isinstance(exp, list):
            obs = [exp[0], obs[1]]   # no keys: the scalar / tuple form cannot be observed
        if mr is not None and i >= len(mr):
            mr = None  # the model stopped at an error the implementation (legitimately, see below) did not have
        m = mr[i] if mr is not None else None
        if o["op"] in ("count_unique", "distinct_arg") and isinstance(m, list) and len(m) == 2:
            m = [m[0], sorted(m[1], key=repr)]
        obs_cmp = {"exc": obs["exc"]} if is_exc(obs) else strip_kinds(obs)
        first = dict(header=cur["header"], cols=cur["cols"])
        if i == 0 and tables[0].get("index_name"):
            first["index_name"] = tables[0]["index_name"]
        small = dict(kind="ops", tables=[first] + tables[1:], ops=[o], block=c.get("block"))
        bad = False
        if exp is not None:
            stats["oracle_applied"] += 1
            if isinstance(exp, Exc):
                bad = not (is_exc(obs) and obs["exc"] == exp.code)
            elif isinstance(exp, dict):
                bad = is_exc(obs) or not same_table(obs, exp)
            else:
                bad = is_exc(obs) or obs != exp
            if bad:
                key = classify_ops(o, cur, tables, obs, exp) if not isinstance(exp, Exc) else o["op"] + ":expected-TypeError"
                rep.violation(key, dict(case=small, op=o, expected_by_spec=exp if not isinstance(exp, Exc) else {"exc": exp.code}, observed_impl=obs,
                                        model_output=_jm(m), broken="Table." + o["op"] + " differs from the list-of-rows specification"))
                stats["spec_violations"] += 1
                stats.setdefault("vkeys", []).append(key)
        if mr is not None and bad:
            # a reported violation: later steps start from the implementation's table, which the model may not share
            if ({"exc": m.code} if isinstance(m, Exc) else m) != obs_cmp:
                mr = None
        elif mr is not None:
            m_cmp = {"exc": m.code} if isinstance(m, Exc) else m
            skip = isinstance(m, Exc) and m.code == E_NOT_MODELLED
            if o["op"] == "sorted" and not skip:
                # the model infers a column's dtype from its cells; skip when numpy holds a column as object
                if any(k == "O" and kind_of(col) != "O" for k, col in zip(cur.get("kinds") or [], cur["cols"])):
                    skip = True
            if o["op"] == "sorted" and not skip and not is_exc(obs) and obs[2] > 16 and isinstance(m_cmp, list) \
                    and m_cmp != obs_cmp and exp is None:
                # beyond 16 rows numpy's argsort is not the stable sort of the model; where the oracle is silent
                # compare the row multisets only
                tr = lambda t: sorted(map(repr, rows_of(dict(header=t[0], cols=t[1]))))
                if m_cmp[0] == obs_cmp[0] and tr(m_cmp) == tr(obs_cmp):
                    skip = True
            if not skip and m_cmp != obs_cmp and in_refuted_region(o, cur, tables):
                stats["refuted_region_repaired"] = stats.get("refuted_region_repaired", 0) + 1
                skip = True
                mr = None  # the model's table state has diverged: later steps are checked by the oracle only
            if skip:
                stats["not_modelled"] += 1
                if m_cmp != obs_cmp:
                    mr = None  # the model's table state has diverged: later steps are checked by the oracle only
            elif m_cmp != obs_cmp:
                dis.append(dict(key=o["op"], case=small, op=o, observed_impl=obs, model_output=_jm(m),
                                expected_by_spec=exp if exp is None or not isinstance(exp, Exc) else None))
        if is_exc(obs):
            break
        if o["op"] not in ("count", "distinct", "count_unique", "distinct_arg"):
            cur = dict(header=obs[0], cols=obs[1], kinds=obs[3] if len(obs) > 3 else None)
            if nontrivial_step(o, obs):
                stats["nontrivial"].add(json.dumps([small["tables"], o], sort_keys=True, default=str))
        elif obs not in (0, []) and not (isinstance(obs, list) and len(obs) == 2 and obs[1] == []):
            stats["nontrivial"].add(json.dumps([small["tables"], o], sort_keys=True, default=str))
    return dis


def nontrivial_step(o, obs):
    n = obs[2]
    if o["op"] == "join":
        return n >= 1
    if o["op"] == "sorted":
        return n >= 2
    return n >= 1


def _jm(m):
    if isinstance(m, Exc):
        return {"exc": m.code}
    if isinstance(m, list):
        return [_jm(x) for x in m]
    return m


def cell_text(x):
    if x is None:
        return ""
    if isinstance(x, dict) and "float" in x:
        return repr(float(x["float"]))
    if isinstance(x, float):
        return repr(x)
    return str(x)


def _decode(x):
    if isinstance(x, dict):
        if "float" in x:
            return float(x["float"])
        if "complex" in x:
            return complex(x["complex"])
        if "seq" in x:
            return [_decode(e) for e in x["seq"]]
        return x
    return x


def _norm_lit(v):
    if isinstance(v, (list, tuple)):
        return [_norm_lit(e) for e in v]
    return v


def numeric_restoration(orig, got):
    """the loader turned the text `orig` into the number / Python literal it denotes (the documented
    purpose of the type inference: "numeric columns restored as numbers"; containers and None are
    restored the same way, which the pinned unit tests require).  Text that is a quoted string literal,
    or that is not a literal at all, must come back unchanged."""
    import ast

    got = _decode(got)
    if not isinstance(orig, str) or isinstance(got, (str, dict)):
        return False
    if not isinstance(got, (bool, list)) and isinstance(got, (int, float, complex)):
        try:
            if type(got)(orig) == got:
                return True
        except ValueError:
            pass
    try:
        lit = ast.literal_eval(orig)
    except Exception:  # noqa: BLE001
        return False
    if isinstance(lit, (str, bytes)) or _norm_lit(lit) != got or type(_norm_lit(lit)) is not type(got):
        return False
    # numbers are restored as numbers; any other literal only when the text is exactly its repr
    # ("()" -> (), "None" -> None), so that the cell text is the same
    return isinstance(lit, (int, float, complex)) or repr(lit) == orig.strip()


def loaded_text(x):
    if isinstance(x, dict):
        if "float" in x:
            return repr(float(x["float"]))
        return "<" + json.dumps(x, sort_keys=True) + ">"
    return "" if x is None else str(x)


def has_cr_cells(tb):
    return any(isinstance(x, str) and "\r" in x for col in tb["cols"] for x in col) or any("\r" in h for h in tb["header"])


def classify_rt(tb, fmt, entry):
    cells = [x for col in tb["cols"] for x in col] + list(tb["header"])
    n = len(tb["cols"][0]) if tb["cols"] else 0
    base = "delimited" if fmt.split(".")[0] in ("tsv", "csv") else fmt
    if fmt == "pkl":
        return "roundtrip:pkl-suffix-not-written-as-pickle"
    if fmt.endswith(".bz2"):
        return "roundtrip:bz2-suffix-written-as-gz"
    if base == "delimited":
        if n == 0:
            return "roundtrip:delimited:table-without-rows"
        if any(isinstance(x, str) and "\r" in x for x in cells):
            return "roundtrip:delimited:carriage-return"
        if any(isinstance(x, int) and not isinstance(x, bool) and not -2 ** 63 <= x < 2 ** 63 for x in cells):
            return "roundtrip:delimited:int-beyond-int64"
        strs = [x for col in tb["cols"] if kind_of(col) in "UO" for x in col if isinstance(x, str)]
        if any(looks_evaluable(x) for x in strs):
            if is_exc(entry.get("loaded")):
                return "roundtrip:delimited:text-evaluated:raises"
            return "roundtrip:delimited:text-evaluated"
        if is_exc(entry.get("loaded")):
            return "roundtrip:delimited:load-raises"
        return "roundtrip:delimited:cell-text"
    return f"roundtrip:{base}"


def compare_rt(rep, c, ir, mr, stats):
    dis = []
    tb = c["table"]
    header = tb["header"]
    n = len(tb["cols"][0]) if tb["cols"] else 0
    text_rows = [list(header)] + [[cell_text(col[i]) for col in tb["cols"]] for i in range(n)]
    if is_exc(ir):
        rep.violation("runner:" + str(ir.get("tb", ""))[-80:], dict(case=c, observed_impl=ir, broken="implementation runner failed"))
        return dis
    for fmt in c["formats"]:
        entry = ir.get(fmt, {})
        stats["steps"] += 1
        stats["ops"]["rt:" + fmt] = stats["ops"].get("rt:" + fmt, 0) + 1
        small = dict(c, formats=[fmt])
        loaded = entry.get("loaded")
        problems = []
        if fmt in ("tsv", "csv"):
            if entry.get("records") != text_rows:
                problems.append("load_delimited(write(t)) does not return the header and cell text written")
        if is_exc(loaded) or loaded is None:
            problems.append(f"load_table raised {loaded}")
        elif fmt in ("json", "pickle", "pkl"):
            if loaded[0] != header or (n and _decode_obs(loaded[1]) != tb["cols"]) or loaded[2] != n:
                problems.append("loaded table differs")
        else:
            if loaded[0] != header or loaded[2] != n:
                problems.append("header / number of rows differ")
            else:
                for col, lcol in zip(tb["cols"], loaded[1]):
                    if any(cell_text(x) != loaded_text(y) and not numeric_restoration(x, y) for x, y in zip(col, lcol)):
                        problems.append("cell text differs")
                        break
                    if kind_of(col) in "ibf" and [type(x) for x in col] != [type(_decode(x)) for x in lcol]:
                        problems.append("numeric column not restored as numbers")
                        break
        stats["oracle_applied"] += 1
        if problems:
            stats["spec_violations"] += 1
            rep.violation(classify_rt(tb, fmt, entry), dict(case=small, expected_by_spec=dict(header=header, cell_text=text_rows[1:]),
                                                            observed_impl=entry, model_output=_jm(mr), broken="; ".join(problems)))
        elif n:
            stats["nontrivial"].add(json.dumps([tb, fmt], sort_keys=True, default=str))
        # model tie: file text and the records csv.reader returns
        if mr is not None and fmt in ("tsv", "csv") and fmt == ("tsv" if c["sep"] == "\t" else "csv") and not problems:
            m_text, m_rows = mr[0], mr[1]
            m_loaded = mr[2] if len(mr) > 2 else None
            if m_loaded is not None and not (isinstance(m_loaded, Exc) and m_loaded.code == E_NOT_MODELLED) and not has_cr_cells(tb):
                stats["typed_ties"] = stats.get("typed_ties", 0) + 1
                got = _decode_obs(loaded[:3]) if isinstance(loaded, list) else loaded
                want = {"exc": m_loaded.code} if isinstance(m_loaded, Exc) else m_loaded
                if isinstance(got, dict):
                    got = {"exc": got.get("exc")}
                if got != want or (isinstance(got, list) and not all(
                        type(a) is type(b) for ca, cb in zip(got[1], want[1]) for a, b in zip(ca, cb))):
                    dis.append(dict(key="rt-typed:" + fmt, case=small, observed_impl=entry, model_output=_jm(mr)))
            elif m_loaded is not None:
                stats["typed_not_modelled"] = stats.get("typed_not_modelled", 0) + 1
            m_rows = {"exc": m_rows.code} if isinstance(m_rows, Exc) else m_rows
            has_cr = any(isinstance(x, str) and "\r" in x for col in tb["cols"] for x in col) or any("\r" in h for h in header)
            if has_cr:
                stats["refuted_region_repaired"] = stats.get("refuted_region_repaired", 0) + 1
            elif entry.get("text") != m_text or entry.get("records") != m_rows:
                dis.append(dict(key="rt:" + fmt, case=small, observed_impl=entry, model_output=_jm(mr)))
    return dis


def model_ok_for(c):
    """cases whose cells the Coq model can represent (no floats)"""
    def ok(x):
        import math
        if isinstance(x, float):
            # finite, not -0.0, and the decimal repr shows reads back to the same float
            return math.isfinite(x) and repr(x) != "-0.0" and dec_float(*float_dec(x)) == x
        return x is None or isinstance(x, (bool, int, str))
    tbs = c["tables"] if c["kind"] in ("ops", "iops") else [c["table"]]
    if c["kind"] == "ops" and any(t.get("index_name") for t in tbs):
        return False
    return all(ok(x) for t in tbs for col in t["cols"] for x in col)


# ------------------------------------------------------------------ index_name, title, legend


def with_index_first(tb, ix):
    """the column order of a table whose index_name is ix"""
    if ix is None or ix not in tb["header"]:
        return dict(header=list(tb["header"]), cols=list(tb["cols"]))
    j = tb["header"].index(ix)
    order = [j] + [k for k in range(len(tb["header"])) if k != j]
    return dict(header=[tb["header"][k] for k in order], cols=[tb["cols"][k] for k in order])


def unique_values(col):
    return len(_pyset(col)) == len(col)


def oracle_istep(o, cur, ix, tables):
    """list-of-rows specification for a table that carries an index column: the rows are those of the
    un-indexed operation, the index column stands first, and row labels select rows.
    returns (expected, new_index) ; expected None where the specification is silent"""
    k = o["op"]
    header = cur["header"]
    if k in ("lookup", "row"):
        if ix is None:
            return None, ix
        rows = rows_of(cur)
        j = header.index(ix)
        hit = [r for r in rows if r[j] == o["label"]]
        if not hit:
            return Exc(5), ix
        if k == "lookup":
            if o["col"] not in header:
                return Exc(5), ix
            return hit[0][header.index(o["col"])], ix
        return dict(mk(header, hit[:1]), index=ix), ix
    if k == "inner_join_index":
        # Table.inner_join(other), default use_index=True: rows pair on self[index] == other[other's index]
        other = with_index_first(tables[o["other"]], o["other_index"])
        oi = o["other_index"]
        if ix is None or oi is None:
            return Exc(2), ix
        h1, rows1 = other["header"], rows_of(other)
        mask = [j for j, c in enumerate(h1) if c != oi]
        nh = header + [o["prefix"] + h1[j] for j in mask]
        if len(set(nh)) != len(nh):
            return None, ix
        i0, i1 = header.index(ix), h1.index(oi)
        out = [r + [r1[j] for j in mask] for r in rows_of(cur) for r1 in rows1 if r[i0] == r1[i1]]
        exp = mk(nh, out)
        if not unique_values(exp["cols"][exp["header"].index(ix)]):
            return None, ix          # the kept index is no longer unique: the code raises on activation
        return dict(exp, index=ix), ix
    if k == "get_columns_ix":
        names = list(o["columns"])
        if ix is not None and o["with_index"]:
            names = [ix] + [c for c in names if c != ix]
        exp = oracle_step(dict(op="get_columns", columns=names), cur, tables)
        if not isinstance(exp, dict):
            return None, ix
        nix = ix if ix in exp["header"] else None
        return dict(with_index_first(exp, nix), index=nix), nix
    exp = oracle_step(o, cur, tables)
    if k in ("count", "distinct", "count_unique", "distinct_arg"):
        return exp, ix
    if not isinstance(exp, dict):
        return None, ix
    if k == "transposed" or (k == "join" and not o["inner"]):
        nix = None
    elif k in ("with_new_column", "get_columns"):
        if k == "get_columns" and ix is not None:
            return oracle_istep(dict(op="get_columns_ix", columns=o["columns"], with_index=True), cur, ix, tables)
        nix = ix if ix in exp["header"] else None
    else:
        nix = ix
    if nix is not None:
        if nix not in exp["header"]:
            return None, ix          # the index column is gone: the code raises on activation
        if not unique_values(exp["cols"][exp["header"].index(nix)]):
            return None, ix          # the kept index is no longer unique: the code raises on activation
    return dict(with_index_first(exp, nix), index=nix), nix


def compare_iops(rep, c, ir, mr, stats):
    dis = []
    tables = c["tables"]
    ix = tables[0].get("index_name")
    stats["ops"]["index:cases"] = stats["ops"].get("index:cases", 0) + 1
    t0 = tables[0]
    valid = ix is None or (ix in t0["header"] and unique_values(t0["cols"][t0["header"].index(ix)]))
    if not valid:
        # construction must fail (ValueError), in the model as well
        ok = isinstance(ir, list) and len(ir) == 1 and is_exc(ir[0]) and ir[0]["exc"] == 2
        stats["steps"] += 1
        stats["oracle_applied"] += 1
        if not ok:
            stats["spec_violations"] += 1
            rep.violation("index_name:invalid-index-accepted", dict(case=c, expected_by_spec="ValueError", observed_impl=ir,
                                                                   broken="an index_name that is not a column with unique values was accepted"))
        elif mr is not None and mr != [Exc(2)]:
            dis.append(dict(key="index:construct", case=c, observed_impl=ir, model_output=_jm(mr)))
        return dis
    cur = with_index_first(t0, ix)
    for i, o in enumerate(c["ops"]):
        if i >= len(ir):
            break
        obs = _decode_obs(ir[i])
        stats["steps"] += 1
        stats["ops"]["index:" + o["op"]] = stats["ops"].get("index:" + o["op"], 0) + 1
        if mr is not None and i >= len(mr):
            mr = None
        m = mr[i] if mr is not None else None
        exp, nix = oracle_istep(o, cur, ix, tables)
        small = dict(kind="iops", tables=[dict(cur, index_name=ix)] + tables[1:], ops=[o], block=c.get("block"))
        # normal form of the observation: tables as [[header, cols, nrows], index]
        if isinstance(obs, list) and len(obs) == 2 and isinstance(obs[0], list) and len(obs[0]) == 4:
            obs_n = [obs[0][:3], obs[1]]
        elif is_exc(obs):
            obs_n = {"exc": obs["exc"]}
        elif o["op"] in ("count_unique", "distinct_arg") and isinstance(obs, list):
            obs_n = [obs[0] if obs[0] is not None or not isinstance(exp, list) else exp[0], sorted(obs[1], key=repr)]
        else:
            obs_n = sorted(obs, key=repr) if o["op"] == "distinct" and isinstance(obs, list) else obs
        if o["op"] in ("count_unique", "distinct_arg") and isinstance(m, list) and len(m) == 2:
            m = [m[0], sorted(m[1], key=repr)]
        bad = False
        if exp is not None:
            stats["oracle_applied"] += 1
            if isinstance(exp, Exc):
                bad = not (is_exc(obs) and obs["exc"] == exp.code)
            elif isinstance(exp, dict):
                # a table without rows loses its columns (and with them the index) in several places; the row-list
                # specification cannot see that
                no_rows = not rows_of(exp)
                bad = (is_exc(obs) or not isinstance(obs_n, list) or not same_table(obs_n[0], exp)
                       or (obs_n[1] != exp["index"] and not no_rows))
            else:
                bad = is_exc(obs) or obs_n != exp
            if bad:
                stats["spec_violations"] += 1
                rep.violation("index_name:" + o["op"], dict(case=small, op=o, expected_by_spec=exp if not isinstance(exp, Exc) else {"exc": exp.code},
                                                            observed_impl=obs, model_output=_jm(m),
                                                            broken="Table." + o["op"] + " on a table with index_name differs from the specification"))
        if mr is not None:
            m_cmp = {"exc": m.code} if isinstance(m, Exc) else (sorted(m, key=repr) if o["op"] == "distinct" and isinstance(m, list) else m)
            if isinstance(m, Exc) and m.code == E_NOT_MODELLED:
                stats["not_modelled"] += 1
                mr = None
            elif m_cmp != obs_n:
                if bad:
                    mr = None
                else:
                    dis.append(dict(key="index:" + o["op"], case=small, op=o, observed_impl=obs, model_output=_jm(m)))
        if is_exc(obs):
            break
        if o["op"] not in ("count", "distinct", "lookup", "row", "count_unique", "distinct_arg"):
            if not (isinstance(obs, list) and len(obs) == 2 and isinstance(obs[0], list)):
                break
            cur = dict(header=obs[0][0], cols=obs[0][1], kinds=obs[0][3])
            ix = obs[1]
            if obs[0][2] >= 1:
                stats["nontrivial"].add(json.dumps([small["tables"], o], sort_keys=True, default=str))
        elif obs not in (0, []):
            stats["nontrivial"].add(json.dumps([small["tables"], o], sort_keys=True, default=str))
    return dis


def compare_irt(rep, c, ir, mr, stats):
    dis = []
    tb, ix = c["table"], c["index_name"]
    stats["steps"] += 1
    stats["ops"]["rt:title-legend-index"] = stats["ops"].get("rt:title-legend-index", 0) + 1
    stats["oracle_applied"] += 1
    exp_t = with_index_first(tb, ix)
    loaded = _decode_obs(ir.get("loaded")) if isinstance(ir, dict) else ir
    ok = (isinstance(loaded, list) and loaded[0] == c["title"] and loaded[1] == c["legend"]
          and loaded[2][1] == ix and loaded[2][0][0] == exp_t["header"] and loaded[2][0][2] == len(rows_of(exp_t))
          and all(cell_text(x) == loaded_text(y) or numeric_restoration(x, y)
                  for ca, cb in zip(exp_t["cols"], loaded[2][0][1]) for x, y in zip(ca, cb)))
    if not ok:
        stats["spec_violations"] += 1
        rep.violation("roundtrip:delimited:title-legend-index", dict(case=c, expected_by_spec=dict(title=c["title"], legend=c["legend"], index=ix,
                                                                     header=exp_t["header"]), observed_impl=ir, model_output=_jm(mr),
                                                                     broken="write + load_table(with_title, with_legend, index_name) does not return title / legend / index / cells"))
    elif rows_of(tb):
        stats["nontrivial"].add(json.dumps([tb, c["title"], c["legend"], ix], sort_keys=True, default=str))
    if mr is not None and ok and not (isinstance(mr, Exc)):
        m_text, m_loaded = mr[0], mr[1]
        if isinstance(m_loaded, Exc) and m_loaded.code == E_NOT_MODELLED:
            stats["typed_not_modelled"] = stats.get("typed_not_modelled", 0) + 1
        else:
            got = [loaded[0], loaded[1], [loaded[2][0][:3], loaded[2][1]]]
            want = {"exc": m_loaded.code} if isinstance(m_loaded, Exc) else m_loaded
            if ir.get("text") != m_text or got != want:
                dis.append(dict(key="irt", case=c, observed_impl=ir, model_output=_jm(mr)))
            else:
                stats["typed_ties"] = stats.get("typed_ties", 0) + 1
    return dis


def index_block(tier, rng):
    """tables with index_name: the index column anywhere in the header, every operation, row-label lookups,
    joins / appends that break the uniqueness of the kept index, invalid indexes; delimited round trips with
    title and legend rows and index_name"""
    cases = []
    t0 = dict(header=["x", "id", "y"], cols=[[3, 1, 2], ["r1", "r2", "r3"], ["a", "b", "a"]], index_name="id")
    o1 = dict(header=["y", "q"], cols=[["a", "a", "b"], [10, 11, 12]])
    o2 = dict(header=["y", "q"], cols=[["b", "c"], [10, 11]])
    o3 = dict(header=["y", "x", "id"], cols=[["z"], [9], ["r9"]])
    o4 = dict(header=["y", "x", "id"], cols=[["z"], [9], ["r1"]])
    mkc = lambda ops, t=t0, blk="index": dict(kind="iops", tables=[t, o1, o2, o3, o4], ops=ops, block=blk)
    base_ops = [
        [dict(op="lookup", label="r2", col="x")], [dict(op="lookup", label="r3", col="y")], [dict(op="lookup", label="zz", col="x")],
        [dict(op="lookup", label="r1", col="nope")], [dict(op="row", label="r2")], [dict(op="row", label="q")],
        [dict(op="get_columns_ix", columns=["y"], with_index=True)], [dict(op="get_columns_ix", columns=["y"], with_index=False)],
        [dict(op="get_columns_ix", columns=["y", "id", "x"], with_index=True)], [dict(op="get_columns", columns=["x"])],
        [dict(op="sorted", columns=["x"], reverse=None), dict(op="lookup", label="r1", col="x")],
        [dict(op="sorted", columns=None, reverse=["y"])], [dict(op="sorted", columns=["y", "x"], reverse=["x"])],
        [dict(op="filtered", pred=["gt", 0, 1], columns=["x"], form="callable"), dict(op="lookup", label="r1", col="y")],
        [dict(op="filtered", pred=["eqc", 0, "a"], columns=["y"], form="string")],
        [dict(op="count", pred=["eqc", 0, "a"], columns=["y"], form="callable")], [dict(op="distinct", columns=["y"])],
        [dict(op="with_new_column", name="z", expr=["add", 0, 0], columns=["x"], form="callable")],
        [dict(op="with_new_column", name="id", expr=["const", 5], columns=["x"], form="callable")],
        [dict(op="join", other=1, cs=["y"], co=["y"], inner=True, prefix="right_")],
        [dict(op="join", other=2, cs=["y"], co=["y"], inner=True, prefix="right_"), dict(op="lookup", label="r2", col="right_q")],
        [dict(op="join", other=2, cs=None, co=None, inner=True, prefix="right_")],
        [dict(op="join", other=2, cs=None, co=None, inner=False, prefix="right_")],
        [dict(op="appended", newcol=None, self_title="t", others=[["o", 3]])],
        [dict(op="appended", newcol="src", self_title="t", others=[["o", 3]])],
        [dict(op="appended", newcol=None, self_title="t", others=[["o", 4]])],
        [dict(op="transposed", new="n", sah="id")], [dict(op="transposed", new="n", sah=None)],
        [dict(op="transposed", new="n", sah="x")], [dict(op="transposed", new="n", sah="y")],
        [dict(op="filtered_by_column", cell="a")], [dict(op="filtered_by_column", cell="r1")],
        # the index column listed AFTER another column: the row handed to the callback keeps the requested order
        [dict(op="filtered", pred=["eqc", 0, "a"], columns=["y", "id"], form="callable")],
        [dict(op="filtered", pred=["eqc", 1, "r2"], columns=["x", "id"], form="string")],
        [dict(op="count", pred=["eqc", 0, "a"], columns=["y", "id"], form="callable")],
        [dict(op="with_new_column", name="z", expr=["iseq", 1, "r2"], columns=["x", "id"], form="callable")],
        [dict(op="distinct", columns=["y", "id"])], [dict(op="distinct", columns=["x", "id"])],
        [dict(op="count_unique", arg=dict(form="list", value=["y", "id"]))], [dict(op="count_unique", arg=dict(form="none", omit=True))],
        [dict(op="count_unique", arg=dict(form="name", value="y"))], [dict(op="count_unique", arg=dict(form="int", value=0))],
        [dict(op="distinct_arg", arg=dict(form="tuple", value=["y"]))], [dict(op="distinct_arg", arg=dict(form="int", value=-1))],
    ]
    for ops in base_ops:
        cases.append(mkc(ops))
    # self.inner_join(other) on the two index columns (default use_index=True)
    ij_others = [
        dict(header=["gene", "id", "q"], cols=[["r1", "r3", "zz"], [5, 5, 7], [10, 11, 12]]),       # data column named like self's index, repeated values
        dict(header=["id", "gene", "q"], cols=[["a", "b", "c"], ["r2", "r3", "r1"], [10, 11, 12]]),  # ... unique values, not first
        dict(header=["id", "q"], cols=[["r3", "r1", "q9"], [1, 2, 3]]),                             # same index name on both sides
        dict(header=["gene", "q"], cols=[["r2", "r2x", "r1"], [1, 2, 3]]),                          # different names, no clash
        dict(header=["gene", "id", "x"], cols=[["r1", "r2", "r3"], ["r3", "r1", "r2"], [7, 8, 9]]),  # clash on id AND on a data column x
    ]
    for k_o, (ot, oix) in enumerate([(ij_others[0], "gene"), (ij_others[1], "gene"), (ij_others[2], "id"), (ij_others[3], "gene"),
                                     (ij_others[4], "gene"), (ij_others[4], "id"), (ij_others[0], None)]):
        for prefix in ("right_", "r."):
            cases.append(dict(kind="iops", tables=[t0, ot], block="index-join",
                              ops=[dict(op="inner_join_index", other=1, other_index=oix, prefix=prefix)]))
        # the neighbours: explicit key columns and the natural join on the same pair of tables
        cases.append(dict(kind="iops", tables=[t0, ot], block="index-join",
                          ops=[dict(op="join", other=1, cs=["id"], co=[oix or "gene"], inner=True, prefix="right_")]))
        cases.append(dict(kind="iops", tables=[t0, ot], block="index-join",
                          ops=[dict(op="join", other=1, cs=None, co=None, inner=True, prefix="right_")]))
    cases.append(dict(kind="iops", tables=[dict(t0, index_name=None), ij_others[0]], block="index-join",
                      ops=[dict(op="inner_join_index", other=1, other_index="gene", prefix="right_")]))
    # self's index in other positions
    for ixn in ("x", "y"):
        tt0 = dict(header=["x", "id", "y"], cols=[[3, 1, 2], ["r1", "r2", "r3"], ["a", "b", "c"]], index_name=ixn)
        oo = dict(header=["k", ixn, "id"], cols=[[2, 3, 9] if ixn == "x" else ["c", "a", "zz"], [1, 1, 2], ["p", "q", "r"]])
        cases.append(dict(kind="iops", tables=[tt0, oo], block="index-join",
                          ops=[dict(op="inner_join_index", other=1, other_index="k", prefix="right_")]))
    # the index column in every position, and invalid indexes
    for ixn in ("x", "id", "y", "nope"):
        cases.append(mkc([dict(op="sorted", columns=None, reverse=["x"])], dict(t0, index_name=ixn)))
        cases.append(mkc([dict(op="transposed", new="n", sah="id")], dict(t0, index_name=ixn)))
    cases.append(mkc([dict(op="count", pred=["true"], columns=None)], dict(header=["a"], cols=[[1, True]], index_name="a")))
    # random
    n = 150 if tier == "quick" else 3000
    for _ in range(n):
        c = random_ops_case(rng)
        t = c["tables"][0]
        if not t["header"] or not t["cols"][0]:
            continue
        # the index is the first column here (the ops were generated for this column order; the index in other
        # positions is covered by the deterministic cases above); sometimes one with repeated values (rejected)
        ixn = t["header"][0]
        if None in t["cols"][0] or kind_of(t["cols"][0]) not in "iU":
            continue        # labels are ints or strings (None stands for "no label" in the row template)
        if not unique_values(t["cols"][0]) and rng.random() < 0.8:
            continue
        # one generated operation only: later ones were typed for the column order of the un-indexed result
        ops = list(c["ops"][:1])
        col = t["cols"][t["header"].index(ixn)]
        if rng.random() < 0.6 and kind_of(col) == "U":
            # row labels are strings (an int is a row POSITION)
            ops.insert(0, dict(op="lookup", label=rng.choice(col + ["zz"]), col=rng.choice(t["header"])))
        if len(c["tables"]) > 1 and rng.random() < 0.35:
            o1 = c["tables"][1]
            cand = [h for h, colv in zip(o1["header"], o1["cols"]) if colv and unique_values(colv) and None not in colv
                    and kind_of(colv) in "iU"]
            if cand:
                ops = [dict(op="inner_join_index", other=1, other_index=rng.choice(cand), prefix=rng.choice(["right_", "r_"]))]
        cases.append(dict(kind="iops", tables=[dict(t, index_name=ixn)] + c["tables"][1:], ops=ops, block="index-random"))
    # round trips with title / legend / index
    tt = dict(header=["x", "id", "y"], cols=[[3, 1, 2], ["r1", "r2", "r3"], [0.5, 2.0, 1e-05]])
    for title in ("", "T", "my, title", 'a "q" t'):
        for legend in ("", "L", "the\tlegend"):
            for ixn in (None, "id", "x"):
                for sep in ("\t", ","):
                    cases.append(dict(kind="irt", sep=sep, title=title, legend=legend, index_name=ixn, table=tt, block="index-rt"))
    return cases


def build_cases(tier, rng):
    cases = corpus_cases() + error_cases()
    cases += exhaustive_join_block(tier) + exhaustive_sort_block(tier) + exhaustive_types_block(tier) + count_forms_block(tier) + bigint_block(tier) + exhaustive_rt_block(tier) + typed_rt_block(tier)
    n_ops = 700 if tier == "quick" else 9000
    n_rt = 250 if tier == "quick" else 3000
    cases += [random_ops_case(rng) for _ in range(n_ops)]
    cases += [rand_rt_case(rng) for _ in range(n_rt)]
    cases += index_block(tier, rng)
    return cases


def run(tier: str, seed: int) -> int:
    rep = core.Report(PROP, tier, seed)
    rng = random.Random(seed * 7919 + 20)
    pr = core.proof_stage(PROP, COQ_TARGETS)
    core.proof_coverage(rep, pr, "make theories/Properties/C20.vo && coqc gen/assum_C20.v (Print Assumptions)", [
        "numpy: array construction / dtype inference (cast_to_array), fancy and boolean indexing, record-array argsort "
        "(kind='stable', modelled as a stable insertion sort), numpy.unique inverse index (modelled as the rank among distinct values), numpy.vectorize",
        "Python's csv module (writer QUOTE_MINIMAL, reader state machine) and text-mode universal newlines: re-modelled in "
        "Model/Csv.v from CPython 3.12 _csv.c and compared on file text and parsed records",
        "type inference on load: numpy astype(int/float/complex) and ast.literal_eval are re-modelled in Model/TableLoad.v on "
        "the classes of text it names and compared on the loaded typed cells; binary64 reproduces decimals of <= 15 significant "
        "digits (DBL_DIG) and repr(float) is the shortest such decimal: assumed, not proved; gzip, json, pickle: compared only",
        "callbacks come from a closed predicate/expression language rendered as Python lambdas by the harness",
    ])
    rep.assumptions += [
        "theorems about tables assume a well-formed column store (equal column lengths = nrows, distinct stripped column names, index_name None)",
        "sorting theorem: key columns homogeneous int/str/bool (object-dtype columns are not modelled), no name twice in reverse=, at least one row",
        "csv round-trip theorem: no '\\r' in any cell, delimiter not one of quote/LF/CR, every record has >= 1 field",
        "typed round-trip theorem: columns homogeneous int64 / float (<= 15 significant digits, |exponent| <= 290) / bool / plain text "
        "(plain_textb); numeric-looking text is read as numbers by convention",
    ]
    proof_broken = bool(pr["problems"])
    if proof_broken:
        rng2 = random.Random(seed + 1)
    cases = build_cases(tier, rng)
    if proof_broken:
        cases += [random_ops_case(rng2) for _ in range(2000)]
    impl = core.run_impl_sharded("c20_impl.py", cases)
    model = [None] * len(cases)
    midx = [i for i, c in enumerate(cases) if model_ok_for(c)]
    try:
        mres = run_model([cases[i] for i in midx])
        for i, r in zip(midx, mres):
            model[i] = r
    except core.CheckError as e:
        if not proof_broken:
            raise
        rep.notes.append(f"model not runnable: {str(e)[:300]}")
    stats = dict(steps=0, ops={}, oracle_applied=0, spec_violations=0, not_modelled=0, nontrivial=set())
    disagreements = []
    for c, ir, mr in zip(cases, impl, model):
        if c["kind"] == "ops":
            disagreements += compare_ops(rep, c, ir, mr, stats)
        elif c["kind"] == "iops":
            disagreements += compare_iops(rep, c, ir, mr, stats)
        elif c["kind"] == "irt":
            disagreements += compare_irt(rep, c, ir, mr, stats)
        else:
            disagreements += compare_rt(rep, c, ir, mr, stats)
    import os
    if os.environ.get("C20_DEBUG"):
        for d in disagreements[:10]:
            print("DISAGREEMENT", json.dumps(d, default=str)[:1500])
        vk = {}
        for v in stats.get("vkeys", []):
            vk[v] = vk.get(v, 0) + 1
        print("violation keys:", vk)
        print("stats:", {k: v for k, v in stats.items() if k not in ("nontrivial", "vkeys", "ops")})
    blocks = {}
    for c in cases:
        blocks[c.get("block", "?")] = blocks.get(c.get("block", "?"), 0) + 1
    sample_i = next(i for i, c in enumerate(cases) if c.get("block") == "random")
    rep.coverage.update(
        evaluations=stats["steps"], distinct_nontrivial=len(stats["nontrivial"]),
        rule="one evaluation = one Table operation applied to one table state (or one write+load through one format); "
             "non-trivial = distinct (input tables, operation) whose result has >= 1 row (join/filter/derive/append/transpose, "
             "count/distinct non-empty), >= 2 rows for sorted, or a round trip of a table with >= 1 row that preserved header and cell text. "
             "Exhaustive blocks: all key-column pairs over {1,2} up to length L (natural + cross join), 2-column keys with True==1; all "
             "tables up to N rows over {0,1}x{a,b} x 13 columns/reverse combinations; all 1- and 2-cell rows over 13 special cells x tab/comma.",
        samples=[dict(case=cases[sample_i], impl=impl[sample_i])],
        input_distribution=dict(cases=len(cases), blocks=blocks, ops=stats["ops"], oracle_applied=stats["oracle_applied"],
                                not_modelled_steps=stats["not_modelled"], modelled_cases=len(midx),
                                refuted_region_repaired=stats.get("refuted_region_repaired", 0),
                                types_handed_to_callables=stats.get("cb_types", []),
                                typed_load_ties=stats.get("typed_ties", 0), typed_load_not_modelled=stats.get("typed_not_modelled", 0),
                                op_x_dtype=dict(sorted(stats.get("op_dtype", {}).items()))),
        model_impl_disagreements=len(disagreements), spec_violations=stats["spec_violations"],
        partial=PARTIAL, exhaustive=False,
    )
    core.conclude(rep, pr, f"{len(cases)} cases / {stats['steps']} operations against the list-of-rows oracle", disagreements[:5],
                  "Model.TableRun.run_case vs cogent3.util.table.Table / Table.write / load_delimited", tier, PROP)
    return rep.finish("proof")


PARTIAL = [
    "type inference on load for text outside the transcribed classes (signs '+', underscores, surrounding white space, inf/nan, "
    "quotes, brackets, punctuation, > 15 significant digits, ints beyond int64): compared by correspondence, no theorem",
    "JSON / pickle: theorem through the C10 serialisation model (Proofs/TableSerialProofs.v); gz / bz2 are assumed identity wrappers",
    "sorted with a name listed twice in reverse=; object-dtype key columns of mutually comparable numbers, or only compared on ties "
    "of earlier keys: outside the sort theorems (compared / skipped)",
    "legend/title with a carriage return, float arithmetic in callbacks, row labels that are ints (positions): not modelled",
]


def replay(path: str) -> int:
    d = json.loads(open(path).read())
    if "case" not in d:
        print("replay names a broken obligation, not an input:", d.get("broken"))
        return 1
    c = d["case"]
    impl = core.run_impl_lines("c20_impl.py", [c])[0]
    rep = core.Report(PROP, "replay", 0)
    rep.findings = []  # a replay always reports
    stats = dict(steps=0, ops={}, oracle_applied=0, spec_violations=0, not_modelled=0, nontrivial=set())
    import io
    import contextlib

    buf = io.StringIO()
    with contextlib.redirect_stdout(buf):
        if c["kind"] == "ops":
            compare_ops(rep, c, impl, None, stats)
        else:
            compare_rt(rep, c, impl, None, stats)
    # do not leave replay files behind
    import os

    for v in rep.violations:
        try:
            os.unlink(v["path"])
        except OSError:
            pass
    print("impl  :", json.dumps(impl)[:3000])
    if c["kind"] == "ops":
        cur = dict(header=c["tables"][0]["header"], cols=c["tables"][0]["cols"])
        print("oracle:", json.dumps(oracle_step(c["ops"][0], cur, c["tables"]), default=str)[:3000])
    else:
        print("oracle: header and cell text must come back unchanged:", d.get("expected_by_spec"))
    bad = bool(rep.violations)
    print("REPRODUCED" if bad else "not reproduced")
    return 1 if bad else 0
