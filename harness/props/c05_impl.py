"""C05 implementation runner: builds real cogent3 substitution models / likelihood
functions and reports rate matrices, transition matrices, motif probabilities,
rate classes and what every exponentiator back-end returns (runs inside the
/repo interpreter).

case kinds
  {"kind": "lf", "spec": <model spec>, "params": {name: float}, "mprobs": [float...] | None,
   "t1": float, "t2": float, "bins": None | {"n": k, "dist": "gamma"|"free", "shape": float}}
  {"kind": "pade", "A": [[float]]}      PadeExponentiator(A)(1.0)
  {"kind": "taylor", "A": [[float]]}    TaylorExponentiator(A)(1.0) and the number of terms it used
  {"kind": "rates", "which": "weighted"|"monotonic"|"gamma", "w": [...], "v": [...]| "a": float}

model spec: {"name": "HKY85"}  (cogent3.get_model)
          | {"cls": "TimeReversibleNucleotide"|"NonReversibleNucleotide"|"TimeReversibleDinucleotide"|
                    "NonReversibleDinucleotide"|"TimeReversibleCodon",
             "preds": [["A","G",false], ...] | ["kappa", "omega"], "mprob_model": "tuple"|"monomer"|"conditional"|None}
"""
import warnings

warnings.filterwarnings("ignore")

_SM_CACHE = {}


def fl(x):
    return float(x)


def mat(a):
    import numpy

    a = numpy.asarray(a)
    if a.dtype.kind == "c":
        a = a.real
    return [[float(x) for x in row] for row in a]


def build_sm(spec, bins=None):
    key = repr((sorted(spec.items(), key=repr), bins and (bins.get("dist"),)))
    if key in _SM_CACHE:
        return _SM_CACHE[key]
    kw = {}
    if bins:
        kw.update(ordered_param="rate", distribution=bins["dist"])
    if "name" in spec:
        from cogent3 import get_model

        sm = get_model(spec["name"], **kw)
    else:
        from cogent3.evolve import ns_substitution_model as ns
        from cogent3.evolve import substitution_model as st
        from cogent3.evolve.predicate import MotifChange

        if spec["cls"] in ("GeneralStationary", "General"):
            from cogent3 import DNA

            sm = getattr(ns, spec["cls"])(DNA.alphabet, **kw)
            _SM_CACHE[key] = sm
            return sm
        cls = getattr(st, spec["cls"], None) or getattr(ns, spec["cls"])
        preds = []
        for p in spec["preds"]:
            if isinstance(p, str):
                preds.append(p)
            else:
                preds.append(MotifChange(p[0], p[1], forward_only=bool(p[2])))
        if spec.get("mprob_model"):
            kw["mprob_model"] = spec["mprob_model"]
        if spec.get("motifs"):
            kw["motifs"] = list(spec["motifs"])
        sm = cls(predicates=preds, model_gaps=False, recode_gaps=True, **kw)
    _SM_CACHE[key] = sm
    return sm


def structure(sm):
    """what the model is made of (masks are data for the Coq model)"""
    import numpy

    from cogent3.evolve import substitution_model as st

    alphabet = sm.get_alphabet()
    words = [str(m) for m in alphabet]
    out = {"words": words, "mlen": int(alphabet.get_motif_len())}
    out["monomers"] = [str(m) for m in alphabet.moltype.alphabet]
    out["inst"] = [[int(bool(x)) for x in row] for row in numpy.asarray(sm._instantaneous_mask)]
    out["param_order"] = [str(p) for p in sm.parameter_order]
    if hasattr(sm, "predicate_masks") and all(p in sm.predicate_masks for p in sm.parameter_order):
        out["pred_masks"] = [[[int(bool(x)) for x in row] for row in numpy.asarray(sm.predicate_masks[p])]
                             for p in sm.parameter_order]
    else:
        out["pred_masks"] = None
    if hasattr(sm, "param_pick"):
        out["param_pick"] = [[int(x) for x in row] for row in numpy.asarray(sm.param_pick)]
        out["last_in_column"] = [[int(i), int(j)] for i, j in getattr(sm, "last_in_column", [])]
    out["mprob_class"] = type(sm.mprob_model).__name__
    out["stationary_calcQ"] = type(sm).calcQ is st.StationaryQ.calcQ
    out["general_calcQ"] = type(sm).calcQ is st._ContinuousSubstitutionModel.calcQ
    out["symmetric"] = bool(getattr(sm, "symmetric", False))
    out["class"] = type(sm).__name__
    out["is_time_reversible"] = isinstance(sm, st.TimeReversible) or (isinstance(sm, st.Empirical) and out["symmetric"])
    out["is_stationary"] = isinstance(sm, st.StationaryQ)
    return out


SEQS = {1: ["ACGT", "ACGA", "ACGG", "ATGT"], 2: ["ACGTAC", "ACGAAC", "ACGGTC", "ATGTAC"],
        3: ["ACGTTTGCA", "ACGATTGCA", "ACGGTTGCC", "ACGGTAGCA"]}


def backends(Q, t, pi, reversible):
    """every exponentiator on the same Q and t, straight from maths/matrix_exponentiation
    and through ExpDefn (the expm setting -> exponentiator table)"""
    import numpy

    from cogent3.evolve.substitution_calculation import ExpDefn
    from cogent3.maths import matrix_exponentiation as me

    out = {}

    def attempt(name, f):
        try:
            out[name] = mat(f())
        except Exception as e:  # noqa: BLE001
            out[name] = {"error": type(e).__name__ + ": " + str(e)[:80]}

    attempt("fast", lambda: me.FastExponentiator(Q)(t))
    attempt("checked", lambda: me.CheckedExponentiator(Q)(t))
    attempt("pade", lambda: me.PadeExponentiator(Q)(t))
    attempt("robust", lambda: me.RobustExponentiator(Q)(t))
    if len(Q) <= 20:
        attempt("taylor", lambda: me.TaylorExponentiator(Q)(t))
    if reversible and numpy.all(pi > 0):
        attempt("semisym", lambda: me.SemiSymmetricExponentiator(pi, Q)(t))
    for setting in ("eigen", "checked", "pade", "either"):
        attempt("expdefn:" + setting, lambda s=setting: ExpDefn.calc(None, s)(Q)(t))
    return out


def run_lf(case):
    from cogent3.maths.optimisers import ParameterOutOfBoundsError

    try:
        sm = build_sm(case["spec"], case.get("bins"))
    except ValueError as e:   # the constructor refuses this predicate set (not balanced, redundant, always true/false)
        return {"refused": "ValueError: " + str(e)[:100], "stage": "constructor"}
    try:
        return _run_lf(case)
    except ParameterOutOfBoundsError:
        return {"refused": "ParameterOutOfBoundsError", "stage": "parameters", "structure": structure(sm)}


def _run_lf(case):
    import numpy

    from cogent3 import make_aligned_seqs, make_tree

    bins = case.get("bins")
    sm = build_sm(case["spec"], bins)
    st = structure(sm)
    t1, t2 = case["t1"], case["t2"]
    tree = make_tree("(a:0.1,b:0.1,c:0.1,d:0.1)")
    lf = sm.make_likelihood_function(tree, bins=bins["n"]) if bins else sm.make_likelihood_function(tree)
    W = st["words"]
    seqs = ["".join(W[(k * 3 + i * (k + 1)) % len(W)] for i in range(4)) for k in range(4)]
    aln = make_aligned_seqs({n: s for n, s in zip("abcd", seqs)}, moltype="dna" if set("".join(W)) <= set("ACGT") else "protein")
    lf.set_alignment(aln)
    names = list(lf.get_param_names())
    out = {"structure": st, "param_names": names}
    # all values are put in place before anything is recalculated: the feasible region of GeneralStationary
    # is about the whole vector, not about the intermediate states of setting it one value at a time
    with lf.updates_postponed():
        if case.get("mprobs") is not None and "psmprobs" in names:
            for pos, v in enumerate(case["mprobs"]):
                lf.set_param_rule("psmprobs", position=str(pos), value=numpy.array(v, float))
        elif case.get("mprobs") is not None and "mprobs" in names:
            mp = lf.get_motif_probs()
            keys = list(mp.keys())
            lf.set_motif_probs(dict(zip(keys, case["mprobs"])))
        for p, v in case["params"].items():
            lf.set_param_rule(p, value=v, is_constant=True)
    for e, t in (("a", t1), ("b", t2), ("c", t1 + t2), ("d", 0.0)):
        lf.set_param_rule("length", edge=e, value=t, is_constant=True)
    if bins:
        if bins["dist"] == "gamma":
            lf.set_param_rule("rate_shape", value=bins["shape"], is_constant=True)
        elif bins.get("partition"):
            lf.set_param_rule("rate_partition", value=numpy.array(bins["partition"], float))
        if bins.get("bprobs"):
            lf.set_param_rule("bprobs", value=numpy.array(bins["bprobs"], float))
    if case.get("expm"):
        lf.set_expm(case["expm"])
    if "psmprobs" in names:
        arr = numpy.asarray(lf.get_param_value("mprobs"), float)   # [position, monomer]
        out["mprobs_keys"] = st["monomers"]
        out["mprobs"] = [[float(x) for x in row] for row in arr]
    else:
        mp = lf.get_motif_probs()
        out["mprobs_keys"] = [str(k) for k in mp.keys()]
        out["mprobs"] = [float(x) for x in numpy.asarray(mp.array if hasattr(mp, "array") else list(mp.values()), float).ravel()]
    out["params"] = {p: float(lf.get_param_value(p)) for p in st["param_order"]}
    pname = "wprobs" if "wprobs" in lf.defn_for else "mprobs"
    pi = numpy.asarray(lf.get_param_value(pname), float).ravel()
    out["pi"] = [float(x) for x in pi]
    bin_names = list(lf.bin_names)
    multi = len(bin_names) > 1
    out["bins"] = None
    if multi:
        out["bins"] = {"names": bin_names, "bprobs": [float(x) for x in lf.get_param_value("bprobs")],
                       "rates": [float(lf.get_param_value("rate", bin=b)) for b in bin_names]}
    kw = {"bin": bin_names[0]} if multi else {}
    Q = numpy.asarray(lf.get_rate_matrix_for_edge("a", calibrated=True, **kw).array, float)
    out["Q"] = mat(Q)
    out["Q_uncal_a"] = mat(lf.get_rate_matrix_for_edge("a", calibrated=False, **kw).array)
    out["lengths"] = {e: float(lf.get_param_value("length", edge=e)) for e in "abcd"}
    out["P"] = {}
    for b in (bin_names if multi else [None]):
        kwb = {"bin": b} if multi else {}
        out["P"][b or ""] = {e: mat(lf.get_psub_for_edge(e, **kwb).array) for e in "abcd"}
    # the same quantities straight from the model object (no calculator in between)
    try:
        mpm_in = numpy.asarray(out["mprobs"], float)
        if st["mprob_class"] == "PosnSpecificMonomerProbModel":
            mpm_in = [numpy.asarray(row, float) for row in out["mprobs"]]
        wp = sm.mprob_model.calc_word_probs(mpm_in) if st["mprob_class"] in ("MonomerProbModel", "PosnSpecificMonomerProbModel") else mpm_in
        if st["mprob_class"] == "SimpleMotifProbModel":
            mpmat = wp
        else:
            mpmat = sm.mprob_model.calc_word_weight_matrix(mpm_in)
        pars = [out["params"][p] for p in st["param_order"]]
        out["R"] = mat(sm.calc_exchangeability_matrix(wp, *pars))
        out["Q_direct"] = mat(sm.calcQ(wp, mpmat, *pars))
        out["wp_direct"] = [float(x) for x in wp]
    except Exception as e:  # noqa: BLE001
        out["direct_error"] = type(e).__name__ + ": " + str(e)[:100]
    if not case.get("light"):
        # every back-end at the largest distance (length x rate) of this configuration
        tb = (t1 + t2) * (max(out["bins"]["rates"]) if multi else 1.0)
        out["backends"] = backends(Q, tb, pi, st["is_time_reversible"])
        out["backends_t"] = tb
        if case.get("expm_settings"):
            alt = {}
            for s in case["expm_settings"]:
                try:
                    lf.set_expm(s)
                    alt[s] = mat(lf.get_psub_for_edge("a", **kw).array)
                except (ArithmeticError, numpy.linalg.LinAlgError) as e:
                    alt[s] = {"error": type(e).__name__ + ": " + str(e)[:80]}
            out["P_by_setting"] = alt
    return out


def run_pade(case):
    import numpy

    from cogent3.maths.matrix_exponentiation import PadeExponentiator

    A = numpy.array(case["A"], float)
    return {"F": mat(PadeExponentiator(A)(case.get("t", 1.0)))}


def run_taylor(case):
    import numpy

    from cogent3.maths.matrix_exponentiation import TaylorExponentiator

    A = numpy.array(case["A"], float)
    ex = TaylorExponentiator(A)
    P = ex(1.0)
    return {"P": mat(P), "q_after": int(ex.q)}


def run_rates(case):
    import numpy

    from cogent3.recalculation.definition import GammaDefn, MonotonicDefn, WeightedPartitionDefn

    w = numpy.array(case["w"], float)
    if case["which"] == "weighted":
        return {"rates": [float(x) for x in WeightedPartitionDefn.calc(None, w, numpy.array(case["v"], float))]}
    if case["which"] == "monotonic":
        return {"rates": [float(x) for x in MonotonicDefn.calc(None, w, numpy.array(case["v"], float))]}
    from cogent3.maths.stats.distribution import gdtri

    a = case["a"]
    wn = w / numpy.sum(w)
    perc = numpy.add.accumulate(wn) - wn * 0.5
    med = [float(gdtri(a, a, p)) for p in perc]
    return {"rates": [float(x) for x in GammaDefn.calc(None, w, a)], "medians": med}


def run_expm_all(case):
    import numpy

    Q = numpy.array(case["A"], float)
    return {"backends": backends(Q, case["t"], None, False)}


def run_ratios(case):
    from cogent3.maths.util import ratios_to_proportions

    return {"props": [float(x) for x in ratios_to_proportions(1.0, list(case["ratios"]))]}


def run_discrete(case):
    """BH / DT: the psub matrices are the parameters (one partition per row, optimiser-side ratios)"""
    import numpy

    from cogent3 import get_model, make_aligned_seqs, make_tree

    sm = get_model("BH") if case["model"] == "BH" else get_model("DT", motif_length=case.get("motif_length", 1))
    lf = sm.make_likelihood_function(make_tree("(a:0.1,b:0.1,c:0.1)"))
    W = [str(m) for m in sm.get_alphabet()]
    seqs = ["".join(W[(k * 3 + i * (k + 1)) % len(W)] for i in range(4)) for k in range(3)]
    lf.set_alignment(make_aligned_seqs(dict(zip("abc", seqs)), moltype="dna"))
    out = {"default": mat(lf.get_psub_for_edge("a").array)}
    for e, M in case["psubs"].items():
        lf.set_param_rule("psubs", edge=e, value=numpy.array(M, float))
    out["P"] = {e: mat(lf.get_psub_for_edge(e).array) for e in "abc"}
    out["lnL_finite"] = bool(numpy.isfinite(lf.get_log_likelihood()))
    return out


def run_case(case):
    k = case["kind"]
    if k == "ratios":
        return run_ratios(case)
    if k == "discrete":
        return run_discrete(case)
    if k == "expm_all":
        return run_expm_all(case)
    if k == "lf":
        return run_lf(case)
    if k == "pade":
        return run_pade(case)
    if k == "taylor":
        return run_taylor(case)
    if k == "rates":
        return run_rates(case)
    raise ValueError(k)


if __name__ == "__main__":
    from vcheck.implutil import serve

    serve(run_case, limit=240)
