"""C18 — Aligners preserve their inputs and are optimal for their own model.

Stage P: Properties/C18.v (Viterbi model optimal/valid for every score table;
star merge: degapped rows, refutation witness).
Stage C: the real global/local pairwise aligners, pairwise_to_multiple,
align_to_ref and progressive_align vs the Coq models (vm_compute).
Stage S: plain-Python oracles written from the property text: validity of rows,
score recomputed from the rows, textbook DP / brute-force optimum, projection
of a multiple alignment on (ref, s_i)."""
from __future__ import annotations

import itertools
import json
import math
import random
from functools import lru_cache

from vcheck import core

PROP = "C18"
COQ_TARGETS = ["theories/Model/PairAlignRun.vo", "theories/Model/StarMergeRun.vo"]
NEG = float("-inf")
K = 10**6  # quantisation of the real log-scores for the integer model
LET = "ACGT"
IDX = {c: i for i, c in enumerate(LET)}
TOL = 1e-8


# ------------------------------------------------------------------ the scoring model of classic_align_pairwise
# (written from align.py / indel_model.py / pairwise.py docs and checked against the code by this very check)

def case_letters(c):
    return "".join(sorted(set(c["a"] + c["b"]))) if c.get("moltype") == "protein" else LET


# how the SOURCE reads an asymmetric score dict (set by run() from the implementation's own results): "transposed" = the
# column (x in s1, y in s2) is scored Sd[y, x] (the pinned code), "natural" = Sd[x, y] (what the signature documents).
# The specification oracle always reads Sd[x, y]; only the model's tables follow the source.
SOURCE_ORIENT = ["transposed"]


def is_asymmetric(c):
    S = c.get("S")
    return bool(S) and any(S[x + y] != S[y + x] for x in LET for y in LET)


def score_lookup(c, orient="natural"):
    """score of the column (x from the first sequence, y from the second), as a function (y, x) -> score"""
    if c.get("gmatch") is not None:
        g = c["gmatch"]
        return lambda y, x: g if x == y else -1
    S = c["S"]
    if orient == "transposed":
        return lambda y, x: S[y + x]
    return lambda y, x: S[x + y]


DYADIC_T = {
    # transition probabilities over (X, Y, M) that are powers of two, with their stationary (= BEGIN) probabilities:
    # log2 of everything is an integer (T1) or the same constant for the three states (T3)
    "T1": ([[.5, 0, .5], [0, .5, .5], [.25, .25, .5]], {"X": -2, "Y": -2, "M": -1}, 0.0),
    "T3": ([[.5, .25, .25], [.25, .5, .25], [.25, .25, .5]], {"X": 0, "Y": 0, "M": 0}, math.log(1.0 / 3.0)),
}


def dyadic_tables(c):
    """integer log2 score tables of a dyadic case, and the constant (natural log) the BEGIN transition adds"""
    Tm, begin, offset = DYADIC_T[c["dyadic"]["T"]]
    l2 = lambda v: NEG if v == 0 else int(round(math.log2(v)))
    T = {(p, s): l2(Tm[i][j]) for i, p in enumerate("XYM") for j, s in enumerate("XYM")}
    for s_ in "XYM":
        T[("B", s_)] = begin[s_]
    for s_ in "BXYM":
        T[(s_, "E")] = 0
    k = c["dyadic"]["k"]
    em = {(x, y): 2 + k[y + x] for x in LET for y in LET}   # log2(4 * psub[y, x])
    return T, em, offset


def real_tables(c, n, orient="natural"):
    if c.get("dyadic"):
        T, em, offset = dyadic_tables(c)
        ln2 = math.log(2.0)
        Tr = {kk: (NEG if v == NEG else v * ln2 + (offset if kk[0] == "B" and kk[1] != "E" else 0.0)) for kk, v in T.items()}
        return Tr, {kk: v * ln2 for kk, v in em.items()}
    return _real_tables(score_lookup(c, orient), c["d"], c["e"], n, case_letters(c))


def int_tables(c, n):
    """(integer tables for the Coq model and the integer oracle, unit, offset): real score = int * unit + offset"""
    if c.get("dyadic"):
        T, em, offset = dyadic_tables(c)
        return T, em, math.log(2.0), offset
    Tq, emq = quantise(*real_tables(c, n, SOURCE_ORIENT[0]))
    return Tq, emq, 1.0 / K, 0.0


def _real_tables(S, d, e, n, letters):
    """log transition / emission scores of the pair HMM that classic_align_pairwise builds:
    T = row-normalised exp(-[[e,inf,0],[inf,e,0],[d,d,0]]) over (X, Y, M); BEGIN -> s = log stationary
    probability of s; s -> END = log 1; match emission = S[y, x] + log(alphabet size); gap emission = log 1."""
    zx = 1.0 + math.exp(-e)
    zm = 1.0 + 2.0 * math.exp(-d)
    a = math.exp(-e) / zx       # X->X
    g = math.exp(-d) / zm       # M->X
    pim = 1.0 / (1.0 + 2.0 * g / (1.0 - a))
    pix = (1.0 - pim) / 2.0
    T = {("X", "X"): math.log(a), ("X", "Y"): NEG, ("X", "M"): math.log(1 - a),
         ("Y", "X"): NEG, ("Y", "Y"): math.log(a), ("Y", "M"): math.log(1 - a),
         ("M", "X"): math.log(g), ("M", "Y"): math.log(g), ("M", "M"): math.log(1 - 2 * g),
         ("B", "X"): math.log(pix), ("B", "Y"): math.log(pix), ("B", "M"): math.log(pim)}
    for s in "BXYM":
        T[(s, "E")] = 0.0
    ln = math.log(n)
    em = {(x, y): S(y, x) + ln for x in letters for y in letters}
    return T, em


def quantise(T, em):
    q = lambda v: NEG if v == NEG else int(round(K * v))
    return {k: q(v) for k, v in T.items()}, {k: q(v) for k, v in em.items()}


def rows_to_path(r1, r2):
    return tuple("M" if x != "-" and y != "-" else "X" if y == "-" else "Y" if x == "-" else "?" for x, y in zip(r1, r2))


def path_score(path, a, b, T, em, local=False):
    """sum of transition and emission scores along the path over a, b (forward walk)"""
    i = j = 0
    prev = "B"
    sc = 0
    for s in path:
        if local and prev == "B" and s != "M":
            return NEG
        sc += T[(prev, s)]
        if s == "M":
            if i >= len(a) or j >= len(b):
                return NEG
            sc += em[(a[i], b[j])]
            i += 1
            j += 1
        elif s == "X":
            if i >= len(a):
                return NEG
            i += 1
        elif s == "Y":
            if j >= len(b):
                return NEG
            j += 1
        else:
            return NEG
        prev = s
    if i != len(a) or j != len(b):
        return NEG
    return sc if local else sc + T[(prev, "E")]


def dp_global(a, b, T, em):
    """textbook three-state (Gotoh style) DP, memoised recursion on prefixes"""
    @lru_cache(maxsize=None)
    def best(i, j, s):
        if s == "B":
            return 0 if (i == 0 and j == 0) else NEG
        di, dj = {"X": (1, 0), "Y": (0, 1), "M": (1, 1)}[s]
        if i < di or j < dj:
            return NEG
        emit = em[(a[i - 1], b[j - 1])] if s == "M" else 0
        return emit + max(best(i - di, j - dj, p) + T[(p, s)] for p in "BXYM")

    return max(best(len(a), len(b), p) + T[(p, "E")] for p in "BXYM")


def dp_local(a, b, T, em):
    @lru_cache(maxsize=None)
    def best(i, j, s):
        di, dj = {"X": (1, 0), "Y": (0, 1), "M": (1, 1)}[s]
        if i < di or j < dj:
            return NEG
        emit = em[(a[i - 1], b[j - 1])] if s == "M" else 0
        cands = [best(i - di, j - dj, p) + T[(p, s)] for p in "XYM"]
        if s == "M":
            cands.append(T[("B", "M")])
        return emit + max(cands)

    return max([best(i, j, "M") for i in range(1, len(a) + 1) for j in range(1, len(b) + 1)] or [NEG])


def all_paths(m, n):
    if m == 0 and n == 0:
        yield ()
        return
    if m > 0 and n > 0:
        for p in all_paths(m - 1, n - 1):
            yield p + ("M",)
    if m > 0:
        for p in all_paths(m - 1, n):
            yield p + ("X",)
    if n > 0:
        for p in all_paths(m, n - 1):
            yield p + ("Y",)


def brute_global(a, b, T, em):
    return max(path_score(p, a, b, T, em) for p in all_paths(len(a), len(b)))


def brute_local(a, b, T, em):
    best = NEG
    for i0 in range(len(a)):
        for i1 in range(i0 + 1, len(a) + 1):
            for j0 in range(len(b)):
                for j1 in range(j0 + 1, len(b) + 1):
                    for p in all_paths(i1 - i0, j1 - j0):
                        if p[0] == "M" and p[-1] == "M":
                            best = max(best, path_score(p, a[i0:i1], b[j0:j1], T, em, local=True))
    return best


def project(ra, rb):
    cols = [(x, y) for x, y in zip(ra, rb) if not (x == "-" and y == "-")]
    return ["".join(c[0] for c in cols), "".join(c[1] for c in cols)]


# ------------------------------------------------------------------ generators

def dna_S(match, ts, tv):
    S = {}
    for x in LET:
        for y in LET:
            S[x + y] = match if x == y else ts if (x in "AG") == (y in "AG") else tv
    return S


def frac_S(rng):
    """non-integer scores: multiples of 0.25 (halves, quarters, negative fractions); symmetric or not"""
    q = lambda lo, hi: rng.randint(lo * 4, hi * 4) / 4.0
    if rng.random() < 0.5:
        m, ts, tv = q(1, 6) + 0.5, q(-3, 0) - 0.25, q(-6, -1) - 0.5
        return dna_S(m, ts, tv)
    return {x + y: q(-5, 6) + rng.choice([0.25, 0.5, 0.75]) for x in LET for y in LET}


def rand_S(rng):
    r = rng.random()
    if r < 0.45:
        return dna_S(10, -1, -8)
    if r < 0.75:
        return dna_S(rng.randint(1, 12), rng.randint(-6, 2), rng.randint(-10, 0))
    return {x + y: rng.randint(-8, 10) for x in LET for y in LET}  # asymmetric: S[y, x] != S[x, y] matters


def rand_seq(rng, lo, hi, alpha=LET):
    return "".join(rng.choice(alpha) for _ in range(rng.randint(lo, hi)))


def mutate(rng, s):
    out = []
    for ch in s:
        r = rng.random()
        if r < 0.12:
            continue
        if r < 0.24:
            out.append(rng.choice(LET))
            continue
        out.append(ch)
        if r > 0.9:
            out.append(rng.choice(LET))
    return "".join(out) or rng.choice(LET)


SMALL_LIMIT = 150   # (len(a)+2) * (len(b)+2) * 5 states > 150: about half of the generated pairs cross it

OPTIONS = {
    "no_score": dict(no_score=True),                       # return_score=False
    "score_only": dict(score_only=True),                   # _align_pairwise(return_alignment=False)
    "use_scaling": dict(use_scaling=True),                 # scaled probabilities instead of logs
    "no_logs": dict(use_logs=False, use_scaling=False),    # plain probabilities
    # DP run from the other end: an internal flag (posterior computation); its traceback is in reversed coordinates and
    # is re-indexed by its only caller, so only the SCORE is a meaningful observation (global only)
    "backward": dict(backward=True, score_only=True),
    "order_MXY": dict(order="MXY"),                        # transition matrix given in state order M, X, Y
}


def case_limit(c):
    if c.get("hlimit") is not None:
        return c["hlimit"]
    return 0 if c.get("hirsch") else None


def pair_cases(rng, tier):
    cases = []
    std = dna_S(10, -1, -8)
    # corpus: length-1, identical, unrelated, known shapes
    for a, b in [("A", "A"), ("A", "C"), ("A", "ACGT"), ("ACGT", "T"), ("ACGTACGT", "ACGTACGT"), ("AAAA", "CCCC"),
                 ("ACGT", "ACT"), ("ACGTTTGA", "CTTG"), ("CGTATTAT", "TGAC"), ("GAATAATG", "TCTAGACG")]:
        for local in (False, True):
            cases.append(dict(kind="pair", a=a, b=b, S=std, d=10, e=2, local=local, block="corpus"))
    # exhaustive small scope: all pairs over {A, C} up to length L, two scorings, both modes
    L = 3 if tier == "quick" else 4
    strs = ["".join(t) for k in range(1, L + 1) for t in itertools.product("AC", repeat=k)]
    scorings = [(dna_S(2, -1, -1), 1, 1), (std, 10, 2)] if tier == "quick" else \
        [(dna_S(2, -1, -1), 1, 1), (std, 10, 2), (dna_S(1, -3, -3), 4, 1)]
    for a in strs:
        for b in strs:
            for (S, d, e) in scorings:
                for local in (False, True):
                    cases.append(dict(kind="pair", a=a, b=b, S=S, d=d, e=e, local=local, block="exhaustive"))
    # random
    nrand = 260 if tier == "quick" else 2600
    hi = 12 if tier == "quick" else 40
    for k in range(nrand):
        a = rand_seq(rng, 1, hi if k % 5 else 6)
        r = rng.random()
        b = mutate(rng, a) if r < 0.5 else rand_seq(rng, 1, hi if k % 5 else 6) if r < 0.9 else a
        cases.append(dict(kind="pair", a=a, b=b, S=rand_S(rng), d=rng.randint(1, 20), e=rng.randint(1, 5),
                          local=rng.random() < 0.4, block="random"))
    # protein, make_generic_scoring_dict(match, "protein"): another alphabet size (the log n term of the match emission)
    AA = "ACDEFGHIKLMNPQRSTVWY"
    for k in range(30 if tier == "quick" else 300):
        a = rand_seq(rng, 1, 10, AA[:6])
        b = "".join(ch if rng.random() < 0.7 else rng.choice(AA[:6]) for ch in a)[: rng.randint(1, 10)] if rng.random() < 0.6 else rand_seq(rng, 1, 10, AA[:6])
        cases.append(dict(kind="pair", a=a, b=b, moltype="protein", gmatch=rng.randint(1, 10), d=rng.randint(1, 14), e=rng.randint(1, 4),
                          local=rng.random() < 0.4, hirsch=(k % 5 == 0 and len(a) >= 3 and False), block="protein"))
    # exact block: transition / substitution probabilities that are powers of two, run through _align_pairwise with
    # use_logs=False (products of powers of two are exact in floating point): the implementation's rows must equal
    # the model's rows, ties included (this is what ties the model's candidate order / traceback to the code)
    for k in range(150 if tier == "quick" else 1500):
        a = rand_seq(rng, 1, 9 if tier == "quick" else 16)
        b = mutate(rng, a) if rng.random() < 0.5 else rand_seq(rng, 1, 9 if tier == "quick" else 16)
        kexp = {x + y: (rng.randint(0, 3) if x == y else rng.randint(-4, 1)) for x in LET for y in LET}
        cases.append(dict(kind="pair", a=a, b=b, local=rng.random() < 0.4, d=None, e=None,
                          dyadic=dict(T=rng.choice(["T1", "T1", "T3"]), k=kexp), block="dyadic"))
    # non-integer score dictionaries through the public API (both APIs, both modes)
    for k in range(60 if tier == "quick" else 600):
        a = rand_seq(rng, 1, 10 if tier == "quick" else 24)
        b = mutate(rng, a) if rng.random() < 0.6 else rand_seq(rng, 1, 10 if tier == "quick" else 24)
        cases.append(dict(kind="pair", a=a, b=b, S=frac_S(rng), d=rng.randint(1, 12) + rng.choice([0, 0.5]), e=rng.randint(1, 4) + rng.choice([0, 0.25]),
                          local=(k % 2 == 1), api="classic" if k % 4 >= 2 else "pairwise", block="fractional"))
    # boundary gap penalties: 0, equal open/extend, large
    for k in range(40 if tier == "quick" else 400):
        a = rand_seq(rng, 1, 10)
        b = mutate(rng, a) if rng.random() < 0.6 else rand_seq(rng, 1, 10)
        d, e = [(0, 2), (5, 0), (0, 0), (3, 3), (1, 1), (25, 1), (25, 25), (2, 9)][k % 8]
        cases.append(dict(kind="pair", a=a, b=b, S=rand_S(rng), d=d, e=e, local=(k % 3 == 2), block="boundary_penalties"))
    # the threshold dimension crosses every pairwise mode: local/global x global_pairwise/local_pairwise and
    # classic_align_pairwise(local=...) x HIRSCHBERG_LIMIT in {0, small}; each case is also run at the default
    # threshold by the runner ("full") and the two results are compared
    nt = 25 if tier == "quick" else 250
    for api in ("pairwise", "classic"):
        for local in (False, True):
            for hl in (0, SMALL_LIMIT):
                for k in range(nt):
                    a = rand_seq(rng, 3, 10 if tier == "quick" else 24)
                    b = mutate(rng, a) if rng.random() < 0.5 else rand_seq(rng, 1, 10 if tier == "quick" else 24)
                    cases.append(dict(kind="pair", a=a, b=b, S=rand_S(rng), d=rng.randint(1, 14), e=rng.randint(1, 5),
                                      local=local, api=api, hlimit=hl, block="threshold"))
    # other configuration dimensions: result must not depend on them either (same model, same optimum)
    no = 8 if tier == "quick" else 80
    for oname, o in OPTIONS.items():
        for local in (False, True):
            if oname == "backward" and local:
                continue  # backward + local is an internal combination (posterior computation), scores another model
            for hl in ((None, 0) if oname in ("use_scaling", "no_logs", "no_score", "score_only") else (None,)):
                for k in range(no):
                    a = rand_seq(rng, 3, 10)
                    b = mutate(rng, a) if rng.random() < 0.5 else rand_seq(rng, 1, 10)
                    cases.append(dict(kind="pair", a=a, b=b, S=rand_S(rng), d=rng.randint(1, 14), e=rng.randint(1, 5), local=local,
                                      api="classic" if k % 2 else "pairwise", hlimit=hl, opts=o, optname=oname, block="options"))
    # linear-space (Hirschberg) vs full DP on the same input
    nh = 120 if tier == "quick" else 1500
    for k in range(nh):
        a = rand_seq(rng, 3, 10 if tier == "quick" else 30)
        b = mutate(rng, a) if rng.random() < 0.5 else rand_seq(rng, 1, 10 if tier == "quick" else 30)
        # (symmetric dicts here: the middle row is computed by the runner from tables it builds itself)
        cases.append(dict(kind="pair", a=a, b=b, S=dna_S(rng.randint(1, 12), rng.randint(-6, 2), rng.randint(-10, 0)),
                          d=rng.randint(1, 20), e=rng.randint(1, 5), local=False, hirsch=True, middle=True, block="hirschberg"))
    return cases


def rand_pairwise(rng, ref, other):
    """a random pairwise alignment of ref and other (no all-gap column)"""
    i = j = 0
    r, o = [], []
    while i < len(ref) or j < len(other):
        ch = rng.choice("MMMXY")
        if ch == "M" and i < len(ref) and j < len(other):
            r.append(ref[i]); o.append(other[j]); i += 1; j += 1
        elif ch == "X" and i < len(ref):
            r.append(ref[i]); o.append("-"); i += 1
        elif ch == "Y" and j < len(other):
            r.append("-"); o.append(other[j]); j += 1
    return "".join(r), "".join(o)


WITNESS_STAR = dict(kind="star", ref="CCAG", pw=[["CCA-G", "--TT-"], ["C-CAG", "-TT--"], ["C-CAG", "AG---"]], block="corpus")


def star_cases(rng, tier):
    cases = [WITNESS_STAR,
             dict(kind="star", ref="GGTT", pw=[["GG-TT", "GAGT-"], ["GGTT---", "----TCC"]], block="corpus"),
             dict(kind="star", ref="ACGT", pw=[["ACGT", "ACGT"]], block="corpus"),
             dict(kind="star", ref="ACGT", pw=[["A-CGT", "ATCGT"], ["ACG-T", "ACGGT"]], block="corpus")]
    n = 400 if tier == "quick" else 4000
    for _ in range(n):
        ref = rand_seq(rng, 1, 7)
        pw = []
        for _k in range(rng.randint(1, 4)):
            pw.append(list(rand_pairwise(rng, ref, rand_seq(rng, 1, 7))))
        cases.append(dict(kind="star", ref=ref, pw=pw, block="random"))
    return cases


def app_cases(rng, tier):
    cases = []
    nref = 40 if tier == "quick" else 400
    for _ in range(nref):
        base = rand_seq(rng, 4, 14)
        seqs = {f"s{k}": (mutate(rng, base) if rng.random() < 0.8 else rand_seq(rng, 2, 14)) for k in range(rng.randint(2, 5))}
        ref = rng.choice(["longest"] + sorted(seqs))
        de = rng.choice([(None, None), (None, None), (10, 2), (3, 1), (0, 2), (6, 0), (0, 0), (4, 4), (25, 1)])
        cases.append(dict(kind="ref", seqs=seqs, ref=ref, d=de[0], e=de[1], hlimit=[None, 0, SMALL_LIMIT][len(cases) % 3], block="align_to_ref"))
    nprog = 12 if tier == "quick" else 100
    for _k in range(nprog):
        base = rand_seq(rng, 10, 24)
        k = rng.randint(3, 5)
        seqs = {f"s{i}": mutate(rng, base) for i in range(k)}
        tree = None
        if rng.random() < 0.5:
            names = sorted(seqs)
            t = f"({names[0]}:0.1,{names[1]}:0.1)"
            for nm in names[2:]:
                t = f"({t}:0.05,{nm}:0.2)"
            tree = t + ";"
        cases.append(dict(kind="prog", seqs=seqs, tree=tree, must_complete=tree is not None,
                          hlimit=[None, 0, SMALL_LIMIT][_k % 3], block="progressive_align"))
    # guide-tree SHAPES and child ORDERS: every rooted binary topology with ordered children on 3 leaves, samples on 4-5 leaves;
    # members carry insertions at the start / in the middle / at the END
    def ordered_trees(leaves):
        if len(leaves) == 1:
            return [leaves[0]]
        out = []
        for mask in range(1, 2 ** len(leaves) - 1):
            left = [x for i, x in enumerate(leaves) if mask >> i & 1]
            right = [x for i, x in enumerate(leaves) if not mask >> i & 1]
            for lt in ordered_trees(left):
                for rt in ordered_trees(right):
                    out.append((lt, rt))
        return out

    def newick(t, depth=0):
        if isinstance(t, str):
            return f"{t}:{0.1 + 0.02 * depth:.2f}"
        inner = f"({newick(t[0], depth + 1)},{newick(t[1], depth + 1)})"
        return inner + (f":{0.05:.2f}" if depth else ";")

    shapes = {n: ordered_trees(list("ABCDE"[:n])) for n in (3, 4, 5)}
    plan = [(3, t) for t in shapes[3]]
    plan += [(4, rng.choice(shapes[4])) for _ in range(14 if tier == "quick" else 240)]
    plan += [(5, rng.choice(shapes[5])) for _ in range(8 if tier == "quick" else 240)]
    if tier != "quick":
        plan += [(3, t) for t in shapes[3]] * 5
    for _k, (n, t) in enumerate(plan):
        base = rand_seq(rng, 7, 11)
        seqs = {}
        for i, nm in enumerate("ABCDE"[:n]):
            sq = base
            if rng.random() < 0.4:
                mid = rng.randint(2, len(base) - 2)
                sq = sq[:mid] + rand_seq(rng, 2, 4) + sq[mid:]
            if rng.random() < 0.35:
                sq = rand_seq(rng, 2, 4) + sq
            if rng.random() < 0.45:
                sq = sq + rand_seq(rng, 2, 5)
            seqs[nm] = sq
        cases.append(dict(kind="prog", seqs=seqs, tree=newick(t), must_complete=True, hlimit=[None, None, 0][_k % 3],
                          block="progressive_shapes"))
    # constructed nested-indel families on a given guide tree: later joins open gaps at / next to earlier gaps
    nn = 16 if tier == "quick" else 160
    for _k in range(nn):
        seg = lambda lo, hi: rand_seq(rng, lo, hi)
        P, Q, S_, I, J = seg(4, 8), seg(4, 8), seg(2, 5), seg(2, 5), seg(2, 4)
        fam = _k % 4
        if fam == 0:      # A=P+Q, B=P+S+Q, C=P+I+S+Q : new gap at the column of A's earlier gap
            seqs = dict(A=P + Q, B=P + S_ + Q, C=P + I + S_ + Q); tree = "((A:0.1,B:0.1):0.05,C:0.2);"
        elif fam == 1:    # insertion right after the earlier gap
            seqs = dict(A=P + Q, B=P + S_ + Q, C=P + S_ + I + Q); tree = "((A:0.1,B:0.1):0.05,C:0.2);"
        elif fam == 2:    # four sequences, nested twice
            seqs = dict(A=P + Q, B=P + S_ + Q, C=P + I + S_ + Q, D=P + I + J + S_ + Q)
            tree = "(((A:0.1,B:0.1):0.05,C:0.15):0.05,D:0.2);"
        else:             # five sequences, two cherries joined, gaps on both sides
            seqs = dict(A=P + Q, B=P + S_ + Q, C=P + I + S_ + Q, D=P + S_ + J + Q, E=P + I + S_ + J + Q)
            tree = "(((A:0.1,B:0.1):0.05,(C:0.1,D:0.1):0.05):0.05,E:0.2);"
        cases.append(dict(kind="prog", seqs=seqs, tree=tree, must_complete=True, hlimit=[None, 0][_k % 2 if _k % 8 >= 4 else 0],
                          block="progressive_nested"))
    # histories on ONE PairHMM object (built as _align_pairwise builds it): the same object queried with different
    # option sets, in both orders; every answer must equal the answer of a fresh object (and the oracle)
    QS = [dict(how="path", local=False), dict(how="path", local=True), dict(how="score_and_alignment", local=False),
          dict(how="score_and_alignment", local=True), dict(how="path", local=False, ucf=False), dict(how="path", local=True, ucf=False),
          dict(how="forward", local=False), dict(how="forward", local=False, ucf=False)]
    for _k in range(40 if tier == "quick" else 400):
        a = rand_seq(rng, 2, 10)
        b = mutate(rng, a) if rng.random() < 0.6 else rand_seq(rng, 2, 10)
        if _k % 4 == 0:
            qs = [QS[0], QS[1]]
        elif _k % 4 == 1:
            qs = [QS[1], QS[0]]
        else:
            qs = [rng.choice(QS) for _ in range(rng.randint(2, 5))]
        cases.append(dict(kind="hist", a=a, b=b, S=rand_S(rng), d=rng.randint(1, 12), e=rng.randint(1, 4), queries=qs, block="pairhmm_history"))
    return cases


# ------------------------------------------------------------------ rendering for Coq

def ez(v):
    return "None" if v == NEG else f"(Some {core.V.zlit(int(v))})"


def coq_tables(Tq, emq, letters=LET):
    order = "BXYM"
    trt = "[" + ";".join("[" + ";".join("None" if s == "B" else ez(Tq[(p, s)]) for s in order) + "]" for p in order) + "]"
    tet = "[" + ";".join(ez(Tq[(p, "E")]) for p in order) + "]"
    emt = "[" + ";".join("[" + ";".join(ez(emq[(x, y)]) for y in letters) + "]" for x in letters) + "]"
    g = "[" + ";".join("Some 0" for _ in letters) + "]"
    return f"({trt},{tet},{emt},{g},{g})"


def zrow(s, letters=LET):
    return "[" + ";".join("(-1)" if ch == "-" else str(letters.index(ch)) for ch in s) + "]"


def unrow(l, letters=LET):
    return "".join("-" if v == -1 else letters[v] for v in l)


def coq_pair_case(mode, tabs, x, y, letters=LET):
    return f"({mode},{tabs},{zrow(x, letters)},{zrow(y, letters)})"


def coq_star_case(c, fixed):
    return f"({'true' if fixed else 'false'},{zrow(c['ref'])},[" + ";".join(f"({zrow(r)},{zrow(o)})" for r, o in c["pw"]) + "])"


# ------------------------------------------------------------------ checks

def valid_rows(rows, a, b, local):
    """what the property asks of the rows; returns a reason string or None"""
    r1, r2 = rows
    if len(r1) != len(r2):
        return "rows of unequal length"
    if any(x == "-" and y == "-" for x, y in zip(r1, r2)):
        return "all-gap column"
    d1, d2 = r1.replace("-", ""), r2.replace("-", "")
    if local:
        if d1 not in a or d2 not in b:
            return "degapped local row is not a contiguous part of the input"
    elif d1 != a or d2 != b:
        return "degapped row differs from the input"
    return None


def cond_tol(d, e):
    """the implementation takes BEGIN->state from a numerical eigenvector (TransitionMatrix.StationaryProbs): absolute
    error ~1e-16 in a probability as small as exp(-d), i.e. an absolute error ~1e-16/p in its log"""
    zx = 1.0 + math.exp(-e)
    zm = 1.0 + 2.0 * math.exp(-d)
    g = math.exp(-d) / zm
    pim = 1.0 / (1.0 + 2.0 * g * zx)
    return 2e-15 / ((1.0 - pim) / 2.0)


def close(x, y, extra=0.0):
    if x == NEG or y == NEG:
        return x == y
    return abs(x - y) <= TOL * max(1.0, abs(x), abs(y)) + extra


def check_pair(rep, c, ir, stats):
    """specification-level checks of one pairwise result; returns the (T, em) used"""
    lim = case_limit(c)
    mode = ("hirschberg" if lim is not None else "pairwise") + (":local" if c["local"] else ":global")
    if c.get("optname"):
        mode += ":opt-" + c["optname"]
    if "exc" in ir:
        rep.violation(f"{mode}:raised", dict(case=c, observed_impl=ir, broken="the aligner raised / hung on a valid input"))
        stats["viol"] += 1
        return None
    a, b = c["a"], c["b"]
    T, em = real_tables(c, ir["n"])
    extra = 0.0 if c.get("dyadic") else cond_tol(c["d"], c["e"])
    small = len(a) + len(b) <= (9 if not c["local"] else 8)
    if c["local"]:
        small = len(a) <= 3 and len(b) <= 3
        opt = brute_local(a, b, T, em) if small else dp_local(a, b, T, em)
    else:
        opt = brute_global(a, b, T, em) if small else dp_global(a, b, T, em)
    if small:
        stats["brute"] += 1
    rescored = None
    if ir["rows"] is not None:
        why = valid_rows(ir["rows"], a, b, c["local"])
        if why:
            rep.violation(f"{mode}:rows-invalid", dict(case=c, observed_impl=ir, expected_by_spec=why, broken="returned rows are not a valid alignment of the inputs"))
            stats["viol"] += 1
            return T, em
        r1, r2 = ir["rows"]
        rescored = path_score(rows_to_path(r1, r2), r1.replace("-", ""), r2.replace("-", ""), T, em, local=c["local"])
    reported = ir["score"] if ir["score"] is not None else rescored   # return_score=False: judge the rows alone
    if is_asymmetric(c) and not c.get("dyadic") and reported is not None and \
            not (close(opt, reported, extra) and (rescored is None or ir["score"] is None or close(rescored, ir["score"], extra))):
        # does reading the caller's dict the other way round explain the result?
        Tt, emt = real_tables(c, ir["n"], "transposed")
        opt_t = dp_local(a, b, Tt, emt) if c["local"] else dp_global(a, b, Tt, emt)
        res_t = None if ir["rows"] is None else path_score(rows_to_path(*ir["rows"]), ir["rows"][0].replace("-", ""),
                                                          ir["rows"][1].replace("-", ""), Tt, emt, local=c["local"])
        reported_t = ir["score"] if ir["score"] is not None else res_t
        if reported_t is not None and close(opt_t, reported_t, extra) and (res_t is None or close(res_t, reported_t, extra)):
            stats["asym_transposed"] = stats.get("asym_transposed", 0) + 1
            rep.violation("pairwise:asymmetric-score-dict-read-transposed",
                          dict(case=c, observed_impl=ir, expected_by_spec=dict(optimum_for_Sd_x_y=opt, score_of_returned_rows_for_Sd_x_y=rescored,
                               optimum_if_read_as_Sd_y_x=opt_t),
                               broken="with an asymmetric score dict the column (x in s1, y in s2) is scored Sd[y, x] instead of Sd[x, y]: "
                                      "reported score != score of the returned path under the caller's dict / not optimal for it"))
            stats["viol"] += 1
            return T, em
    if rescored is not None and ir["score"] is not None and not close(rescored, ir["score"], extra):
        rep.violation(f"{mode}:score-differs-from-path-score",
                      dict(case=c, observed_impl=ir, expected_by_spec=dict(score_of_returned_rows=rescored, optimum=opt),
                           broken="reported score != score recomputed from the returned rows"))
        stats["viol"] += 1
    elif not close(opt, reported, extra) and c.get("optname") == "use_scaling" and c["local"] and reported < opt:
        # OUTSIDE the property's quantifier (use_scaling is reachable only through **kw of classic_align_pairwise and is
        # not the Viterbi default): the scaled-probability kernel tracks the best local cell by (exponent, mantissa) with a
        # mantissa that is not renormalised after the emission factor, and returns a suboptimal local alignment when match
        # scores exceed 1 in probability space.  Counted in the evidence, not a verdict about C18.
        stats["scaling_local_suboptimal"] = stats.get("scaling_local_suboptimal", 0) + 1
        stats.setdefault("scaling_local_sample", dict(case=c, observed_impl=ir, optimum=opt))
    elif not close(opt, reported, extra):
        rep.violation(f"{mode}:not-optimal",
                      dict(case=c, observed_impl=ir, expected_by_spec=dict(optimum=opt, score_of_returned_rows=rescored),
                           broken="another path scores higher (or the reported score exceeds every path)"))
        stats["viol"] += 1
    if lim is not None:
        full = ir["full"]
        fs = full["score"]
        if fs is None and full["rows"] is not None and valid_rows(full["rows"], a, b, c["local"]) is None:
            fs = path_score(rows_to_path(*full["rows"]), full["rows"][0].replace("-", ""), full["rows"][1].replace("-", ""), T, em, local=c["local"])
        same_other_reading = False
        if fs is not None and full["score"] is None and is_asymmetric(c) and ir["rows"] is not None and full["rows"] is not None:
            # no scores returned and an asymmetric dict: two co-optimal alignments of the source's reading may score
            # differently under the documented reading (that defect has its own key); compare under the other reading too
            Tt, emt = real_tables(c, ir["n"], "transposed")
            sc = lambda rw: path_score(rows_to_path(*rw), rw[0].replace("-", ""), rw[1].replace("-", ""), Tt, emt, local=c["local"])
            same_other_reading = close(sc(full["rows"]), sc(ir["rows"]), extra)
        if fs is not None and not close(fs, reported, extra) and not same_other_reading:
            rep.violation(f"{mode}:score-differs-from-full-dp",
                          dict(case=c, observed_impl=ir, expected_by_spec=dict(full_dp_score=fs),
                               broken="the result depends on the HIRSCHBERG_LIMIT threshold (linear-space vs full dynamic programming)"))
            stats["viol"] += 1
        if full["rows"] == ir["rows"]:
            stats["threshold_same_rows"] = stats.get("threshold_same_rows", 0) + 1
    return T, em


def star_shape(c):
    """shape class of a star-merge input: does some reference gap that has to be added to a pairwise
    alignment fall strictly inside a gap run of the other sequence?"""
    def gaps(row):
        g = {}
        p = 0
        for ch in row:
            if ch == "-":
                g[p] = g.get(p, 0) + 1
            else:
                p += 1
        return g
    union = {}
    for r, _o in c["pw"]:
        for p, l in gaps(r).items():
            union[p] = max(union.get(p, 0), l)
    for r, o in c["pw"]:
        mine = gaps(r)
        # alignment column just before which residue p of the reference stands (= after its own gaps)
        col = {}
        p = 0
        for k, ch in enumerate(r):
            if ch != "-":
                col[p] = k
                p += 1
        col[p] = len(r)
        for p, l in union.items():
            if l > mine.get(p, 0):
                k = col[p]
                if 0 < k < len(o) and o[k - 1] == "-" and o[k] == "-":
                    return "new-ref-gap-inside-gap-of-other"
    return "other"


def check_star(rep, c, ir, stats):
    if "exc" in ir:
        rep.violation(f"pairwise_to_multiple:raised:{star_shape(c)}", dict(case=c, observed_impl=ir,
                      broken="pairwise_to_multiple raised on valid pairwise alignments"))
        stats["viol"] += 1
        return
    rows = ir["rows"]
    bad = None
    if len({len(r) for r in rows}) != 1:
        bad = "rows of unequal length"
    elif rows[0].replace("-", "") != c["ref"] or any(rows[1 + k].replace("-", "") != o.replace("-", "") for k, (_r, o) in enumerate(c["pw"])):
        bad = "degapped row differs from the input"
    if bad:
        rep.violation(f"pairwise_to_multiple:rows-invalid:{star_shape(c)}", dict(case=c, observed_impl=ir, expected_by_spec=bad,
                      broken="rows of the multiple alignment are not the inputs"))
        stats["viol"] += 1
        return
    for k, (r, o) in enumerate(c["pw"]):
        if project(rows[0], rows[1 + k]) != [r, o]:
            rep.violation(f"pairwise_to_multiple:pairwise-alignment-not-kept:{star_shape(c)}",
                          dict(case=c, observed_impl=ir, expected_by_spec=dict(pair=k, projection_should_be=[r, o],
                               projection_is=project(rows[0], rows[1 + k])),
                               broken="projection of the multiple alignment on (ref, s_k) is not the k-th pairwise alignment; "
                                      "theorem star_merge_keeps_pairwise_refuted"))
            stats["viol"] += 1
            stats["star_bad"] += 1
            return


def check_hist(rep, c, ir, stats):
    if "exc" in ir:
        rep.violation("pairhmm-history:raised", dict(case=c, observed_impl=ir, broken="a query on a shared PairHMM object raised / hung"))
        stats["viol"] += 1
        return
    T, em = real_tables(c, ir["n"])
    extra = cond_tol(c["d"], c["e"])
    for qi, (q, sh, fr) in enumerate(zip(c["queries"], ir["shared"], ir["fresh"])):
        kind = q["how"] + (":local" if q["local"] else ":global") + ("" if q.get("ucf") is None else ":use_cost_function=False")
        if sh["rows"] != fr["rows"] or not close(sh["score"], fr["score"]):
            rep.violation(f"pairhmm-history:{kind}:differs-from-fresh-object",
                          dict(case=c, query_index=qi, observed_impl=dict(shared=sh, fresh=fr),
                               broken="the answer of a PairHMM object depends on what it was asked before"))
            stats["viol"] += 1
            return
        if q["how"] != "forward" and q.get("ucf") is None:
            why = valid_rows(sh["rows"], c["a"], c["b"], q["local"])
            r1, r2 = sh["rows"]
            res = None if why else path_score(rows_to_path(r1, r2), r1.replace("-", ""), r2.replace("-", ""), T, em, local=q["local"])
            opt = dp_local(c["a"], c["b"], T, em) if q["local"] else dp_global(c["a"], c["b"], T, em)
            if why or not close(res, sh["score"], extra) or not close(opt, sh["score"], extra):
                rep.violation(f"pairhmm-history:{kind}:not-the-optimal-alignment",
                              dict(case=c, query_index=qi, observed_impl=sh, expected_by_spec=dict(rows_problem=why, optimum=opt, score_of_rows=res),
                                   broken="rows invalid / reported score != path score / not optimal, on a shared PairHMM object"))
                stats["viol"] += 1
                return
    stats["hist_queries"] = stats.get("hist_queries", 0) + len(c["queries"])


def check_app(rep, c, ir, stats):
    op = ("align_to_ref" if c["kind"] == "ref" else "progressive_align") + (":hirschberg" if case_limit(c) is not None else "")
    if "exc" in ir:
        rep.violation(f"{op}:raised", dict(case=c, observed_impl=ir, broken=f"{op} raised / hung on valid sequences"))
        stats["viol"] += 1
        return
    if "not_completed" in ir:
        stats["prog_nc"] = stats.get("prog_nc", 0) + 1
        if c.get("must_complete"):
            # the guide tree is given: nothing but the alignment itself can fail
            rep.violation(f"{op}:not-completed", dict(case=c, observed_impl=ir,
                          broken="progressive alignment on a given guide tree did not return an alignment for valid sequences"))
            stats["viol"] += 1
        return
    rows = ir["rows"]
    bad = None
    if set(rows) != set(c["seqs"]):
        bad = "sequence names differ"
    elif len({len(r) for r in rows.values()}) != 1:
        bad = "rows of unequal length"
    elif any(rows[n].replace("-", "") != s for n, s in c["seqs"].items()):
        bad = "degapped row differs from the input"
    if bad:
        rep.violation(f"{op}:rows-invalid", dict(case=c, observed_impl=ir, expected_by_spec=bad, broken="rows are not the inputs"))
        stats["viol"] += 1
        return
    if c["kind"] == "ref":
        ref = ir["ref"]
        d_cfg = 20 if c.get("d") is None else c["d"]
        e_cfg = 2 if c.get("e") is None else c["e"]
        T, em = _real_tables(lambda y, x: dna_S(10, -1, -8)[y + x], d_cfg, e_cfg, 4, LET)
        for n in sorted(ir["pairs"]):
            # the pairwise alignment the multiple alignment induces must be optimal for the CONFIGURED penalties
            pa, pb = project(rows[ref], rows[n])
            sa, sb = c["seqs"][ref], c["seqs"][n]
            if valid_rows([pa, pb], sa, sb, False) is None:
                got = path_score(rows_to_path(pa, pb), sa, sb, T, em)
                opt = dp_global(sa, sb, T, em)
                if not close(got, opt, cond_tol(d_cfg, e_cfg)) and star_shape(dict(ref=sa, pw=[ir["pairs"][m] for m in sorted(ir["pairs"])])) == "other":
                    rep.violation("align_to_ref:induced-pairwise-alignment-not-optimal-for-configured-penalties",
                                  dict(case=c, observed_impl=ir, expected_by_spec=dict(seq=n, optimum=opt, induced_score=got, d=d_cfg, e=e_cfg),
                                       broken="the pairwise alignment induced on (ref, seq) is not optimal for the configured gap penalties"))
                    stats["viol"] += 1
                    return
        for n, pr in ir["pairs"].items():
            if project(rows[ref], rows[n]) != pr:
                sc = dict(kind="star", ref=c["seqs"][ref], pw=[ir["pairs"][m] for m in sorted(ir["pairs"])])
                rep.violation(f"align_to_ref:pairwise-alignment-not-kept:{star_shape(sc)}",
                              dict(case=c, observed_impl=ir, expected_by_spec=dict(seq=n, projection_should_be=pr,
                                   projection_is=project(rows[ref], rows[n])),
                                   broken="align_to_ref does not keep the pairwise alignment with the reference"))
                stats["viol"] += 1
                return


# ------------------------------------------------------------------ the check

def model_pairs(cases, impl):
    """Coq evaluation: for every non-hirschberg pair case the model's own alignment (mode 0/1) and the
    specification's score of the IMPLEMENTATION's rows (mode 2/3)"""
    terms, index = [], []
    for k, (c, ir) in enumerate(zip(cases, impl)):
        if c["kind"] != "pair" or "exc" in ir or c.get("opts"):
            continue
        Tq, emq, _unit, _off = int_tables(c, ir["n"])
        letters = case_letters(c)
        tabs = coq_tables(Tq, emq, letters)
        if case_limit(c) is None:
            terms.append(coq_pair_case(1 if c["local"] else 0, tabs, c["a"], c["b"], letters))
            index.append((k, "align"))
        if valid_rows(ir["rows"], c["a"], c["b"], c["local"]) is None:
            terms.append(coq_pair_case(3 if c["local"] else 2, tabs, ir["rows"][0], ir["rows"][1], letters))
            index.append((k, "score"))
        if c.get("middle") and "middle" in ir:
            # the divide step: the model's middle row (Model/Hirschberg.v) at k = len(a) // 2
            terms.append(coq_pair_case(4, tabs, c["a"], c["b"], letters))
            index.append((k, "middle"))
            # ... and the model of the whole recursion
            terms.append(coq_pair_case(5, tabs, c["a"], c["b"], letters))
            index.append((k, "hirsch"))
    out = core.coq_eval(PROP, ["Lib.MaxPlus", "Model.PairAlign", "Model.PairAlignRun"], "run_case", terms, "pcase", shard=150, tag="p")
    res = {}
    for (k, what), v in zip(index, out):
        res.setdefault(k, {})[what] = v
    return res


def compare_pair_model(c, ir, mr, dis, stats):
    """model vs oracle (exact, integers) and model vs implementation (tolerance of the quantisation)"""
    Tq, emq, unit, off = int_tables(c, ir["n"])
    letters = case_letters(c)
    a, b = c["a"], c["b"]
    dyadic = bool(c.get("dyadic"))
    slack = 1e-9 if dyadic else (2 * (len(a) + len(b)) + 3) * 0.5 / K + 1e-7 + cond_tol(c["d"], c["e"])
    real = lambda v: v * unit + off
    def add(why, **kw):
        dis.append(dict(key=("local" if c["local"] else "global") + ":" + why, case=c, observed_impl=ir, model_output=mr, **kw))
    if "align" in mr:
        v = mr["align"]
        mscore = NEG if v[0] is None else v[0]
        opt_int = dp_local(a, b, Tq, emq) if c["local"] else dp_global(a, b, Tq, emq)
        if mscore != opt_int:
            add("model-optimum-differs-from-integer-oracle", oracle=opt_int)
        mrows = [unrow(v[2], letters), unrow(v[3], letters)]
        if valid_rows(mrows, a, b, c["local"]) is not None:
            add("model-rows-invalid")
        elif path_score(rows_to_path(*mrows), mrows[0].replace("-", ""), mrows[1].replace("-", ""), Tq, emq, local=c["local"]) != mscore:
            add("model-score-differs-from-its-path")
        if abs(real(mscore) - ir["score"]) > slack * max(1.0, abs(ir["score"])):
            add("model-score-differs-from-implementation", model_score=real(mscore))
        if mrows == ir["rows"]:
            stats["same_rows"] += 1
            stats["dyadic_same_rows"] = stats.get("dyadic_same_rows", 0) + (1 if dyadic else 0)
        elif "score" in mr and mr["score"][0] == mscore:
            # (dyadic block: exact arithmetic on both sides, so identical rows are expected and counted; a different
            # co-optimal path would mean the code breaks ties in another order, which the property does not forbid)
            stats["cooptimal_rows"] = stats.get("cooptimal_rows", 0) + 1   # a tie of the quantised scores, broken differently
        elif "score" in mr and mr["score"][0] is not None and abs(mr["score"][0] - mscore) * unit <= slack:
            stats["near_tie_rows"] = stats.get("near_tie_rows", 0) + 1     # equal within the quantisation error
        else:
            add("rows-differ-and-are-not-co-optimal")
        stats["model_align"] += 1
    if "middle" in mr:
        mm = mr["middle"]                      # flattened: j major, states BEGIN, X, Y, M
        im = [v for row in ir["middle"]["rows"] for v in row]
        if ir["middle"]["k"] != len(a) // 2 or len(mm) != len(im):
            add("hirschberg-middle-row-shape", model_len=len(mm), impl_len=len(im))
        else:
            bad = [(q, x, y) for q, (x, y) in enumerate(zip(mm, im))
                   if (x is None) != (y is None) or (x is not None and abs(real(x) - y) > slack * max(1.0, abs(y)))]
            if bad:
                add("hirschberg-middle-row-differs", first=bad[0])
            fin = [x for x in mm if x is not None]
            if fin and abs(real(max(fin)) - ir["score"]) > slack * max(1.0, abs(ir["score"])):
                add("hirschberg-middle-max-differs-from-score", model_max=real(max(fin)))
            stats["middle_rows"] = stats.get("middle_rows", 0) + 1
            stats["middle_entries"] = stats.get("middle_entries", 0) + len(mm)
    if "hirsch" in mr:
        hv = mr["hirsch"]
        hscore = NEG if hv[0] is None else hv[0]
        if hscore != dp_global(a, b, Tq, emq):
            add("hirschberg-model-score-differs-from-integer-oracle")
        if abs(real(hscore) - ir["score"]) > slack * max(1.0, abs(ir["score"])):
            add("hirschberg-model-score-differs-from-implementation", model_score=real(hscore))
        hrows = [unrow(hv[2], letters), unrow(hv[3], letters)]
        if hrows == ir["rows"]:
            stats["hirsch_same_rows"] = stats.get("hirsch_same_rows", 0) + 1
        elif "score" in mr and mr["score"][0] is not None and abs(mr["score"][0] - hscore) * unit <= slack:
            stats["hirsch_cooptimal_rows"] = stats.get("hirsch_cooptimal_rows", 0) + 1
        else:
            add("hirschberg-rows-differ-and-are-not-co-optimal", model_rows=hrows)
        stats["hirsch_model"] = stats.get("hirsch_model", 0) + 1
    if "score" in mr:
        r1, r2 = ir["rows"]
        mine = path_score(rows_to_path(r1, r2), r1.replace("-", ""), r2.replace("-", ""), Tq, emq, local=c["local"])
        ms = NEG if mr["score"][0] is None else mr["score"][0]
        if ms != mine:
            add("spec-score-of-impl-rows-differs-from-oracle", oracle=mine)
        if abs(real(ms) - ir["score"]) > slack * max(1.0, abs(ir["score"])) and not (case_limit(c) is not None and not c["local"]):
            add("spec-score-of-impl-rows-differs-from-reported", spec_score=real(ms))


def run(tier: str, seed: int) -> int:
    rep = core.Report(PROP, tier, seed)
    rng = random.Random(seed * 7919 + 18)
    pr = core.proof_stage(PROP, COQ_TARGETS)
    core.proof_coverage(rep, pr, "make theories/Properties/C18.vo && coqc gen/assum_C18.v (Print Assumptions)", [
        "scores: theorems are over integers extended with -inf; the code adds float logs (numpy/numba) — tied by comparing "
        "the reported float score with the model's optimum on score tables quantised to 1e-6 (tolerance = number of terms x 0.5e-6)",
        "traceback pointers are represented in the model by the paths they denote (Model/PairAlign.v header)",
        "numba kernels (pairwise_seqs_numba / pairwise_pogs_numba), Hirschberg recursion, progressive alignment: not modelled, compared/observed only",
    ])
    rep.assumptions += ["sequences over the canonical DNA letters ACGT (no ambiguity codes) in the correspondence; theorems hold for any residue codes >= 0",
                        "classic_align_pairwise scoring (make_dna_scoring_dict / arbitrary 4x4 score dicts, d, e); theorems hold for every score table"]
    cases = pair_cases(rng, tier) + star_cases(rng, tier) + app_cases(rng, tier)
    impl = core.run_impl_sharded("c18_impl.py", cases, nshards=min(core.NPROC, 6))
    stats = dict(viol=0, brute=0, star_bad=0, same_rows=0, model_align=0)
    dis = []
    # specification oracles
    for c, ir in zip(cases, impl):
        if c["kind"] == "pair":
            check_pair(rep, c, ir, stats)
        elif c["kind"] == "star":
            check_star(rep, c, ir, stats)
        elif c["kind"] == "hist":
            check_hist(rep, c, ir, stats)
        else:
            check_app(rep, c, ir, stats)
    nprog = sum(1 for c in cases if c["kind"] == "prog")
    if stats.get("prog_nc", 0) * 2 > nprog:
        rep.violation("progressive_align:not-completed", dict(broken="progressive_align returned NotCompleted on most inputs",
                      n=stats["prog_nc"], of=nprog, sample=next(ir for ir in impl if "not_completed" in ir)), no_input=True)
    # linear-space vs full DP on the same input (the full-DP result is recomputed by the oracle: the optimum)
    # -> covered by check_pair's keys "hirschberg:global:*"
    # how does the source read asymmetric dicts?  (decides the tables the MODEL is evaluated on, not the verdict)
    votes = dict(natural=0, transposed=0)
    for c, ir in zip(cases, impl):
        if c["kind"] == "pair" and is_asymmetric(c) and not c.get("dyadic") and "exc" not in ir and ir.get("score") is not None \
                and not c.get("opts") and not c["local"] and case_limit(c) is None:
            for o in votes:
                To, emo = real_tables(c, ir["n"], o)
                if close(dp_global(c["a"], c["b"], To, emo), ir["score"], cond_tol(c["d"], c["e"])):
                    votes[o] += 1
    SOURCE_ORIENT[0] = "natural" if votes["natural"] > votes["transposed"] else "transposed"
    rep.coverage["asymmetric_dict_orientation_of_source"] = dict(votes=votes, used_for_model=SOURCE_ORIENT[0])
    # models
    model_ok = True
    try:
        mp = model_pairs(cases, impl)
        star_idx = [k for k, c in enumerate(cases) if c["kind"] == "star"]
        ms = {}
        for fixed in (False, True):
            ms[fixed] = core.coq_eval(PROP, ["Model.PairAlign", "Model.StarMerge", "Model.StarMergeRun"], "run_star",
                                      [coq_star_case(cases[k], fixed) for k in star_idx],
                                      "bool * list Z * list (list Z * list Z)", shard=300, tag="s")
    except core.CheckError as e:
        if not pr["problems"]:
            raise
        model_ok = False
        rep.notes.append(f"model not runnable: {str(e)[:300]}")
    star_variant = None
    if model_ok:
        for k, mr in mp.items():
            compare_pair_model(cases[k], impl[k], mr, dis, stats)
        # the star-merge model has two variants: the pinned code and the code with proposed fix C18-1 applied
        vdis = {}
        for fixed in (False, True):
            vd = vdis[fixed] = []
            for k, mv in zip(star_idx, ms[fixed]):
                c, ir = cases[k], impl[k]
                if isinstance(mv, core.V.Exc):
                    if "exc" not in ir:
                        vd.append(dict(key="star:model-raises", case=c, observed_impl=ir, model_output="ValueError"))
                    continue
                mrows = [unrow(r) for r in mv]
                if "exc" in ir:
                    # ragged rows make the Alignment constructor raise
                    if len({len(r) for r in mrows}) == 1:
                        vd.append(dict(key="star:impl-raises", case=c, observed_impl=ir, model_output=mrows))
                elif mrows != ir["rows"]:
                    vd.append(dict(key="star:rows-differ", case=c, observed_impl=ir, model_output=mrows))
        star_variant = "pinned" if len(vdis[False]) <= len(vdis[True]) else "fix-C18-1"
        dis += vdis[star_variant == "fix-C18-1"]

    # coverage
    blocks = {}
    for c in cases:
        blocks[c["block"]] = blocks.get(c["block"], 0) + 1
    nontrivial = set()
    for c, ir in zip(cases, impl):
        if "exc" in ir:
            continue
        if c["kind"] == "pair":
            if ir["rows"] is None:
                nontrivial.add(json.dumps(c, sort_keys=True))
            elif any("-" in r for r in ir["rows"]) or (c["local"] and len(ir["rows"][0].replace("-", "")) < len(c["a"])):
                nontrivial.add(json.dumps(c, sort_keys=True))
        elif c["kind"] == "star":
            if len(c["pw"]) >= 2 and any("-" in r for r, _ in c["pw"]):
                nontrivial.add(json.dumps(c, sort_keys=True))
        elif c["kind"] == "hist":
            if len({(q["local"], q.get("ucf"), q["how"]) for q in c["queries"]}) >= 2:
                nontrivial.add(json.dumps(c, sort_keys=True))
        else:
            if "rows" in ir and any("-" in r for r in ir["rows"].values()):
                nontrivial.add(json.dumps(c, sort_keys=True))
    # (mode x threshold x option) matrix of what was actually run
    def cell(c):
        if c["kind"] == "pair":
            api = "_align_pairwise(dyadic tables)" if c.get("dyadic") else \
                "classic_align_pairwise" if c.get("api") == "classic" else "global_pairwise/local_pairwise"
            mode = f"{api}:{'local' if c['local'] else 'global'}"
        else:
            mode = {"star": "pairwise_to_multiple", "ref": "align_to_ref", "prog": "progressive_align",
                    "hist": "PairHMM object history"}[c["kind"]]
        lim = case_limit(c)
        thr = "default" if lim is None else "0" if lim == 0 else f"small({lim})"
        return mode, thr, c.get("optname") or "none"
    matrix = {}
    for c, ir in zip(cases, impl):
        key = " | ".join(cell(c))
        matrix.setdefault(key, dict(cases=0, raised=0))
        matrix[key]["cases"] += 1
        matrix[key]["raised"] += 1 if "exc" in ir else 0
    pair_modes = [f"{api}:{lg}" for api in ("global_pairwise/local_pairwise", "classic_align_pairwise") for lg in ("global", "local")]
    thrs = ["default", "0", f"small({SMALL_LIMIT})"]
    wanted = [(m_, t, o) for m_ in pair_modes for t in thrs for o in ["none"] + list(OPTIONS)]
    wanted += [(m_, t, "none") for m_ in ("align_to_ref", "progressive_align") for t in thrs]
    empty = [" | ".join(w) for w in wanted if " | ".join(w) not in matrix]
    sample_k = next(k for k, c in enumerate(cases) if c["block"] == "random")
    rep.coverage.update(
        evaluations=len(cases), distinct_nontrivial=len(nontrivial),
        rule="one evaluation = one call of global_pairwise/local_pairwise (full DP or forced Hirschberg), pairwise_to_multiple, "
             "align_to_ref or progressive_align; non-trivial = the returned alignment contains a gap (pairwise: or is a proper local part), "
             "star merge: >= 2 pairwise alignments with a gap in a reference row",
        samples=[dict(case=cases[sample_k], impl=impl[sample_k]), dict(case=WITNESS_STAR)],
        input_distribution=dict(blocks=blocks, pair_len_max=max(len(c["a"]) for c in cases if c["kind"] == "pair"),
                                brute_force_optimality=stats["brute"], model_alignments=stats["model_align"],
                                model_rows_equal_impl_rows=stats["same_rows"], dyadic_rows_identical=stats.get("dyadic_same_rows", 0),
                                model_rows_cooptimal_tie=stats.get("cooptimal_rows", 0), model_rows_near_tie=stats.get("near_tie_rows", 0), star_projection_failures=stats["star_bad"],
                                progressive_not_completed=stats.get("prog_nc", 0)),
        exhaustive=False,
        exhaustive_block=f"all pairs of sequences over {{A,C}} of length 1..{3 if tier == 'quick' else 4} x scorings x global/local",
        partial=["linear-space (Hirschberg): divide step and the whole recursion are proved = full DP on the MODEL (hirsch_align); that the "
                 "implementation is that recursion is by correspondence (forced HIRSCHBERG_LIMIT: scores, rows, middle row vs the model); "
                 "alignments of alignments (POG midlinks) are not modelled",
                 "progressive alignment (tree_align): outputs observed (equal lengths, degapped rows = inputs), not modelled",
                 "star merge: for the pinned rule 'keeps each pairwise alignment' is proved only where no new reference gap falls strictly "
                 "inside a gap of the other sequence (and refuted otherwise); proved in general for the repaired rule (C18-1)",
                 "float log-space arithmetic and the numba kernels: compared with tolerance, not proved"],
        mode_threshold_option_matrix=matrix, matrix_empty_cells=empty,
        matrix_note="threshold = HIRSCHBERG_LIMIT during the call; every case with a non-default threshold is also run at the default "
                    "and the two results compared (score; rows counted); options: see OPTIONS in harness/props/c18.py; backward+local "
                    "is excluded on purpose (internal combination used for posteriors, scores a different model); pairwise_to_multiple "
                    "takes no threshold (no DP)",
        threshold_rows_identical_to_full_dp=stats.get("threshold_same_rows", 0),
        pairhmm_history_queries=stats.get("hist_queries", 0),
        hirschberg_model_runs=stats.get("hirsch_model", 0), hirschberg_model_rows_identical=stats.get("hirsch_same_rows", 0),
        hirschberg_model_rows_cooptimal=stats.get("hirsch_cooptimal_rows", 0),
        hirschberg_middle_rows_compared=stats.get("middle_rows", 0), hirschberg_middle_entries_compared=stats.get("middle_entries", 0),
        outside_quantifier_observations=dict(
            why="C18's quantifier is 'all sequence pairs/sets x all scoring matrices and gap penalties x local/global x the "
                "Hirschberg-threshold setting x reference choice'; use_scaling is none of these (reachable only through **kw of "
                "classic_align_pairwise, not the Viterbi default), so its local-mode suboptimality is recorded, not judged",
            use_scaling_local_suboptimal=stats.get("scaling_local_suboptimal", 0),
                                             sample=stats.get("scaling_local_sample")),
        model_impl_disagreements=len(dis), spec_violations=stats["viol"], star_model_variant_matching_source=star_variant,
    )
    core.conclude(rep, pr, f"{len(cases)} cases against the alignment oracles", dis[:5],
                  "Model.PairAlignRun.run_case / Model.StarMergeRun.run_star vs cogent3.align / cogent3.app.align", tier, PROP)
    return rep.finish("proof")


def replay(path: str) -> int:
    d = json.loads(open(path).read())
    if "case" not in d:
        print("replay names a broken obligation, not an input:", d.get("broken"))
        return 1
    c = d["case"]
    ir = core.run_impl_lines("c18_impl.py", [c])[0]
    print("case  :", json.dumps(c))
    print("impl  :", json.dumps(ir))
    rep = core.Report(PROP, "replay", 0)
    rep.findings = []  # a replay reports the raw verdict
    hits = []
    rep.violation = lambda key, rd, no_input=False: hits.append((key, rd))
    stats = dict(viol=0, brute=0, star_bad=0, same_rows=0, model_align=0)
    if c["kind"] == "pair":
        check_pair(rep, c, ir, stats)
    elif c["kind"] == "star":
        check_star(rep, c, ir, stats)
    elif c["kind"] == "hist":
        check_hist(rep, c, ir, stats)
    else:
        check_app(rep, c, ir, stats)
    for key, rd in hits:
        print("oracle:", key, json.dumps(rd.get("expected_by_spec")), "--", rd.get("broken"))
    print("REPRODUCED" if hits else "not reproduced")
    return 1 if hits else 0
