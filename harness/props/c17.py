"""C17 — Annotation databases return exactly the matching records.

Stage P: Properties/C17.v over the window clauses regenerated from the current
source (translator sql_clause.py).  Stage C: the real sqlite-backed databases
(Basic / Gff / Genbank, the latter two loaded from generated GFF3 / GenBank text)
vs the Coq model (vm_compute).  Stage S: plain-Python oracles (interval scan,
grouping for count_distinct, records read directly from the GFF text whatever
lines_per_block, positions denoted by a GenBank location)."""
from __future__ import annotations

import itertools
import random
import re
import subprocess

from vcheck import core
from vcheck.val import Exc, cbool, from_jsonable, jsonable, zlit, zstr

PROP = "C17"


# ------------------------------------------------------------------ translator

def run_translator() -> str | None:
    """regenerate gen/OverlapGen.v; returns an error string if the translator failed closed"""
    r = subprocess.run([core.PY, str(core.VERIF / "harness/translators/sql_clause.py")], capture_output=True,
                       text=True, env=core.impl_env())
    out = core.GEN / "OverlapGen.v"
    core.GEN.mkdir(exist_ok=True)
    if r.returncode != 0:
        return (r.stderr or r.stdout)[-600:]
    if not out.exists() or out.read_text() != r.stdout:
        out.write_text(r.stdout)
    return None


COQ_TARGETS = ["theories/Model/AnnotDbRun.vo", "theories/Model/AnnotDbGff.vo", "theories/Model/AnnotDbGffText.vo"]


def pre_build():
    err = run_translator()
    if err:
        raise core.CheckError("sql_clause translator failed: " + err)


# ------------------------------------------------------------------ generators

SEQIDS = ["s1", "s2", "S1"]
BIOTYPES = ["gene", "CDS", "exon", "mRNA"]
NAMES = ["abc", "abcd", "xabc", "ABC", "a_c", "abc", "g1", "g10", "G1", "a%c"]
STRANDS = ["+", "-", None]
ATTRS = [None, "note=abc", "Note=ABC;x=1", "x=1", "k=a_c"]


def rand_spans(rng, maxc=30):
    n = rng.choice([1, 1, 1, 2, 3, 4])
    out = []
    for _ in range(n):
        a = rng.randint(0, maxc)
        b = a + rng.choice([1, 1, 2, 3, 5, 8])
        if rng.random() < 0.15:
            a, b = b, a
        out.append([a, b])
    return out


def rand_user(rng):
    r = dict(seqid=rng.choice(SEQIDS), biotype=rng.choice(BIOTYPES), name=rng.choice(NAMES), strand=rng.choice(STRANDS),
             attrs=rng.choice(ATTRS), spans=rand_spans(rng))
    r["on_aln"] = rng.choice([False, False, True, None])
    return r


def rand_gff_features(rng, n):
    feats = []
    used = set()
    for i in range(n):
        name = rng.choice(NAMES[:-1]) + (f".{i}" if rng.random() < 0.7 else "")
        name = name.replace("%", "p")
        if name in used:
            continue
        used.add(name)
        lines = []
        for _ in range(rng.choice([1, 1, 2, 3])):
            s = rng.randint(1, 30)
            e = s + rng.choice([0, 1, 2, 5, 9])
            lines.append([s, e])
        feats.append(dict(seqid=rng.choice(SEQIDS), biotype=rng.choice(BIOTYPES), name=name,
                          strand=rng.choice(["+", "-", None]), attrs=rng.choice([None, "note=abc", "x=1"]), lines=lines))
    return feats


def rand_loc(rng):
    """GenBank location AST: ["seg", a, b, "<"|"", ">"|""] | ["pt", a] | ["join", [..]] | ["compl", [child]]"""
    def seg():
        a = rng.randint(1, 30)
        if rng.random() < 0.12:
            return ["pt", a]
        return ["seg", a, a + rng.choice([0, 1, 3, 7, 12]), rng.choice(["", "", "", "<"]), rng.choice(["", "", "", ">"])]

    def join(inner_compl):
        kids = []
        for _ in range(rng.choice([2, 2, 3, 4])):
            k = seg()
            if inner_compl and rng.random() < 0.4:
                k = ["compl", [k]]
            kids.append(k)
        return ["join", kids]

    shape = rng.choice(["seg", "seg", "cseg", "join", "join", "cjoin", "mixed", "nested"])
    if shape == "seg":
        return seg()
    if shape == "cseg":
        return ["compl", [seg()]]
    if shape == "join":
        return join(False)
    if shape == "cjoin":
        return ["compl", [join(False)]]
    if shape == "mixed":
        return join(True)
    return ["join", [seg(), join(False), ["compl", [join(False)]]]]


def loc_text(x):
    if x[0] == "seg":
        return f"{x[3]}{x[1]}..{x[4]}{x[2]}"
    if x[0] == "pt":
        return str(x[1])
    return ("join(" if x[0] == "join" else "complement(") + ",".join(loc_text(k) for k in x[1]) + ")"


def loc_coq(x):
    if x[0] == "seg":
        return f"(LSeg {zlit(x[1])} {zlit(x[2])})"
    if x[0] == "pt":
        return f"(LPoint {zlit(x[1])})"
    return ("(LJoin [" if x[0] == "join" else "(LCompl [") + ";".join(loc_coq(k) for k in x[1]) + "])"


def loc_oracle(x, strand=1):
    """the positions a GenBank location denotes: [(start0, stop_excl, strand)]; 1-based closed -> 0-based half-open"""
    if x[0] == "seg":
        return [(x[1] - 1, x[2], strand)]
    if x[0] == "pt":
        return [(x[1] - 1, x[1], strand)]
    return [s for k in x[1] for s in loc_oracle(k, -strand if x[0] == "compl" else strand)]


def rand_gb_features(rng, n):
    feats = []
    for _ in range(n):
        q = rng.choice(["gene", "gene", "locus_tag", None])
        feats.append(dict(biotype=rng.choice(BIOTYPES + ["misc_feature"]), qualifier=q,
                          qname=rng.choice(["abc", "abcd", "ABC", "g1", "g10", "a_c"]) if q else None, loc=rand_loc(rng)))
    return feats


def gb_names(feats):
    """name = first naming qualifier, else <type>-<running number of unnamed features> (_make_fake_id)"""
    out, k = [], 0
    for f in feats:
        if f["qualifier"]:
            out.append(f["qname"])
        else:
            out.append(f"{f['biotype']}-{k}")
            k += 1
    return out


def rand_cd(rng):
    """count_distinct arguments (seqid, biotype, name): False | True | a value or pattern"""
    return [rng.choice([False, True, True, rng.choice(SEQIDS + ["s%"])]), rng.choice([False, True, rng.choice(BIOTYPES)]),
            rng.choice([False, True, rng.choice(["abc", "a%", "g1%", "%"])])]


ALL_CDS = [[a, b, c] for a in (False, True, "s1") for b in (False, True, "gene") for c in (False, True, "u%")]


def rand_query(rng, maxc=32):
    q = dict(biotype=None, seqid=None, name=None, strand=None, attrs=None, on_aln=None, start=None, stop=None,
             partial=rng.random() < 0.5)
    if rng.random() < 0.4:
        q["biotype"] = rng.choice(BIOTYPES)
    if rng.random() < 0.5:
        q["seqid"] = rng.choice(SEQIDS)
    if rng.random() < 0.35:
        q["name"] = rng.choice(NAMES + ["abc%", "%bc", "a_c", "%", "g1%", "A%"])
    if rng.random() < 0.3:
        q["strand"] = rng.choice(["+", "-"])
    if rng.random() < 0.3:
        # a list / tuple / set of values (empty, one, several) for one or two of seqid / biotype / name
        for k, pool in rng.sample([("biotype", BIOTYPES), ("seqid", SEQIDS), ("name", NAMES + ["g1%"])], rng.choice([1, 1, 2])):
            n = rng.choice([0, 1, 1, 2, 3])
            q[k] = coll(rng.choice(["list", "tuple", "set"]), sorted(set(rng.sample(pool, min(n, len(pool))))))
    if rng.random() < 0.2:
        q["attrs"] = rng.choice(["abc", "x=1", "note", "a_c", "zzz", "%%x=1"])
    if rng.random() < 0.2:
        q["on_aln"] = rng.choice([True, False])
    w = rng.random()
    if w < 0.6:
        a = rng.randint(0, maxc)
        b = a + rng.choice([1, 1, 2, 4, 8, 16])
        q["start"], q["stop"] = a, b
    elif w < 0.7:
        q["start"] = rng.randint(0, maxc)
    elif w < 0.8:
        q["stop"] = rng.randint(0, maxc)
    return q


def lattice_case(kind, n=6):
    """every feature [fs,fe) with 0<=fs<=fe<=n in one db; every window incl. degenerate ones"""
    ops = []
    if kind == "gff":
        feats = [dict(seqid="s1", biotype="gene", name=f"f{fs}_{fe}", strand="+", attrs=None, lines=[[fs + 1, fe]])
                 for fs in range(n + 1) for fe in range(fs + 1, n + 1)]
        ops.append(dict(op="gff", features=feats))
    elif kind == "gb":
        feats = [dict(biotype="gene", qualifier="gene", qname=f"f{fs}_{fe}", loc=["seg", fs + 1, fe, "", ""])
                 for fs in range(n + 1) for fe in range(fs + 1, n + 1)]
        ops.append(dict(op="gb", seqid="s1", features=feats))
    else:
        for fs in range(n + 1):
            for fe in range(fs, n + 1):
                ops.append(dict(op="add", raw=dict(seqid="s1", biotype="gene", name=f"f{fs}_{fe}", strand="+",
                                                     attrs=None, on_aln=False, spans=[[fs, fe]])))
    qs = []
    base = dict(biotype=None, seqid=None, name=None, strand=None, attrs=None, on_aln=None)
    for a in range(-1, n + 2):
        qs.append(dict(base, start=a, stop=None, partial=True))
        qs.append(dict(base, start=None, stop=a, partial=False))
        for b in range(-1, n + 2):
            for p in (True, False):
                qs.append(dict(base, start=a, stop=b, partial=p))
    return dict(kind=kind, ops=ops, queries=qs, block="lattice")


def twotable_cases():
    """argument handling of both query entry points on two-table (gff+user) and one-table dbs:
    on_alignment in {None, True, False} x user rows present/absent x gff rows present/absent x
    start in {None, 0, 2} x stop in {None, 0, 3, 6} x allow_partial x one falsy-or-plain filter, exhaustive"""
    gff_feats = [dict(seqid="s1", biotype="gene", name="g03", strand="+", attrs=None, lines=[[1, 3]]),
                 dict(seqid="s2", biotype="CDS", name="g26", strand="-", attrs="note=abc", lines=[[3, 6]]),
                 dict(seqid="s1", biotype="CDS", name="g05", strand="+", attrs=None, lines=[[1, 2], [4, 5]])]
    users = [dict(seqid="s1", biotype="gene", name="u02", strand="+", attrs=None, on_aln=True, spans=[[0, 2]]),
             dict(seqid="s1", biotype="exon", name="u14", strand="-", attrs="", on_aln=False, spans=[[1, 4]]),
             dict(seqid="s2", biotype="gene", name="u36", strand=None, attrs="x=1", on_aln=None, spans=[[3, 6]]),
             dict(seqid="s1", biotype="gene", name="", strand="+", attrs=None, on_aln=True, spans=[[0, 6]]),
             dict(seqid="s2", biotype="gene", name="u01", strand="-", attrs=None, on_aln=False, spans=[[0, 1]])]
    filters = [dict(), dict(name=""), dict(seqid="s1"), dict(strand="+"), dict(attrs=""), dict(biotype="gene", seqid="s2"),
               dict(biotype=coll("list", [])), dict(name=coll("tuple", [])), dict(seqid=coll("set", [])),
               dict(biotype=coll("tuple", ["gene"])), dict(name=coll("list", ["u02", "g03", "b03", "nope"])),
               dict(seqid=coll("set", ["s1", "s2"]), biotype=coll("list", ["CDS", "exon"])),
               dict(name=coll("set", []), seqid="s1"), dict(biotype=coll("list", ["gene", "CDS"]), strand="+")]
    qs = []
    for on in (None, True, False):
        for a in (None, 0, 2):
            for b in (None, 0, 3, 6):
                for p in (True, False):
                    for f in filters:
                        q = dict(biotype=None, seqid=None, name=None, strand=None, attrs=None, on_aln=on, start=a, stop=b, partial=p)
                        q.update(f)
                        qs.append(q)
    adds = [dict(op="add", raw=u) for u in users]
    return [dict(c, cds=ALL_CDS) for c in _twotable(gff_feats, adds, qs)]


def subset_cases():
    """subset() argument handling, exhaustive over a small set: start/stop in {None, 0, k} x allow_partial x one
    falsy-or-plain filter, on a two-table db holding rows in both tables and on a one-table db; after the subset
    every record is listed and three windows are asked"""
    base = twotable_cases()
    two, one = base[1], base[3]
    allq = dict(biotype=None, seqid=None, name=None, strand=None, attrs=None, on_aln=None, start=None, stop=None, partial=False)
    after = [allq, dict(allq, start=0, stop=3, partial=True), dict(allq, start=0), dict(allq, stop=0), dict(allq, on_aln=False)]
    out = []
    for src in (two, one):
        for a in (None, 0, 2):
            for b in (None, 0, 3, 6):
                for p in (True, False):
                    for f in (dict(), dict(name=""), dict(seqid="s1"), dict(attrs=""), dict(biotype=coll("list", [])),
                              dict(name=coll("tuple", ["u02", "g03"])), dict(seqid=coll("set", ["s1"]), biotype=coll("list", ["gene", "exon"]))):
                        if a is None and b is None and not f and p:
                            continue
                        q = dict(allq, start=a, stop=b, partial=p)
                        q.update(f)
                        out.append(dict(kind=src["kind"], ops=src["ops"] + [dict(op="subset", query=q)], queries=after, block="subset"))
    return out


def _twotable(gff_feats, adds, qs):
    return [dict(kind="gff", ops=[dict(op="gff", features=gff_feats)], queries=qs, block="twotable"),
            dict(kind="gff", ops=[dict(op="gff", features=gff_feats)] + adds, queries=qs, block="twotable"),
            dict(kind="gff", ops=adds, queries=qs, block="twotable"),
            dict(kind="basic", ops=adds, queries=qs, block="twotable"),
            dict(kind="gb", ops=[dict(op="gb", seqid="s1", features=[
                dict(biotype="gene", qualifier="gene", qname="b03", loc=["seg", 1, 3, "", ""]),
                dict(biotype="CDS", qualifier=None, qname=None, loc=["compl", [["join", [["seg", 1, 2, "<", ""], ["seg", 5, 6, "", ">"]]]]]),
                dict(biotype="CDS", qualifier="locus_tag", qname="", loc=["join", [["pt", 3], ["compl", [["seg", 4, 6, "", ""]]]]])])] + adds,
                 queries=[q for q in qs if q["attrs"] is None], block="twotable")]


def random_case(rng):
    kind = rng.choice(["basic", "gff", "gff", "gb"])
    ops = []
    if kind == "gff":
        ops.append(dict(op="gff", features=rand_gff_features(rng, rng.randint(1, 8))))
    elif kind == "gb":
        ops.append(dict(op="gb", seqid=rng.choice(SEQIDS), features=rand_gb_features(rng, rng.randint(1, 8))))
    for _ in range(rng.randint(1, 8)):
        r = rng.random()
        if r < 0.55 or not ops:
            ops.append(dict(op="add", raw=rand_user(rng)))
        elif r < 0.75:
            # the other db: a BasicAnnotationDb, or (two-table classes) one of the same class loaded from text
            o = dict(op="union" if r < 0.65 else "update", other=[rand_user(rng) for _ in range(rng.randint(0, 3))])
            if kind != "basic" and rng.random() < 0.5:
                o["other_kind"] = kind
                if kind == "gff":
                    o["other_feats"] = rand_gff_features(rng, rng.randint(1, 4))
                else:
                    o["other_seqid"] = rng.choice(SEQIDS)
                    o["other_feats"] = rand_gb_features(rng, rng.randint(1, 4))
            ops.append(o)
        elif r < 0.85:
            q = rand_query(rng)
            q["on_aln"] = None
            ops.append(dict(op="subset", query=q))
        else:
            ops.append(dict(op="copy", how=rng.choice(["deepcopy", "pickle", "json"])))
    if rng.random() < 0.3:
        # write + reload from file: last, because a file-backed db shares its file with its copies
        ops.append(dict(op="copy", how="write"))
    qs = [rand_query(rng) for _ in range(rng.randint(3, 8))]
    if kind == "gb":
        for q in qs:
            q["attrs"] = None  # the gb attributes column is JSON text; attribute queries are not part of this block
        for o in ops:
            if o["op"] == "subset":
                o["query"]["attrs"] = None
    qs.append(dict(biotype=None, seqid=None, name=None, strand=None, attrs=None, on_aln=None, start=None, stop=None,
                   partial=False))
    return dict(kind=kind, ops=ops, queries=qs, block="random", cds=[rand_cd(rng) for _ in range(3)])


# ------------------------------------------------------------------ chunked GFF loads (lines_per_block)

GB_SEQIDS = ["s1", "s2", "chrX"]
GB_STRANDS = ["+", "-", "."]
GB_EXTRA = ["", "Name=n1", "Parent=g0", "Note=a b", "Name=n2;Parent=g0,g1"]
DEFAULT_LPB = 500000


def gb_row_text(r):
    attrs = []
    if r["id"] is not None:
        attrs.append(f"ID={r['id']}")
    if r["extra"]:
        attrs.append(r["extra"])
    if r.get("id_last") and len(attrs) == 2:
        attrs.reverse()
    line = "\t".join([r["seqid"], "src", r["biotype"], str(r["s"]), str(r["e"]), ".", r["strand"], ".", ";".join(attrs)])
    if r.get("tail"):
        line += " # " + r["tail"]
    return line


def gb_text(entries):
    return "".join((e["c"] if "c" in e else gb_row_text(e)) + "\n" for e in entries)


def gb_lpbs(nlines):
    return sorted({1, 2, 3, 5, max(1, nlines - 1), nlines, DEFAULT_LPB}) + [None]


def gb_queries(rng, k=3):
    qs = [[0, 1000, True]]
    for _ in range(k):
        a = rng.randint(0, 45)
        qs.append([a, a + rng.choice([1, 3, 8, 20]), rng.random() < 0.6])
    return qs


def gb_case(entries, queries, block):
    text = gb_text(entries)
    n = len(text.splitlines())
    return dict(kind="gffblocks", block=block, text=text, lpbs=gb_lpbs(n), queries=queries)


def gb_random_case(rng):
    """rows with and without ID=, multi-row features sharing an ID (adjacent or interleaved), several
    seqids/strands, comment / directive / blank lines, trailing comments"""
    single_only = rng.random() < 0.4   # every ID'd feature has one row: no feature can be split by a block boundary
    rows = []
    nfeat = rng.randint(2, 7)
    for i in range(nfeat):
        has_id = rng.random() < (0.45 if single_only else 0.65)
        nrows = 1 if (single_only or not has_id) else rng.choice([1, 2, 2, 3])
        base = dict(seqid=rng.choice(GB_SEQIDS), biotype=rng.choice(BIOTYPES), strand=rng.choice(GB_STRANDS))
        used = set()
        for _ in range(nrows):
            while True:
                s = rng.randint(1, 40)
                e = s + rng.choice([0, 1, 4, 9, 15])
                if (s, e) not in used:
                    used.add((s, e))
                    break
            r = dict(base, id=(f"f{i}" if has_id else None), extra=rng.choice(GB_EXTRA), s=s, e=e)
            if rng.random() < 0.15:
                r["id_last"] = True
            if rng.random() < 0.1:
                r["tail"] = "note"
            rows.append((i, r))
    if rng.random() < 0.5:
        # interleave rows of different features, keeping the order of rows inside a feature
        per = {}
        for i, r in rows:
            per.setdefault(i, []).append(r)
        rows = []
        while per:
            i = rng.choice(sorted(per))
            rows.append((i, per[i].pop(0)))
            if not per[i]:
                del per[i]
    entries = [r for _, r in rows]
    if rng.random() < 0.85:
        entries.insert(0, dict(c="##gff-version 3"))
    for _ in range(rng.choice([0, 0, 1, 2, 3])):
        entries.insert(rng.randint(0, len(entries)), dict(c=rng.choice(["# a comment", "##sequence-region s1 1 100", "", "#"])))
    return gb_case(entries, gb_queries(rng), "gffblocks-random")


def gb_exhaustive_cases():
    """every file of 4 data rows, each row carrying ID=a, ID=b or no ID (3^4), with and without a comment line in
    the middle, each loaded with every block size; rows differ in seqid / strand / coordinates"""
    base = [dict(seqid="s1", biotype="gene", strand="+", s=1, e=10), dict(seqid="s2", biotype="CDS", strand="-", s=21, e=30),
            dict(seqid="s1", biotype="exon", strand="-", s=41, e=45), dict(seqid="chrX", biotype="CDS", strand="+", s=15, e=50)]
    out = []
    for ids in itertools.product(["a", "b", None], repeat=4):
        for comment in (False, True):
            entries = [dict(b, id=i, extra="") for b, i in zip(base, ids)]
            if comment:
                entries.insert(2, dict(c="# c"))
            entries.insert(0, dict(c="##gff-version 3"))
            out.append(gb_case(entries, [[0, 1000, True], [12, 22, True], [0, 30, False]], "gffblocks-exhaustive"))
    return out


def gb_parse(text):
    """the data rows of a GFF text, read independently of the implementation: (id|None, seqid, biotype, strand, attrs, s, e)
    plus the index of the physical line each row sits on"""
    rows = []
    for ln, line in enumerate(text.splitlines()):
        body = line.split("#", 1)[0].strip()
        if not body:
            continue
        cols = [c.strip() for c in body.split("\t")]
        if len(cols) == 8:
            cols.append("")
        seqid, _src, biotype, s, e, _score, strand, _phase, attrs = cols
        ident = None
        for item in attrs.split(";"):
            k, _, v = item.partition("=")
            if k.strip() == "ID" and v:
                ident = v.split()[0]
        rows.append(dict(id=ident, seqid=seqid, biotype=biotype, strand=strand, attrs=attrs, s=int(s), e=int(e), line=ln))
    return rows


def gb_oracle_records(text):
    """records by the specification: rows sharing an ID are one record with all their spans, a row without ID is
    one record; 1-based closed -> 0-based half-open; start/stop are the extremes; nothing depends on blocking"""
    recs, by_id, nfake = [], {}, 0
    for r in gb_parse(text):
        if r["id"] is None:
            name = f"unknown-{nfake}"
            nfake += 1
            rec = None
        else:
            name = r["id"]
            rec = by_id.get(name)
        if rec is None:
            rec = dict(name=name, seqid=r["seqid"], biotype=r["biotype"], strand=r["strand"], attrs=r["attrs"], spans=[])
            recs.append(rec)
            if r["id"] is not None:
                by_id[name] = rec
        rec["spans"].append([r["s"] - 1, r["e"]])
    out = []
    for rec in recs:
        sp = sorted(rec["spans"])
        flat = [x for p in sp for x in p]
        out.append([rec["name"], rec["seqid"], rec["biotype"], rec["strand"], rec["attrs"], sp, min(flat), max(flat)])
    return out


def gb_oracle(c):
    recs = gb_oracle_records(c["text"])
    qres = []
    for qs, qe, partial in c["queries"]:
        hit = [r for r in recs if ((r[6] < qe and qs < r[7]) if partial else (qs <= r[6] and r[7] <= qe))]
        qres.append(sorted(([r[0], r[5]] for r in hit), key=repr))
    return [sorted(recs, key=repr), qres]


_FAKE = re.compile(r"^unknown-\d+$")


def gb_anon(obs):
    """the same observation with the names given to ID-less records blanked (their numbering is not part of the
    specification) — but two records must not share such a name"""
    recs, qres = obs
    fakes = [r[0] for r in recs if _FAKE.match(r[0])]
    if len(set(fakes)) != len(fakes):
        return None
    an = lambda n: "unknown-*" if _FAKE.match(n) else n  # noqa: E731
    return [sorted(([an(r[0])] + r[1:] for r in recs), key=repr), [sorted(([an(x[0]), x[1]] for x in q), key=repr) for q in qres]]


def gb_split_ids(text, lpb):
    """IDs whose rows fall into more than one block of lpb lines"""
    if lpb is None or lpb <= 0:
        return set()
    blocks = {}
    for r in gb_parse(text):
        if r["id"] is not None:
            blocks.setdefault(r["id"], set()).add(r["line"] // lpb)
    return {i for i, b in blocks.items() if len(b) > 1}


def gb_key(c, lpb):
    n = len(c["text"].splitlines())
    if gb_split_ids(c["text"], lpb):
        return "gffblocks:id-rows-split-across-blocks"
    if lpb is not None and 0 < lpb < n:
        return "gffblocks:several-blocks"
    return "gffblocks:one-block"


def gb_coq_case(c, fixed):
    rows = {r["line"]: r for r in gb_parse(c["text"])}
    n = len(c["text"].splitlines())
    lines = []
    for ln in range(n):
        r = rows.get(ln)
        if r is None:
            lines.append("None")
        else:
            lines.append(f"mkgl {ostr(r['id'])} {zstr(r['seqid'])} {zstr(r['biotype'])} {zstr(r['strand'])} {zstr(r['attrs'])} "
                         f"{zlit(r['s'])} {zlit(r['e'])}")
    ns = [0 if b is None else min(b, n + 1) for b in c["lpbs"]]
    return f"({cbool(fixed)}, [" + ";".join(lines) + "], [" + ";".join(zlit(x) for x in ns) + "])"


def gb_model_records(mres):
    """model output for one case -> per block size the sorted record list with fake names rendered"""
    out = []
    for per in mres:
        recs = []
        for r in per:
            name = r[0] if isinstance(r[0], str) else f"unknown-{r[0][0]}"
            recs.append([name] + list(r[1:]))
        out.append(sorted(recs, key=repr))
    return out


# ---- attributes= queries holding LIKE metacharacters (a literal % or _), the match in the middle of the stored text

AM_STORED = ["note=GC 45% rich;x=1", "note=GC 45 percent rich;x=1", "k=a_c;y", "k=abc;y", "identity 100%", "identity 1000 bp",
             "p=50%;q=5_0", "p=50;q=5x0;r", "plain=abc", None, "%", "x=a%b_c%d;z", "x=a-b-c-d;z", "pre 45% rich post"]
AM_QUERIES = ["45% rich", "45%", "100%", "a_c", "5_0", "GC 45", "%", "_", "0% r", "% rich", "rich;x", "a%b_c", "b_c%d", "=a_", "0%;q",
              "abc", "%%45%", "%%a_c%%", "nothing"]


def am_cases():
    """for each db class: records whose attributes hold a literal % / _ (and look-alikes without them); every query
    string alone, with a seqid, and with a window; asked through get_features_matching, get_records_matching,
    subset and num_matches"""
    out = []
    base = dict(biotype=None, seqid=None, name=None, strand=None, on_aln=None, start=None, stop=None, partial=True)
    for kind in ("basic", "gff", "gb"):
        ops = []
        if kind == "gff":
            feats = [dict(seqid=["s1", "s2"][i % 2], biotype="gene", name=f"t{i}", strand="+", attrs=a, lines=[[2 * i + 1, 2 * i + 4]])
                     for i, a in enumerate(AM_STORED) if a is not None and "#" not in a][:8]
            ops.append(dict(op="gff", features=feats))
        for i, a in enumerate(AM_STORED):
            ops.append(dict(op="add", raw=dict(seqid=["s1", "s2"][i % 2], biotype="gene", name=f"u{i}", strand="+", attrs=a,
                                                 on_aln=False, spans=[[2 * i, 2 * i + 4]])))
        qs = []
        for a in AM_QUERIES:
            qs.append(dict(base, attrs=a))
            qs.append(dict(base, attrs=a, seqid="s1"))
            qs.append(dict(base, attrs=a, start=0, stop=14))
            qs.append(dict(base, attrs=a, biotype=coll("list", ["gene", "CDS"]), partial=False))
        out.append(dict(kind=kind, ops=ops, queries=qs, block="attrmeta", attrmeta=True))
    return out


def am_literal(c, q):
    """names of the records a linear scan selects when the attributes query is a plain piece of text:
    the stored attributes CONTAIN it (letters compared without case, as everywhere in these queries)"""
    db = oracle_rows(c)
    a = q["attrs"]
    return sorted(r["name"] for r in db if oracle_match(dict(q, attrs=None), r) and r["attrs"] is not None and a.lower() in r["attrs"].lower())


def am_count_as_coded(c, q):
    """num_matches passes attributes on without the %...% wrapping: equality, or LIKE when it holds a %"""
    db = oracle_rows(c)
    return sum(1 for r in db if oracle_match(dict(q, attrs=None, start=None, stop=None), r, count_only=True) and _strcond(q["attrs"], r["attrs"]))


def am_compare(rep, cases, impl, model):
    n = nvio = 0
    dis = []
    for ci, (c, ir) in enumerate(zip(cases, impl)):
        ir = from_jsonable(ir)
        if isinstance(ir, dict) and "exc" in ir:
            nvio += 1
            rep.violation(f"raised:attrmeta:{ir.get('at')}:{re.sub('[0-9]+', 'N', ir.get('msg', ''))[:60]}",
                          dict(case=c, observed_impl=ir, broken="an attributes= query holding % or _ made the implementation raise"))
            continue
        mr = model[ci] if model is not None else None
        for qi, q in enumerate(c["queries"]):
            n += 1
            feats, recs, _cnt, sub, cnt_attr = ir[qi]
            obs = dict(features=sorted(f[2] for f in feats), records=sorted(r[2] for r in recs), subset=sorted(sub))
            small = dict(c, queries=[q])
            if mr is not None:
                mnames = sorted(r[2] for r in mr[qi][1])
                if any(v != mnames for v in obs.values()):
                    dis.append(dict(key="attrmeta:model", case=small, observed_impl=jsonable(obs), model_output=jsonable(mnames)))
            if "%%" in q["attrs"]:
                continue   # the caller's own LIKE pattern
            want = am_literal(c, q)
            for op, got in obs.items():
                missing = sorted(set(want) - set(got))
                extra = sorted(set(got) - set(want))
                if missing:
                    nvio += 1
                    rep.violation(f"attrmeta:{op}:missing-record", dict(case=small, expected_by_spec=want, observed_impl=got, missing=missing,
                                  broken="a record whose attributes contain the queried text was not returned"))
                elif extra:
                    nvio += 1
                    rep.violation("attrmeta:wildcard-extra", dict(case=small, expected_by_spec=want, observed_impl=got, extra=extra,
                                  broken="% or _ inside the attributes= text acted as a LIKE wildcard: records not containing the text were returned"))
            want_n = len(am_literal(c, dict(q, start=None, stop=None)))
            if cnt_attr != want_n:
                nvio += 1
                key = ("attrmeta:num_matches-attributes-not-substring" if cnt_attr == am_count_as_coded(c, q) else "attrmeta:num_matches:wrong")
                rep.violation(key, dict(case=small, expected_by_spec=want_n, observed_impl=cnt_attr,
                              broken="num_matches(attributes=...) differs from the number of records whose attributes contain the text"))
    return n, dis, nvio


# ---- one GFF line -> one row (parser + naming step)

GL_KEYS_CLEAN = ["ID", "Parent", "Name", "Note", "Dbxref", "Alias"]
GL_KEYS_ODD = ["geneID", "xID", "PARENT", "id", "ParentID", "ID "]
GL_VALUES = ["g1", "cds%3B1", "p1,p2", "x:1", "a%20b", "G1.t1"]
GL_VALUES_ODD = ["", "a b", " g2", "g3 "]


def gl_line(fields, pad=None, tail=None):
    cols = [((pad or {}).get(i, ("", ""))[0] + f + (pad or {}).get(i, ("", ""))[1]) for i, f in enumerate(fields)]
    return "\t".join(cols) + (tail or "")


def gl_exhaustive_lines():
    """every ordering of every subset of {ID=, Parent=, Name=} x separator ';' / '; ' x trailing ';'"""
    items = ["ID=g1", "Parent=p1", "Name=n1"]
    out = []
    for k in range(0, 4):
        for perm in itertools.permutations(items, k):
            for sep in (";", "; "):
                for trail in ("", ";"):
                    out.append(gl_line(["s1", "src", "CDS", "11", "20", ".", "+", "0", sep.join(perm) + trail]))
    return out


def gl_random_line(rng):
    kind = rng.choice(["row"] * 6 + ["odd"] * 3 + ["comment", "blank", "cols", "badint"])
    if kind == "comment":
        return rng.choice(["# a comment", "##gff-version 3", "###", " # indented", "#\tx\ty"])
    if kind == "blank":
        return rng.choice(["", " ", "\t", "  \t ", "\x0c"])
    nkv = rng.choice([0, 1, 1, 2, 3, 4])
    keys = GL_KEYS_CLEAN + (GL_KEYS_ODD if kind == "odd" else [])
    vals = GL_VALUES + (GL_VALUES_ODD if kind == "odd" else [])
    kv = [f"{rng.choice(keys)}={rng.choice(vals)}" for _ in range(nkv)]
    sep = rng.choice([";", ";", "; "]) if kind != "odd" else rng.choice([";", "; ", " ;", ";;"])
    attrs = sep.join(kv) + (";" if kv and rng.random() < 0.2 else "")
    s_ = rng.randint(1, 60)
    e_ = s_ + rng.choice([0, 1, 5, 30])
    if kind == "odd" and rng.random() < 0.5:
        s_, e_ = rng.choice([(0, 5), (-3, 4), (9, 2), (-5, -2), (7, 7), (1, 0)])
    start, end = str(s_), str(e_)
    if kind == "odd" and rng.random() < 0.2:
        start = "+" + start
    if kind == "badint":
        start = rng.choice(["", "a5", "1.5", "5 6", "--3", "+"])
    fields = [rng.choice(["s1", "s2", "chrX", "ctg 1"]), rng.choice(["src", "."]), rng.choice(BIOTYPES), start, end,
              rng.choice([".", "0.5"]), rng.choice(["+", "-", ".", "?"]), rng.choice([".", "0", "1", "2"]), attrs]
    if kind == "cols":
        n = rng.choice([7, 8, 8, 10, 1, 2])
        fields = (fields + ["extra"])[:n] if n != 8 else fields[:8]
    pad = {}
    if rng.random() < 0.3:
        for i in rng.sample(range(len(fields)), k=min(len(fields), 2)):
            pad[i] = (rng.choice(["", " "]), rng.choice(["", " ", "  "]))
    tail = rng.choice(["", "", "", " # note", "#x", "\t# c"]) if kind != "odd" else rng.choice(["", "#", " #ID=zz"])
    return gl_line(fields, pad, tail)


def gl_oracle(line):
    """the row a well-formed GFF3 line describes, read without the implementation; 'na' where the line is not
    well-formed in the sense of this oracle (then only model and implementation are compared)"""
    body = line.split("#", 1)[0].strip()
    if not body:
        return None
    cols = [c.strip() for c in body.split("\t")]
    if len(cols) == 8:
        cols.append("")
    if len(cols) != 9 or not (cols[3].isdigit() and cols[4].isdigit()) or not cols[3].isascii() or not cols[4].isascii():
        return "na"
    s_, e_ = int(cols[3]), int(cols[4])
    if not 1 <= s_ <= e_:
        return "na"
    d = {}
    for item in cols[8].split(";"):
        if not item.strip():
            continue
        k, eq, v = item.partition("=")
        if k != k.rstrip():
            return "na"
        k = k.strip()
        if not eq or k not in GL_KEYS_CLEAN or not v or v != v.strip() or any(ch.isspace() for ch in v) or k in d:
            return "na"
        d[k] = v
    return [d.get("ID"), d.get("Parent"), cols[0], cols[2], cols[6], cols[8], [s_ - 1, e_]]


def gl_compare(rep, lines, impl, model):
    n = nspec = nvio = 0
    dis = []
    for li, (line, ir) in enumerate(zip(lines, impl)):
        mr = model[li] if model is not None else None
        n += 1
        ir = from_jsonable(ir)
        orc = gl_oracle(line)
        if orc != "na":
            nspec += 1
            if ir != orc:
                nvio += 1
                rep.violation("gffline:" + ("row" if orc is not None else "skipped-line"),
                              dict(case=dict(kind="gfflines", lines=[line]), expected_by_spec=jsonable(orc), observed_impl=jsonable(ir),
                                   model_output=jsonable(mr), broken="the row read from a well-formed GFF line differs from what the line says"))
                continue
        if model is not None and mr != ir:
            if True:
                dis.append(dict(key="gffline:model", case=dict(kind="gfflines", lines=[line]), observed_impl=jsonable(ir), model_output=jsonable(mr)))
    return n, nspec, dis, nvio


# ---- Parent= relation: get_feature_children / get_feature_parent

def gp_random_case(rng):
    """genes, transcripts with Parent=gene, exons/CDS with Parent=one or two transcripts, some without ID; in half
    of the cases the names have one width (none is a substring of another), in the others g1 / g10 / g11 occur"""
    wide = rng.random() < 0.5
    idx = rng.sample([1, 2, 3, 4, 5, 6], 4) if wide else rng.sample([1, 10, 11, 2, 12, 21], 4)
    nm = (lambda pre, i: f"{pre}{i:02d}") if wide else (lambda pre, i: f"{pre}{i}")
    rows, genes, txs = [], [], []
    pos = [1]

    def coords(n=1):
        out = []
        for _ in range(n):
            s_ = pos[0]
            pos[0] += rng.choice([3, 7, 12])
            out.append((s_, pos[0] - 1))
            pos[0] += rng.choice([0, 2])
        return out

    for i in idx[:rng.randint(1, 3)]:
        g = nm("g", i)
        genes.append(g)
        seqid, strand = rng.choice(GB_SEQIDS), rng.choice(["+", "-"])
        (s_, e_), = coords()
        rows.append(dict(seqid=seqid, biotype="gene", strand=strand, id=g, extra=rng.choice(["", "Name=n1"]), s=s_, e=e_))
        for j in idx[:rng.randint(0, 2)]:
            t = nm("m", j) + ("" if wide else rng.choice(["", "", "0"]))
            if t in txs:
                continue
            txs.append(t)
            (s_, e_), = coords()
            rows.append(dict(seqid=seqid, biotype="mRNA", strand=strand, id=t, extra=f"Parent={g}", s=s_, e=e_,
                             id_last=rng.random() < 0.3))
            for _ in range(rng.randint(0, 3)):
                par = ",".join(sorted(set([t] + ([rng.choice(txs)] if rng.random() < 0.3 else []))))
                bt = rng.choice(["exon", "CDS"])
                cid = None if rng.random() < 0.4 else nm("c" if bt == "CDS" else "e", len(rows))
                for (s_, e_) in coords(rng.choice([1, 1, 2]) if cid else 1):
                    rows.append(dict(seqid=seqid, biotype=bt, strand=strand, id=cid, extra=f"Parent={par}", s=s_, e=e_,
                                     id_last=rng.random() < 0.3))
    entries = [dict(c="##gff-version 3")] + rows
    text = gb_text(entries)
    names = sorted(set(genes + txs + [r["id"] for r in rows if r["id"]])) + [nm("g", 9), "m"]
    return dict(kind="gfffamily", block="gfffamily", text=text, lpb=rng.choice([None, 2, 3]), names=names, wide=wide)


def _parent_tokens(attrs):
    for item in attrs.split(";"):
        k, _, v = item.partition("=")
        if k.strip() == "Parent" and v:
            return v.split(",")
    return []


def gp_oracle(c, guard=True):
    """children(q): the records naming q in their Parent= list; parent(q): the records named in the Parent= list of the
    record called q.  None where a queried name is part of another name or parent (LIKE-based lookup is then looser)"""
    recs = gb_oracle_records(c["text"])
    tokens = {r[0] for r in recs} | {t for r in recs for t in _parent_tokens(r[4])}
    out = []
    for q in c["names"]:
        if guard and (any(q.lower() in t.lower() and q.lower() != t.lower() for t in tokens) or any(ch in q for ch in "%_")):
            out.append(None)
            continue
        kids = [r for r in recs if q in _parent_tokens(r[4])]
        me = [r for r in recs if r[0] == q]
        pars = [p for r in me for t in _parent_tokens(r[4]) for p in recs if p[0] == t]
        f = lambda rs: sorted(([r[0], r[1], r[2], r[3], r[5]] for r in rs), key=repr)  # noqa: E731
        out.append([f(kids), f([r for r in kids if r[2] == "CDS"]), f(pars)])
    return out


LOOSE_EXAMPLES = []


def _anon_rows(rows):
    return sorted(([("unknown-*" if _FAKE.match(r[0]) else r[0])] + list(r[1:]) for r in rows), key=repr)


def gp_coq_case(c, fixed, strict):
    inner = gb_coq_case(dict(text=c["text"], lpbs=[c["lpb"]]), fixed)
    lines = inner[inner.index("["):inner.rindex(", [")]
    n = inner[inner.rindex(", [") + 3:-2]
    return f"({cbool(fixed)}, {cbool(strict)}, {lines}, {n}, [" + ";".join(zstr(q) for q in c["names"]) + "])"


# does get_feature_children("g1") also return the children of g10 (LIKE '%g1%'), or only those naming g1?
GP_PROBE = dict(kind="gfffamily", block="gfffamily-probe", lpb=None, names=["g1"], wide=False,
                text=gb_text([dict(c="##gff-version 3"),
                              dict(seqid="s1", biotype="gene", strand="+", id="g1", extra="", s=1, e=9),
                              dict(seqid="s1", biotype="gene", strand="+", id="g10", extra="", s=11, e=19),
                              dict(seqid="s1", biotype="mRNA", strand="+", id="m1", extra="Parent=g10", s=11, e=19)]))


def gp_compare(rep, cases, impl, model):
    n = nspec = nloose = nvio = 0
    dis = []
    for ci, (c, ir) in enumerate(zip(cases, impl)):
        ir = from_jsonable(ir)
        if isinstance(ir, dict) and "exc" in ir:
            nvio += 1
            rep.violation(f"raised:gfffamily:{re.sub('[0-9]+', 'N', ir.get('msg', ''))[:60]}", dict(case=c, observed_impl=ir,
                          broken="get_feature_children / get_feature_parent raised on a db loaded from valid GFF text"))
            continue
        orc = gp_oracle(c)
        strict = gp_oracle(c, guard=False)
        mr = model[ci] if model is not None else None
        for qi, q in enumerate(c["names"]):
            n += 1
            obs = ir[qi]
            if orc[qi] is not None:
                nspec += 1
                if [_anon_rows(x) for x in obs] != [_anon_rows(x) for x in orc[qi]]:
                    nvio += 1
                    what = "children" if _anon_rows(obs[0]) != _anon_rows(orc[qi][0]) or _anon_rows(obs[1]) != _anon_rows(orc[qi][1]) else "parent"
                    rep.violation(f"gfffamily:{what}", dict(case=dict(c, names=[q]), expected_by_spec=jsonable(orc[qi]), observed_impl=jsonable(obs),
                                                            broken="children / parents returned differ from the Parent= relation of the text"))
                    continue
            else:
                nloose += 1
                if [_anon_rows(x) for x in obs] != [_anon_rows(x) for x in strict[qi]]:
                    ex = dict(text=c["text"], name=q, relation=jsonable(strict[qi]), returned=jsonable(obs))
                    if f"ID={q}\n" in c["text"] or f"ID={q};" in c["text"]:
                        LOOSE_EXAMPLES.insert(0, ex)   # prefer a query that is the full name of a record
                    else:
                        LOOSE_EXAMPLES.append(ex)
            if mr is not None:
                mq = [sorted(([(r[0] if isinstance(r[0], str) else f"unknown-{r[0][0]}"), r[1], r[2], r[3], r[5]] for r in part), key=repr)
                      for part in mr[qi]]
                if mq != obs:
                    dis.append(dict(key="gfffamily:model", case=dict(c, names=[q]), observed_impl=jsonable(obs), model_output=jsonable(mq)))
    return n, nspec, nloose, dis, nvio


# ---- several files behind one wildcard path

def gf_case(files_entries, queries, block):
    texts = [gb_text(e) for e in files_entries]
    return dict(kind="gfffiles", block=block, texts=texts, lpbs=[None, 1, 2, 3, DEFAULT_LPB], queries=queries)


def gf_random_case(rng):
    """2-4 files; rows with and without ID=; with probability 1/2 some IDs have rows in several files"""
    nfiles = rng.choice([2, 2, 3, 4])
    share = rng.random() < 0.5
    files = [[] for _ in range(nfiles)]
    for i in range(rng.randint(2, 7)):
        has_id = rng.random() < 0.6
        nrows = rng.choice([1, 2, 3]) if has_id else 1
        base = dict(seqid=rng.choice(GB_SEQIDS), biotype=rng.choice(BIOTYPES), strand=rng.choice(GB_STRANDS),
                    id=(f"f{i}" if has_id else None), extra=rng.choice(GB_EXTRA))
        home = rng.randrange(nfiles)
        used = set()
        for _ in range(nrows):
            while True:
                s_ = rng.randint(1, 40)
                e_ = s_ + rng.choice([0, 1, 4, 9, 15])
                if (s_, e_) not in used:
                    used.add((s_, e_))
                    break
            files[rng.randrange(nfiles) if share else home].append(dict(base, s=s_, e=e_))
    entries = []
    for rows in files:
        e = list(rows)
        if rng.random() < 0.8:
            e.insert(0, dict(c="##gff-version 3"))
        if rng.random() < 0.3:
            e.insert(rng.randint(0, len(e)), dict(c="# c"))
        entries.append(e)
    return gf_case(entries, gb_queries(rng, 2), "gfffiles-random")


def gf_exhaustive_cases():
    """two files of two data rows each, every assignment of {ID=a, ID=b, no ID} to the four rows"""
    base = [dict(seqid="s1", biotype="gene", strand="+", s=1, e=10), dict(seqid="s2", biotype="CDS", strand="-", s=21, e=30),
            dict(seqid="s1", biotype="exon", strand="-", s=41, e=45), dict(seqid="chrX", biotype="CDS", strand="+", s=15, e=50)]
    out = []
    for ids in itertools.product(["a", "b", None], repeat=4):
        rows = [dict(b, id=i, extra="") for b, i in zip(base, ids)]
        out.append(gf_case([[dict(c="##gff-version 3")] + rows[:2], [dict(c="##gff-version 3")] + rows[2:]],
                           [[0, 1000, True], [12, 22, True]], "gfffiles-exhaustive"))
    return out


GF_PROBE = gf_case([[dict(seqid="s1", biotype="gene", strand="+", id=None, extra="", s=1, e=10)],
                    [dict(seqid="s2", biotype="exon", strand="-", id=None, extra="", s=101, e=110)]], [[0, 1000, True]], "gfffiles-probe")


def gf_key(c):
    per = [gb_parse(t) for t in c["texts"]]
    if sum(1 for rows in per if any(r["id"] is None for r in rows)) > 1:
        return "gfffiles:several-files"          # rows without ID= in more than one file
    ids = [{r["id"] for r in rows if r["id"] is not None} for rows in per]
    if any(ids[i] & ids[j] for i in range(len(ids)) for j in range(i)):
        return "gfffiles:id-shared-across-files"
    return "gfffiles:files-without-common-names"


def gf_coq_case(c, order, fixed, carry):
    files = []
    for k in order:
        t = c["texts"][k]
        inner = gb_coq_case(dict(text=t, lpbs=[]), fixed)
        files.append(inner[inner.index("["):inner.rindex(", [")])
    nmax = max(len(t.splitlines()) for t in c["texts"]) + 1
    ns = [0 if b is None else min(b, nmax) for b in c["lpbs"]]
    return f"({cbool(fixed)}, {cbool(carry)}, [" + ";".join(files) + "], [" + ";".join(zlit(x) for x in ns) + "])"


def gf_compare(rep, cases, impl, model, fixed, carry):
    nload = nnontriv = nvio = 0
    dis = []
    for c, ir, mr in zip(cases, impl, model):
        ir = from_jsonable(ir)
        if isinstance(ir, dict) and "exc" in ir:
            nvio += 1
            rep.violation(f"raised:gfffiles:{re.sub('[0-9]+', 'N', ir.get('msg', ''))[:60]}",
                          dict(case=c, observed_impl=ir, broken="loading valid GFF files through a wildcard path raised or hung"))
            continue
        order, loads = ir
        cat = dict(c, text="".join(c["texts"][k] for k in order))
        orc = gb_oracle(cat)
        orc_anon = gb_anon(orc)
        mrecs = gb_model_records(mr) if mr is not None else None
        key = gf_key(c)
        for bi, lpb in enumerate(c["lpbs"]):
            nload += 1
            if key != "gfffiles:files-without-common-names":
                nnontriv += 1
            obs = loads[bi]
            if obs != orc and gb_anon(obs) != orc_anon:
                nvio += 1
                rep.violation(key, dict(case=dict(c, lpbs=[lpb]), lines_per_block=lpb, file_order=order, expected_by_spec=jsonable(orc),
                                        observed_impl=jsonable(obs), model_output=jsonable(mrecs[bi]) if mrecs else None,
                                        broken="records of GFF files loaded through one wildcard path differ from the records the files describe"))
            elif mrecs is not None and obs[0] != mrecs[bi]:
                dis.append(dict(key=key + ":model", case=dict(c, lpbs=[lpb]), file_order=order, observed_impl=jsonable(obs[0]),
                                model_output=jsonable(mrecs[bi]), model_variant=dict(fixed=fixed, carry=carry)))
    return nload, nnontriv, dis, nvio


# the canonical split feature: which rule does the source under test follow for a name seen in an earlier block?
GB_PROBE = gb_case([dict(c="##gff-version 3")] + [dict(seqid="s1", biotype="CDS", strand="+", id="c1", extra="", s=s, e=e)
                                                    for s, e in ((11, 20), (31, 40), (41, 50))], [[0, 1000, True]], "gffblocks-probe")


def gb_compare(rep, cases, impl, model, fixed):
    """returns (#loads, #loads with >1 block holding ID-less rows in >1 block, disagreements, violations)"""
    nload = nnontriv = nvio = 0
    dis = []
    for c, ir, mr in zip(cases, impl, model):
        ir = from_jsonable(ir)
        orc = gb_oracle(c)
        orc_anon = gb_anon(orc)
        if isinstance(ir, dict) and "exc" in ir:
            nvio += 1
            rep.violation(f"raised:gffblocks:{re.sub('[0-9]+', 'N', ir.get('msg', ''))[:60]}",
                          dict(case=c, observed_impl=ir, broken="loading a valid GFF text raised or hung"))
            continue
        mrecs = gb_model_records(mr) if mr is not None else None
        rows = gb_parse(c["text"])
        for bi, lpb in enumerate(c["lpbs"]):
            nload += 1
            obs = ir[bi]
            if lpb is not None and len({r["line"] // lpb for r in rows if r["id"] is None}) > 1:
                nnontriv += 1
            if obs != orc and gb_anon(obs) != orc_anon:
                nvio += 1
                rep.violation(gb_key(c, lpb), dict(case=dict(c, lpbs=[lpb]), lines_per_block=lpb, expected_by_spec=jsonable(orc),
                                                   observed_impl=jsonable(obs),
                                                   model_output=jsonable(mrecs[bi]) if mrecs else None,
                                                   broken="records of a GFF text loaded in blocks differ from the records the text describes"))
            elif mrecs is not None and obs[0] != mrecs[bi]:
                dis.append(dict(key=gb_key(c, lpb) + ":model", case=dict(c, lpbs=[lpb]), observed_impl=jsonable(obs[0]),
                                model_output=jsonable(mrecs[bi]), model_variant="fixed" if fixed else "as-first-read"))
    return nload, nnontriv, dis, nvio


# ------------------------------------------------------------------ rendering for Coq

def ostr(s):
    return "None" if s is None else f"(Some {zstr(s)})"


def obool(b):
    return "None" if b is None else f"(Some {cbool(b)})"


def oz(z):
    return "None" if z is None else f"(Some {zlit(z)})"


def pairs(ps):
    return "[" + ";".join(f"({zlit(a)},{zlit(b)})" for a, b in ps) + "]"


def coq_raw_user(r):
    return (f"(RawUser {zstr(r['seqid'])} {zstr(r['biotype'])} {zstr(r['name'])} {ostr(r['strand'])} "
            f"{ostr(r['attrs'])} {obool(r['on_aln'])} {pairs(r['spans'])})")


def gff_attr_text(f):
    a = f"ID={f['name']}"
    if f.get("attrs"):
        a += f";{f['attrs']}"
    return a


def coq_raw_gff(f):
    return (f"(RawGff {zstr(f['seqid'])} {zstr(f['biotype'])} {zstr(f['name'])} {ostr(f['strand'] or '.')} "
            f"{ostr(gff_attr_text(f))} {pairs(f['lines'])})")


def coq_raw_gb(seqid, f, name):
    return f"(RawGb {zstr(seqid)} {zstr(f['biotype'])} {zstr(name)} {loc_coq(f['loc'])})"


def coll(kind, vals):
    """a list / tuple / set query value (JSON carries the kind, the implementation runner rebuilds the object)"""
    return dict(coll=kind, vals=list(vals))


def is_coll(v):
    return isinstance(v, dict) and "coll" in v


def qval(v):
    if v is None:
        return "QAny"
    if is_coll(v):
        return "(QIn [" + ";".join(zstr(x) for x in v["vals"]) + "])"
    return f"(QOne {zstr(v)})"


# which rule does the source follow for % and _ inside an attributes= text? decided per run from its behaviour (am probe)
ATTR_LIT = [False]


def coq_query(q):
    return (f"(mkql {cbool(ATTR_LIT[0])} {qval(q['biotype'])} {qval(q['seqid'])} {qval(q['name'])} {ostr(q['strand'])} {ostr(q['attrs'])} "
            f"{obool(q['on_aln'])} {oz(q['start'])} {oz(q['stop'])} {cbool(q['partial'])})")


def coq_case(c):
    tables = "[1]" if c["kind"] == "basic" else "[0;1]"
    ops = []
    for o in c["ops"]:
        if o["op"] == "add":
            ops.append(f"OAdd {coq_raw_user(o['raw'])}")
        elif o["op"] == "gff":
            ops += [f"OAdd {coq_raw_gff(f)}" for f in o["features"]]
        elif o["op"] == "gb":
            ops += [f"OAdd {coq_raw_gb(o['seqid'], f, nm)}" for f, nm in zip(o["features"], gb_names(o["features"]))]
        elif o["op"] in ("union", "update"):
            raws = [coq_raw_user(r) for r in o["other"]]
            ok = o.get("other_kind", "basic")
            if ok == "gff":
                raws = [coq_raw_gff(f) for f in o["other_feats"]] + raws
            elif ok == "gb":
                raws = [coq_raw_gb(o["other_seqid"], f, nm) for f, nm in zip(o["other_feats"], gb_names(o["other_feats"]))] + raws
            ops.append(("OUnion " if o["op"] == "union" else "OUpdate ") + ("[1]" if ok == "basic" else "[0;1]") + " [" + ";".join(raws) + "]")
        elif o["op"] == "subset":
            ops.append(f"OSubset {coq_query(o['query'])}")
        elif o["op"] == "copy":
            ops.append("OJson" if o["how"] == "json" else "OCopy")
    return f"({tables}, [" + ";".join(ops) + "], [" + ";".join(coq_query(q) for q in c["queries"]) + "])"


def coq_cdarg(a):
    return "CDoff" if a is False else "CDcol" if a is True else f"(CDval {zstr(a)})"


def coq_cd_case(c):
    base = coq_case(dict(c, queries=[]))
    head = base[:base.rindex(", [")]
    return head + ", [" + ";".join(f"({coq_cdarg(a)},{coq_cdarg(b)},{coq_cdarg(d)})" for a, b, d in c.get("cds", [])) + "])"


def cd_oracle(c):
    """count_distinct by the specification: per table, the matching records grouped by the selected columns"""
    db = oracle_rows(c)
    out = []
    tables = [1] if c["kind"] == "basic" else [0, 1]
    for cd in c.get("cds", []):
        if not any(a is True for a in cd):
            out.append(None)
            continue
        rows = []
        for t in tables:
            cnt = {}
            for r in db:
                if r["table"] != t:
                    continue
                vals = (r["seqid"], r["biotype"], r["name"])
                if not all(_strcond(a, v) for a, v in zip(cd, vals) if isinstance(a, str)):
                    continue
                k = tuple((v,) if a is True else () for a, v in zip(cd, vals))
                cnt[k] = cnt.get(k, 0) + 1
            rows += [[[list(x) for x in k], n] for k, n in cnt.items()]
        out.append(sorted(rows, key=repr))
    return out


def run_cd_model(cases):
    idx = [i for i, c in enumerate(cases) if c.get("cds")]
    out = core.coq_eval(PROP, ["Model.AnnotDb", "Model.AnnotDbRun"], "run_cd_case", [coq_cd_case(cases[i]) for i in idx],
                        "list Z * list op * list (cdarg * cdarg * cdarg)", shard=60, tag="cd")
    res = {}
    for i, r in zip(idx, out):
        res[i] = [None if x is None else sorted(x, key=repr) for x in r]
    return res


def cd_compare(rep, cases, impl, cdmodel):
    """count_distinct: implementation vs grouping oracle vs model; returns (#evaluations, disagreements, #violations)"""
    n = nvio = 0
    dis = []
    for i, (c, ir) in enumerate(zip(cases, impl)):
        if not c.get("cds") or (isinstance(ir, dict) and "exc" in ir):
            continue
        obs = from_jsonable(ir[len(c["queries"])])
        orc = cd_oracle(c)
        wf = all(r["start"] < r["stop"] for r in oracle_rows(c)) and all(
            oracle_applicable(c, o["query"]) for o in c["ops"] if o["op"] == "subset")
        mod = cdmodel.get(i) if cdmodel else None
        for k, cd in enumerate(c["cds"]):
            n += 1
            if wf and obs[k] != orc[k]:
                nvio += 1
                shape = "+".join("col" if a is True else "off" if a is False else "val" for a in cd)
                rep.violation(f"count_distinct:{c['kind']}:{shape}",
                              dict(case=dict(c, queries=[], cds=[cd]), expected_by_spec=jsonable(orc[k]), observed_impl=jsonable(obs[k]),
                                   model_output=jsonable(mod[k]) if mod else None,
                                   broken="count_distinct differs from grouping the records a linear scan selects"))
            elif mod is not None and obs[k] != mod[k]:
                dis.append(dict(key=f"count_distinct:{c['kind']}:model", case=dict(c, queries=[], cds=[cd]),
                                observed_impl=jsonable(obs[k]), model_output=jsonable(mod[k])))
    return n, dis, nvio


def run_model(cases):
    out = core.coq_eval(PROP, ["Model.AnnotDb", "Model.AnnotDbRun"], "run_case", [coq_case(c) for c in cases],
                        "list Z * list op * list query", shard=40)
    res = []
    for r in out:
        res.append([[sorted(q[0], key=repr), sorted(q[1], key=repr), q[2]] for q in r])
    return res


# ------------------------------------------------------------------ plain-Python oracle (the specification)

def _like(p, s):
    rx = "".join(".*" if ch == "%" else "." if ch == "_" else re.escape(ch) for ch in p)
    return re.fullmatch(rx, s, flags=re.I | re.S) is not None


def _strcond(qv, col):
    if qv is None:
        return True
    if is_coll(qv):
        # linear scan with "value in collection": nothing for the empty collection, exact strings otherwise
        return col is not None and col in qv["vals"]
    if col is None:
        return False
    return _like(qv, col) if "%" in qv else qv == col


def oracle_rows(c):
    """the record list a linear scan sees after the history"""
    def user(r):
        sp = sorted(sorted(p) for p in r["spans"])
        flat = [x for p in sp for x in p]
        return dict(table=1, seqid=r["seqid"], biotype=r["biotype"], name=r["name"], strand=r["strand"], attrs=r["attrs"],
                    on_aln=r["on_aln"], spans=sp, start=min(flat), stop=max(flat))

    def gff(f):
        sp = sorted([s - 1, e] for s, e in f["lines"])
        flat = [x for p in sp for x in p]
        return dict(table=0, seqid=f["seqid"], biotype=f["biotype"], name=f["name"], strand=f["strand"] or ".",
                    attrs=gff_attr_text(f), on_aln=None, spans=sp, start=min(flat), stop=max(flat))

    def gb(seqid, f, name):
        segs = loc_oracle(f["loc"])
        sp = sorted([a, b] for a, b, _ in segs)
        strands = {st for _, _, st in segs}
        flat = [x for p in sp for x in p]
        return dict(table=0, seqid=seqid, biotype=f["biotype"], name=name, strand={1: "+", -1: "-"}[strands.pop()] if len(strands) == 1 else None,
                    attrs=None, on_aln=None, spans=sp, start=min(flat), stop=max(flat))

    db = []
    for o in c["ops"]:
        if o["op"] == "add":
            db.append(user(o["raw"]))
        elif o["op"] == "gff":
            db += [gff(f) for f in o["features"]]
        elif o["op"] == "gb":
            db += [gb(o["seqid"], f, nm) for f, nm in zip(o["features"], gb_names(o["features"]))]
        elif o["op"] in ("union", "update"):
            ok = o.get("other_kind", "basic")
            if ok == "gff":
                db += [gff(f) for f in o["other_feats"]]
            elif ok == "gb":
                db += [gb(o["other_seqid"], f, nm) for f, nm in zip(o["other_feats"], gb_names(o["other_feats"]))]
            db += [user(r) for r in o["other"]]
        elif o["op"] == "subset":
            db = [r for r in db if oracle_match(o["query"], r)]
    return db


def oracle_match(q, r, count_only=False):
    ok = (_strcond(q["biotype"], r["biotype"]) and _strcond(q["seqid"], r["seqid"]) and _strcond(q["name"], r["name"])
          and _strcond(q["strand"], r["strand"]))
    if not ok:
        return False
    if count_only:
        return True
    if q["attrs"] is not None:
        a = q["attrs"]
        if ATTR_LIT[0] and a != "" and "%%" not in a:
            if r["attrs"] is None or a.lower() not in r["attrs"].lower():
                return False
        else:
            pat = a if (a == "" or "%%" in a) else f"%{a}%"
            if not _strcond(pat, r["attrs"]):
                return False
    if r["table"] == 1 and q.get("on_aln") is not None:
        if r["on_aln"] is None or bool(r["on_aln"]) != q["on_aln"]:
            return False
    fs, fe, qs, qe = r["start"], r["stop"], q["start"], q["stop"]
    if qs is not None and qe is not None:
        return (fs < qe and qs < fe) if q["partial"] else (qs <= fs and fe <= qe)
    if qs is not None:
        return fs <= qs < fe
    if qe is not None:
        return fs <= qe < fe
    return True


def oracle_applicable(c, q):
    """the specification speaks about proper features and proper windows"""
    if q["start"] is not None and q["stop"] is not None and not q["start"] < q["stop"]:
        return False
    return True


def run_oracle(c):
    """None where the specification does not apply (degenerate window / zero-length feature)"""
    for o in c["ops"]:
        if o["op"] == "subset" and not oracle_applicable(c, o["query"]):
            return None
    db = oracle_rows(c)
    if any(not r["start"] < r["stop"] for r in db):
        return None
    out = []
    for q in c["queries"]:
        if not oracle_applicable(c, q):
            out.append(None)
            continue
        rows = [r for r in db if oracle_match(q, r) and (r["table"] == 1 or q.get("on_aln") is not True)]
        feats = sorted(([r["seqid"], r["biotype"], r["name"], r["strand"], r["on_aln"], r["spans"]] for r in rows), key=repr)
        recs = sorted(([r["seqid"], r["biotype"], r["name"], r["strand"], r["on_aln"], r["spans"], r["start"], r["stop"]]
                       for r in rows), key=repr)
        cq = dict(q)
        if c["kind"] != "basic":
            cq["on_aln"] = None
        cnt = sum(1 for r in db if oracle_match(cq, r, count_only=True)
                  and (cq.get("on_aln") is None or (r["on_aln"] is not None and bool(r["on_aln"]) == cq["on_aln"])))
        out.append([feats, recs, cnt])
    return out


PARTIAL = [
    "sqlite3's evaluation of the WHERE clause (=, LIKE, NULL, IN) is re-modelled in Model/AnnotDb.v and compared, not verified",
    "deepcopy / pickle / write+reload are the identity on the record list in the model (sqlite serialize/backup not modelled): compared only; "
    "to_rich_dict/from_dict, update, union, subset have theorems",
    "GFF: the line -> row step is modelled (Model/AnnotDbGffText.v) and compared with the real parser on generated lines; the theorem "
    "for well-formed lines assumes clean columns (no tab / '#' inside, nothing to strip) and takes int() as given; int() is modelled "
    "for [+-]?[0-9]+ only, texts are cut into lines at \\n only; an attribute whose key merely ends in 'ID' (geneID=) is taken as the ID "
    "by the regex (modelled as is, kept out of the spec oracle); independence of lines_per_block / of the cut into files is proved for "
    "inputs in which no feature repeats a span verbatim (gff_repeated_row_refuted shows the hypothesis is needed); real IDs literally "
    "of the form unknown-<k> are outside the model; the seqids= filter is not exercised",
    "get_feature_children / get_feature_parent: modelled for the gff table only (LIKE '%name%' on parent_id / name), theorems are "
    "soundness + completeness of children and soundness of parents w.r.t. that LIKE relation; the strict Parent= relation is an oracle "
    "only where no queried name is part of another name (otherwise the LIKE lookup returns more: counted in "
    "parent_child_answers_wider_than_parent_relation, not a verdict); the GenBank overrides (coordinates required) are not covered",
    "GenBank: text -> location expression (tokeniser, feature table parser, naming qualifiers) is compared only; theorems cover "
    "segment / point / complement / join / complement(join) -> spans, strand, start, stop; order(), bond(), a^b, a.b are not generated",
    "get_records_matching(on_alignment=False) and num_matches(on_alignment=...) on the two-table classes raise OperationalError in the "
    "unchanged source (on_alignment is not among the arguments the property names): tolerated as 'not observed', an answer is compared when given",
    "attributes= queries: text holding % or _ is compared with the literal-containment oracle in a separate stream (attrmeta); on the "
    "source as first read % and _ act as LIKE wildcards and num_matches does not wrap the text (finding C17-6, keys "
    "attrmeta:wildcard-extra / attrmeta:num_matches-attributes-not-substring); the model carries both rules (q_attrs_lit), the run "
    "decides from behaviour; num_matches(attributes=...) is compared with oracles only (not modelled)",
    "describe, biotype_counts are not covered",
    "union between a one-table self and a two-table other (result class switches) and update(seqids=...) are not exercised",
    "spec-level query theorems assume start < stop for stored rows and windows; degenerate ones are characterised by overlap_total and "
    "compared model-vs-implementation",
]


# ------------------------------------------------------------------ the check

def classify(c, qi):
    q = c["queries"][qi] if qi is not None else None
    ops = sorted({o["op"] for o in c["ops"]})
    if q is None:
        return f"history:{'+'.join(ops)}"
    shape = ("both" if q["start"] is not None and q["stop"] is not None else
             "start" if q["start"] is not None else "stop" if q["stop"] is not None else "nowin")
    conds = "+".join(k + ("-in" if is_coll(q.get(k)) else "") for k in ("biotype", "seqid", "name", "strand", "attrs", "on_aln")
                     if q.get(k) is not None)
    return f"query:{c['kind']}:{shape}:{'partial' if q['partial'] else 'within'}:{conds}"


def compare(rep, cases, impl, model, tie_name="correspondence AnnotDbRun.run_case vs annotation_db"):
    """returns (n_disagreements_model, n_violations_spec)"""
    ndis = nvio = 0
    for c, ir, mr in zip(cases, impl, model):
        ir = from_jsonable(ir)
        orc = run_oracle(c)
        if isinstance(ir, dict) and "exc" in ir:
            ndis += 1
            nvio += 1
            if ir.get("hang"):
                key = "hang:" + "+".join(sorted({o["op"] + (":" + o["how"] if o["op"] == "copy" else "") for o in c["ops"]} & {"update", "union", "copy:write"}))
            else:
                key = f"raised:{ir.get('at')}:{re.sub('[0-9]+', 'N', ir.get('msg', ''))[:60]}"
            rep.violation(key, dict(case=c, observed_impl=ir, model_output=jsonable(mr),
                                    broken="a valid history/query made the implementation raise or hang; " + tie_name))
            continue
        for qi, q in enumerate(c["queries"]):
            i_q, m_q = ir[qi], mr[qi]
            o_q = orc[qi] if orc is not None else None
            if i_q[1] is None:  # records not observed for this query (see c17_impl.py)
                m_q = [m_q[0], None, m_q[2]]
                o_q = None if o_q is None else [o_q[0], None, o_q[2]]
            if o_q is not None and i_q != o_q:
                nvio += 1
                small = dict(c, queries=[q])
                rep.violation(classify(c, qi), dict(case=small, query=q, expected_by_spec=jsonable(o_q), observed_impl=jsonable(i_q),
                                                    model_output=jsonable(m_q), broken="query result differs from linear scan"))
            elif i_q != m_q:
                ndis += 1
                rep.pending_disagreements.append((c, qi, i_q, m_q))
    return ndis, nvio


def run(tier: str, seed: int) -> int:
    rep = core.Report(PROP, tier, seed)
    rep.pending_disagreements = []
    rng = random.Random(seed * 7919 + 17)
    terr = run_translator()
    pr = core.proof_stage(PROP, COQ_TARGETS) if not terr else {"obligations": len(core.property_theorems(PROP)), "discharged": 0,
                                                    "theorems": {}, "problems": ["translator failed closed: " + terr]}
    core.proof_coverage(rep, pr, "make theories/Properties/C17.vo && coqc gen/assum_C17.v (Print Assumptions)", [
        "translator harness/translators/sql_clause.py: runs _matching_conditions with symbolic bounds and re-emits the SQL "
        "boolean text as Gallina (fail-closed grammar)",
        "sqlite3 evaluates the WHERE clause; its comparison/LIKE semantics are re-modelled in Model/AnnotDb.v, not verified",
        "the GFF block-loop model (Model/AnnotDbGff.v) carries both the rule before and after commit 8412cc0a1; which one the "
        "source under test follows is decided on every run from its behaviour on a 3-row split feature (GB_PROBE)",
    ])
    rep.assumptions += ["stored features have start < stop and query windows have start < stop for the spec-level theorems; "
                        "degenerate inputs are compared model-vs-implementation only"]
    proof_broken = bool(pr["problems"])
    model_ok = not proof_broken or (terr is None and "OverlapGen" not in " ".join(pr["problems"]))

    ncases = 150 if tier == "quick" else 5000
    if proof_broken:
        ncases *= 4  # widened search
    cases = [lattice_case("basic"), lattice_case("gff"), lattice_case("gb")] + twotable_cases() + subset_cases()
    cases += [random_case(rng) for _ in range(ncases)]
    rng_g = random.Random(seed * 7919 + 18)
    gcases = [GB_PROBE] + gb_exhaustive_cases() + [gb_random_case(rng_g) for _ in range((60 if tier == "quick" else 3000) * (4 if proof_broken else 1))]
    rng_f = random.Random(seed * 7919 + 19)
    fcases = [GF_PROBE] + gf_exhaustive_cases() + [gf_random_case(rng_f) for _ in range((40 if tier == "quick" else 2000) * (4 if proof_broken else 1))]
    rng_l = random.Random(seed * 7919 + 20)
    glines = gl_exhaustive_lines() + [gl_random_line(rng_l) for _ in range((600 if tier == "quick" else 20000) * (4 if proof_broken else 1))]
    lcases = [dict(kind="gfflines", lines=glines[i:i + 500]) for i in range(0, len(glines), 500)]
    rng_p = random.Random(seed * 7919 + 21)
    pcases = [GP_PROBE] + [gp_random_case(rng_p) for _ in range((60 if tier == "quick" else 3000) * (4 if proof_broken else 1))]
    acases = am_cases()
    impl_all = core.run_impl_sharded("c17_impl.py", cases + gcases + fcases + pcases + lcases + acases)
    cuts = [0]
    for part in (cases, gcases, fcases, pcases, lcases, acases):
        cuts.append(cuts[-1] + len(part))
    impl, gimpl, fimpl, pimpl, limpl_raw, aimpl = (impl_all[cuts[i]:cuts[i + 1]] for i in range(6))
    limpl = [x for part in limpl_raw for x in (part if isinstance(part, list) else [part] * 500)][:len(glines)]
    gp_strict = isinstance(pimpl[0], list) and len(pimpl[0][0][0]) == 0
    # is "a_c" inside attributes= a piece of text (only k=a_c matches) or a LIKE pattern (k=abc matches too)?
    _pi = AM_QUERIES.index("a_c") * 4
    ATTR_LIT[0] = isinstance(aimpl[0], list) and "u3" not in [r[2] for r in aimpl[0][_pi][1]] and "u2" in [r[2] for r in aimpl[0][_pi][1]]
    # does the fake-id counter run on across the files of one wildcard path?
    gf_carry = isinstance(fimpl[0], list) and len(fimpl[0][1][0][0]) == 2
    # which rule does the source follow for a name met again in a later block (see Model/AnnotDbGff.v)?
    gb_fixed = isinstance(gimpl[0], list) and len(gimpl[0][1][0]) == 1
    model = gmodel = cdmodel = fmodel = lmodel = pmodel = amodel = None
    try:
        import concurrent.futures as _cf

        fidx = [i for i, r in enumerate(fimpl) if isinstance(r, list)]
        with _cf.ThreadPoolExecutor(max_workers=6) as ex:   # the six model evaluations are independent coqc runs
            f_model = ex.submit(run_model, cases)
            f_a = ex.submit(core.coq_eval, PROP, ["Model.AnnotDb", "Model.AnnotDbRun"], "run_case", [coq_case(c) for c in acases],
                            "list Z * list op * list query", 40, "am")
            f_cd = ex.submit(run_cd_model, cases)
            f_g = ex.submit(core.coq_eval, PROP, ["Model.AnnotDb", "Model.AnnotDbGff"], "run_blocks",
                            [gb_coq_case(c, gb_fixed) for c in gcases], "bool * list (option gline) * list Z", 80, "gb")
            f_l = ex.submit(core.coq_eval, PROP, ["Model.AnnotDb", "Model.AnnotDbGff", "Model.AnnotDbGffText"], "run_parse_line",
                            [zstr(x) for x in glines], "list Z", 400, "gl")
            f_p = ex.submit(core.coq_eval, PROP, ["Model.AnnotDb", "Model.AnnotDbGff", "Model.AnnotDbGffText"], "run_family",
                            [gp_coq_case(c, gb_fixed, gp_strict) for c in pcases], "bool * bool * list (option gline) * Z * list (list Z)", 80, "gp")
            f_f = ex.submit(core.coq_eval, PROP, ["Model.AnnotDb", "Model.AnnotDbGff"], "run_files",
                            [gf_coq_case(fcases[i], fimpl[i][0], gb_fixed, gf_carry) for i in fidx],
                            "bool * bool * list (list (option gline)) * list Z", 80, "gf")
            model, cdmodel, gmodel, lmodel, pmodel, fout = (f.result() for f in (f_model, f_cd, f_g, f_l, f_p, f_f))
            amodel = f_a.result()
        fmodel = [None] * len(fcases)
        for i, r in zip(fidx, fout):
            fmodel[i] = r
    except core.CheckError as e:
        if not proof_broken:
            raise
        rep.notes.append(f"model not runnable: {str(e)[:300]}")
    if fmodel is None:
        fmodel = [None] * len(fcases)
    if gmodel is None:
        gmodel = [None] * len(gcases)
    if model is None:
        model = [[[None, None, None]] * len(c["queries"]) for c in cases]
        # model unavailable: still compare implementation against the specification oracle
    ndis, nvio = compare(rep, cases, impl, model)
    g_loads, g_nontriv, g_dis, g_vio = gb_compare(rep, gcases, gimpl, gmodel, gb_fixed)
    cd_n, cd_dis, cd_vio = cd_compare(rep, cases, impl, cdmodel)
    f_loads, f_nontriv, f_dis, f_vio = gf_compare(rep, fcases, fimpl, fmodel, gb_fixed, gf_carry)
    l_n, l_spec, l_dis, l_vio = gl_compare(rep, glines, limpl, lmodel)
    p_n, p_spec, p_loose, p_dis, p_vio = gp_compare(rep, pcases, pimpl, pmodel)
    a_n, a_dis, a_vio = am_compare(rep, acases, aimpl, amodel)
    p_dis = p_dis + a_dis
    nvio += a_vio
    g_dis = g_dis + cd_dis + f_dis + l_dis + p_dis
    nvio += l_vio + p_vio
    ndis += len(g_dis)
    nvio += g_vio + cd_vio + f_vio

    nq = sum(len(c["queries"]) for c in cases)
    nontrivial = set()
    for c, ir in zip(cases, impl):
        if isinstance(ir, dict):
            continue
        for q, r in zip(c["queries"], ir):
            if r[0] and (q["start"] is not None or q["stop"] is not None):
                nontrivial.add(repr((c["ops"], q)))
    dist = {}
    for c in cases:
        for o in c["ops"]:
            dist[o["op"]] = dist.get(o["op"], 0) + 1
    rep.coverage.update(
        evaluations=nq + g_loads + cd_n + f_loads + l_n + p_n + a_n, distinct_nontrivial=len(nontrivial) + g_nontriv + f_nontriv,
        rule="one evaluation = one query on one database history, or one load of one GFF text with one lines_per_block; "
             "non-trivial = coordinate-window query returning >=1 record, or a GFF load in which rows without ID= sit in more than "
             "one block; lattice block: all features/windows with coordinates in -1..7 x partial x bound presence, exhaustive; "
             "attrmeta stream: 14 stored attribute texts with literal % / _ in the middle (and look-alikes without) x 19 query texts x "
             "{alone, +seqid, +window, +biotype list} x 3 db classes through features / records / subset / num_matches; list / tuple / set "
             "values (empty, one, several) for seqid / biotype / name in the two-table, subset and random blocks; "
             "two-table block: on_alignment x user rows present/absent x start/stop in {None,0,k} x falsy filters x both entry points "
             "(+ count_distinct over all 27 argument shapes); subset block: subset(start/stop in {None,0,k} x allow_partial x falsy "
             "filters) on a two-table and a one-table db; "
             "random block: random multi-span records on 3 seqids, shared names, %/_ patterns, histories of "
             "add/union/update/subset/copy; gffblocks: every 4-row file over {ID=a, ID=b, no ID} (+comment line) and random GFF "
             "texts, each loaded with lines_per_block in {1,2,3,5,len-1,len,default,None}; gfffiles: 2-4 files behind one wildcard path "
             "(every 2x2-row pattern over {ID=a, ID=b, no ID} + random, IDs shared across files or not) x lines_per_block in "
             "{None,1,2,3,default}, oracle = records of the concatenated text; gfflines: single lines (all orderings of ID/Parent/Name, "
             "odd keys, padding, comments, wrong column counts, bad integers) through gff_parser + merged_gff_records; gfffamily: "
             "gene/mRNA/exon/CDS hierarchies, get_feature_children / get_feature_parent for every name",
        parent_child_lookup="exact names (notes/proposed_fixes/C17-5.diff)" if gp_strict else "LIKE '%name%' (a name inside another name matches too)",
        parent_child_queries=p_n, parent_child_queries_with_strict_oracle=p_spec, parent_child_queries_name_inside_other_name=p_loose,
        parent_child_answers_wider_than_parent_relation=len(LOOSE_EXAMPLES), parent_child_wider_example=LOOSE_EXAMPLES[:1],
        attribute_metacharacter_queries=a_n,
        attributes_match="text with % and _ escaped (notes/proposed_fixes/C17-6.diff)" if ATTR_LIT[0] else "LIKE pattern: % and _ inside the text are wildcards (finding C17-6)",
        gff_lines_parsed=l_n, gff_lines_with_spec_oracle=l_spec, count_distinct_evaluations=cd_n, gff_multi_file_loads=f_loads, gff_multi_file_loads_with_common_names=f_nontriv,
        gff_fake_id_counter_across_files="carried (notes/proposed_fixes/C17-4.diff)" if gf_carry else "restarts per file (finding C17-4)",
        gff_block_loads=g_loads, gff_block_loads_idless_rows_in_several_blocks=g_nontriv,
        gff_block_model_variant="repaired rule (notes/proposed_fixes/C17-3.diff)" if gb_fixed else "rule as first read (split features duplicated)",
        samples=[dict(case=dict(cases[2], queries=cases[2]["queries"][:2]), impl=impl[2][:2] if not isinstance(impl[2], dict) else impl[2])],
        input_distribution=dict(cases=len(cases), queries=nq, ops=dist),
        model_impl_disagreements=ndis, spec_violations=nvio,
        translator_tie="ok" if terr is None else f"broken: {terr}",
        exhaustive=False,
        partial=PARTIAL,
    )
    dis = [dict(key=classify(c, qi), case=dict(c, queries=[c["queries"][qi]]), observed_impl=jsonable(i_q), model_output=jsonable(m_q))
           for (c, qi, i_q, m_q) in rep.pending_disagreements[:5]] + g_dis[:5]
    core.conclude(rep, pr, f"{len(cases)} cases / {nq} queries against the interval oracle", dis,
                  "Model.AnnotDbRun.run_case vs cogent3.core.annotation_db", tier, PROP)
    return rep.finish("proof")


def replay(path: str) -> int:
    import json

    d = json.loads(open(path).read())
    if "case" not in d:
        print("replay names a broken obligation, not an input:", d.get("broken"))
        return 1
    c = d["case"]
    if c.get("kind") == "gfffiles":
        impl = from_jsonable(core.run_impl_lines("c17_impl.py", [c])[0])
        print("impl  :", impl)
        if isinstance(impl, dict):
            print("REPRODUCED")
            return 1
        order, loads = impl
        orc = gb_oracle(dict(c, text="".join(c["texts"][k] for k in order)))
        print("oracle:", orc)
        bad = any(o != orc and gb_anon(o) != gb_anon(orc) for o in loads)
        print("REPRODUCED" if bad else "not reproduced")
        return 1 if bad else 0
    if c.get("kind") == "gffblocks":
        impl = from_jsonable(core.run_impl_lines("c17_impl.py", [c])[0])
        orc = gb_oracle(c)
        print("impl  :", impl)
        print("oracle:", orc)
        bad = isinstance(impl, dict) or any(o != orc and gb_anon(o) != gb_anon(orc) for o in impl)
        print("REPRODUCED" if bad else "not reproduced")
        return 1 if bad else 0
    impl = core.run_impl_lines("c17_impl.py", [c])[0]
    orc = run_oracle(c)
    print("impl  :", impl)
    print("oracle:", orc)
    bad = orc is not None and any(o is not None and from_jsonable(i) != o for i, o in zip(from_jsonable(impl), orc))
    print("REPRODUCED" if bad else "not reproduced")
    return 1 if bad else 0
