"""C16 implementation runner (runs inside the /repo interpreter).

kinds of case
  wrap    the real cogent3.maths.optimisers.maximise/minimise driven by SCRIPTED
          optimisers (LocalOptimiser/GlobalOptimiser replaced in this process only)
          on a synthetic table function
  real    the real Powell / SimulatedAnnealing on a synthetic function (trace only)
  pmap    the real _get_param_mapping / _ParamProjection.update_param_rules / update_scoped_rules
  nested  fit a null lf, initialise the alternate from it, (short) optimise
  lfopt   lf.optimise from a perturbed start with given optimiser settings
  hyp     the hypothesis app
"""
import math
import warnings

import numpy

from vcheck.implutil import serve
from vcheck.val import exc_code

warnings.filterwarnings("ignore")


class ScriptCrash(Exception):
    pass


class SynthOther(Exception):
    pass


# ------------------------------------------------------------------ synthetic function

class RawF:
    def __init__(self, case):
        self.centre = case["centre"]
        self.c0 = case["c0"]
        self.tbl = {tuple(p): v for p, v in case["tbl"]}
        self.calls = []

    def __call__(self, x):
        x = numpy.atleast_1d(numpy.asarray(x, float))
        pt = tuple(int(round(float(v))) for v in x)
        self.calls.append(list(pt))
        ov = self.tbl.get(pt)
        if ov is None:
            return float(self.c0 - sum((a - b) ** 2 for a, b in zip(pt, self.centre)))
        if isinstance(ov, int):
            return float(ov)
        if ov == "pinf":
            return numpy.inf
        if ov == "ninf":
            return -numpy.inf
        if ov == "nan":
            return numpy.nan
        if ov == "arith":
            return 1 // 0
        raise SynthOther("synthetic failure")


def vcode(v):
    v = float(v)
    if math.isnan(v):
        return [3]
    if v == math.inf:
        return [1]
    if v == -math.inf:
        return [2]
    return int(v)


def scripted(script, log):
    class Scripted:
        def __init__(self, *a, **kw):
            pass

        def maximise(self, function, xopt, show_remaining=None, **kw):
            buf = numpy.array(xopt, float)
            cur = numpy.array(xopt, float)
            curval = None
            last = numpy.array(xopt, float)
            log["started"] = True
            for act in script:
                if act[0] == "crash":
                    log["crashed"] = True
                    raise ScriptCrash("scripted optimiser crash")
                if act[0] == "q":
                    buf[:] = act[1]
                else:  # "rel": step from the optimiser's own best point so far
                    buf[:] = cur + numpy.array(act[1], float)
                log["queries"].append([int(v) for v in buf])
                v = function(buf)
                log["seen"].append(vcode(v))
                if curval is None or v > curval:
                    cur = buf.copy()
                    curval = v
                last = buf.copy()
                buf += 1000.0  # the optimiser re-uses its buffer (as SimulatedAnnealing does)
            return last  # the LAST point looked at, not the best one

    return Scripted


def run_wrap(case):
    import cogent3.maths.optimisers as O

    f = RawF(case)
    glog = dict(queries=[], seen=[], crashed=False, started=False)
    llog = dict(queries=[], seen=[], crashed=False, started=False)
    og, ol = O.GlobalOptimiser, O.LocalOptimiser
    O.GlobalOptimiser = scripted(case["g"], glog)
    O.LocalOptimiser = scripted(case["l"], llog)
    bounds = None
    if case["bounds"] is not None:
        def vec(b):
            if b is None:
                return None
            return numpy.array([(-numpy.inf if sign < 0 else numpy.inf) if v is None else float(v) for v, sign in b])
        lo, hi = case["bounds"]
        bounds = (vec(None if lo is None else [(v, -1) for v in lo]), vec(None if hi is None else [(v, 1) for v in hi]))
    tag, arg, ret, evals = None, None, None, None
    fn = O.minimise if case["minimise"] else O.maximise
    try:
        r = fn(f, numpy.array(case["x0"], float), bounds=bounds, local=case["local"],
               max_evaluations=case["maxev"], return_eval_count=case["ret_count"])
        tag = "done"
        if case["ret_count"]:
            r, evals = r
            evals = int(evals)
        ret = [int(round(float(v))) for v in numpy.atleast_1d(r)]
    except O.MaximumEvaluationsReached as e:
        tag, arg = "limit", int(e.args[0])
    except (ScriptCrash, SynthOther):
        tag = "crash"
    except ValueError:
        tag = "invalid"
    except Exception as e:  # noqa: BLE001
        tag = f"unexpected:{type(e).__name__}:{str(e)[:80]}"
    finally:
        O.GlobalOptimiser, O.LocalOptimiser = og, ol
    return dict(obs=[tag, arg, ret, evals, glog["seen"] + llog["seen"], f.calls],
                gq=glog["queries"], lq=llog["queries"], gcrash=glog["crashed"], lcrash=llog["crashed"],
                gstarted=glog["started"], lstarted=llog["started"])


# ------------------------------------------------------------------ real optimisers on a synthetic surface

def run_real(case):
    """the real Powell / SimulatedAnnealing; only a float trace is returned, which
    the driver checks against the plain specification (argmax of the trace)"""
    import cogent3.maths.optimisers as O

    trace = []
    kind = case["surface"]
    c = numpy.array(case["centre"], float)

    def f(x):
        x = numpy.atleast_1d(numpy.asarray(x, float))
        if kind == "quad":
            v = float(case["c0"] - ((x - c) ** 2).sum())
        elif kind == "ridge":
            v = float(case["c0"] - abs(x - c).sum() - 3.0 * abs(x[0] - c[0]))
        elif kind == "bumpy":
            v = float(case["c0"] - ((x - c) ** 2).sum() + 2.0 * numpy.sin(5 * x).sum())
        else:  # "cliff": non-finite beyond a plane inside the bounds
            v = float(case["c0"] - ((x - c) ** 2).sum())
            if x.sum() > c.sum() + 1.0:
                # the "impossible" region: NaN, or the infinity that is bad for the direction of optimisation
                v = numpy.nan if case.get("cliff") == "nan" else (numpy.inf if case["minimise"] else -numpy.inf)
        trace.append([[float(t) for t in x], v if math.isfinite(v) else repr(v)])
        return v

    lo = numpy.array(case["lo"], float)
    hi = numpy.array(case["hi"], float)
    kw = {}
    if case["local"] is not True:
        kw["seed"] = case["seed"]
    tag, arg, ret, evals = None, None, None, None
    fn = O.minimise if case["minimise"] else O.maximise
    try:
        r, evals = fn(f, numpy.array(case["x0"], float), bounds=(lo, hi), local=case["local"],
                      max_evaluations=case["maxev"], return_eval_count=True, tolerance=case.get("tol", 1e-6),
                      max_restarts=case.get("max_restarts"), **kw)
        tag = "done"
        ret = [float(v) for v in numpy.atleast_1d(r)]
        evals = int(evals)
    except O.MaximumEvaluationsReached as e:
        tag, arg = "limit", int(e.args[0])
    except ValueError:
        tag = "invalid"
    return dict(tag=tag, arg=arg, ret=ret, evals=evals, trace=trace)


# ------------------------------------------------------------------ parameter mapping between nested models

def _coords(d):
    return {k: {tuple(c) for c in v} for k, v in d}


def run_pmap(case):
    from cogent3.evolve import likelihood_function as LF

    if "models" in case:
        from cogent3 import get_model

        simple_m, rich_m = (get_model(n) for n in case["models"])
        rich = rich_m.get_param_matrix_coords(include_ref_cell=True)
        simple = simple_m.get_param_matrix_coords(include_ref_cell=True)
        out = dict(rich=[[k, sorted([int(i), int(j)] for i, j in v)] for k, v in rich.items()],
                   simple=[[k, sorted([int(i), int(j)] for i, j in v)] for k, v in simple.items()])
    else:
        rich, simple = _coords(case["rich"]), _coords(case["simple"])
        out = {}
    try:
        m = LF._get_param_mapping(rich, simple)
        out["map"] = sorted([k, sorted(v)] for k, v in m.items() if v)
    except ValueError:
        out["map"] = out["proj"] = {"exc": 2}
        return out
    except AssertionError:
        out["map"] = out["proj"] = {"exc": 9}
        return out
    # update_param_rules with same=True on one integer valued global rule per simple parameter
    primes = [2, 3, 5, 7, 11, 13, 17, 19, 23, 29, 31, 37, 41, 43, 47, 53]
    names = [k for k in (simple if isinstance(simple, dict) else {})]
    rules = [dict(par_name=n, init=primes[i % len(primes)]) for i, n in enumerate(names) if n != "ref_cell"]
    rules.append(dict(par_name="length", edge="a", init=7))
    pp = LF._ParamProjection.__new__(LF._ParamProjection)
    pp._rich_coords, pp._simple_coords, pp._param_map, pp._same = rich, simple, m, True
    pp._motif_probs, pp._ref_val, pp.projected_rate = None, 1, pp._rate_same
    new = pp.update_param_rules(rules)
    proj = []
    for r in new:
        e = r.get("edges") if r.get("edges") is not None else r.get("edge")
        if isinstance(e, str):
            e = [e]
        proj.append([r["par_name"], None if e is None else sorted(e), int(r["init"])])
    out["proj"] = sorted(proj, key=repr)
    return out


def run_pmapns(case):
    """the real _ParamProjection (constructor, _set_ref_val, _rate_not_same, update_param_rules) with same=False on
    given coordinate dictionaries, motif probabilities and rule values (fractions)"""
    from fractions import Fraction

    from cogent3.evolve import likelihood_function as LF

    if "models" in case:
        from cogent3 import get_model

        simple_m, rich_m = (get_model(n) for n in case["models"])
        rich = rich_m.get_param_matrix_coords(include_ref_cell=True)
        simple = simple_m.get_param_matrix_coords(include_ref_cell=True)
        rich = {k: {(int(i), int(j)) for i, j in v} for k, v in rich.items()}
        simple = {k: {(int(i), int(j)) for i, j in v} for k, v in simple.items()}
    else:
        rich, simple = _coords(case["rich"]), _coords(case["simple"])

    class Fake:
        def __init__(self, coords):
            self.coords = coords

        def get_param_matrix_coords(self, include_ref_cell=False):
            return self.coords

    out = dict(rich_iter=[[k, [list(c) for c in v]] for k, v in rich.items()],
               simple_iter=[[k, [list(c) for c in v]] for k, v in simple.items()])
    pis = [float(Fraction(n, d)) for n, d in case["pi"]]
    names = [k for k in simple if k != "ref_cell"]
    vals = case["vals"]
    consts = case.get("const") or [False]
    rules = []
    for i, n in enumerate(names):
        v = float(Fraction(*vals[i % len(vals)]))
        if consts[i % len(consts)]:   # as get_param_rules reports a constant term
            rules.append(dict(par_name=n, value=v, is_constant=True))
        else:
            rules.append(dict(par_name=n, init=v))
    rules.append(dict(par_name="length", edge="a", init=7.0))
    out["rule_names"] = names
    try:
        pp = LF._ParamProjection(Fake(simple), Fake(rich), pis, same=False)
        new = pp.update_param_rules(rules)
    except Exception as e:  # noqa: BLE001
        out["proj"] = {"exc": exc_code(e)}
        return out
    # the number update_rule_value hands to a (free) rule of the rich model
    proj = []
    for r in new:
        if r["par_name"] == "length":
            continue
        got = LF.update_rule_value(dict(par_name=r["par_name"], init=1.0), r)
        proj.append([r["par_name"], float(got["init"])])
    out["proj"] = sorted(proj)
    return out


def run_scoped(case):
    """update_scoped_rules on synthetic rule lists; values are ints"""
    from cogent3.evolve import likelihood_function as LF

    def mk(r):
        d = dict(par_name=r["par"], init=r["val"])
        if r["edges"] is not None:
            if len(r["edges"]) == 1 and r.get("single"):
                d["edge"] = r["edges"][0]
            else:
                d["edges"] = list(r["edges"])
        return d

    rich = [mk(r) for r in case["rich"]]
    null = [mk(r) for r in case["null"]]
    try:
        new = LF.update_scoped_rules(rich, null)
    except Exception as e:  # noqa: BLE001
        return {"exc": exc_code(e)}
    out = []
    for r in new:
        e = r.get("edges") if r.get("edges") is not None else r.get("edge")
        if isinstance(e, str):
            e = [e]
        out.append([r["par_name"], None if e is None else sorted(e), int(r["init"])])
    return sorted(out, key=repr)


# ------------------------------------------------------------------ real likelihood functions

_cache = {}


def _aln_tree(case):
    from cogent3 import make_aligned_seqs, make_tree

    key = (tuple(sorted(case["seqs"].items())), case["tree"])
    if key not in _cache:
        _cache.clear()
        _cache[key] = (make_aligned_seqs(case["seqs"], moltype="dna"), make_tree(case["tree"]))
    return _cache[key]


def make_lf(spec, aln, tree):
    from cogent3 import get_model

    sm = get_model(spec["sm"], **spec.get("sm_args", {}))
    lf = sm.make_likelihood_function(tree, **spec.get("lf_args", {}))
    lf.set_alignment(aln)
    for r in spec.get("rules", []):
        lf.set_param_rule(**r)
    return lf


def bounds_slack(lf):
    """smallest (value - lower) and (upper - value) over all parameters with declared bounds"""
    worst = math.inf
    who = None
    for r in lf.get_param_rules():
        if "init" not in r or isinstance(r["init"], dict):
            continue
        v = float(r["init"])
        for side, sgn in (("lower", 1.0), ("upper", -1.0)):
            if r.get(side) is None:
                continue
            s = sgn * (v - float(r[side]))
            if s < worst:
                worst, who = s, [r["par_name"], r.get("edge", r.get("edges")), side, v, float(r[side])]
    return worst, who


def _optimise(lf, opt):
    opt = dict(opt)
    opt.setdefault("show_progress", False)
    try:
        lf.optimise(**opt)
        return None
    except ArithmeticError:
        return "arith"


def run_nested(case):
    aln, tree = _aln_tree(case)
    null = make_lf(case["null"], aln, tree)
    for r in case.get("null_start", []):
        null.set_param_rule(**r)
    _optimise(null, case["null_opt"])
    for r in case.get("null_post", []):   # e.g. a term held constant at its fitted value
        null.set_param_rule(**r)
    out = dict(lnL_null=float(null.lnL), nfp_null=int(null.nfp))
    alt = make_lf(case["alt"], aln, tree)
    out["nfp_alt"] = int(alt.nfp)
    try:
        alt.initialise_from_nested(null)
    except Exception as e:  # noqa: BLE001
        out["init_exc"] = [type(e).__name__, str(e)[:200]]
        return out
    out["lnL_alt_init"] = float(alt.lnL)
    out["lnL_null_after"] = float(null.lnL)
    out["slack_init"], out["slack_init_who"] = bounds_slack(alt)
    if case.get("alt_opt") is not None:
        out["alt_opt_exc"] = _optimise(alt, case["alt_opt"])
        out["lnL_alt_fit"] = float(alt.lnL)
        s, who = bounds_slack(alt)
        out["slack"], out["slack_who"] = s, who
    return out


def run_lfopt(case):
    import random

    aln, tree = _aln_tree(case)
    lf = make_lf(case["model"], aln, tree)
    rng = random.Random(case["start_seed"])
    for r in lf.get_param_rules():
        if "init" not in r or r["par_name"] == "mprobs" or isinstance(r["init"], dict):
            continue
        lo = max(float(r.get("lower", 1e-6)), 1e-3)
        hi = min(float(r.get("upper", 10.0)), 5.0)
        kw = dict(par_name=r["par_name"], init=rng.uniform(lo, hi))
        if "edge" in r:
            kw["edge"] = r["edge"]
        if "edges" in r:
            kw["edges"] = r["edges"]
        lf.set_param_rule(**kw)
    before = float(lf.lnL)
    opt = dict(case["opt"])
    opt.setdefault("show_progress", False)
    exc, best = None, None
    try:
        calc = lf.optimise(return_calculator=True, **opt)
        best = float(calc.testfunction())
    except ArithmeticError:
        exc = "arith"
    except Exception as e:  # noqa: BLE001
        exc = type(e).__name__ + ":" + str(e)[:100]
    after = float(lf.lnL)
    s, who = bounds_slack(lf)
    return dict(before=before, after=after, calc_best=best, exc=exc, slack=s, slack_who=who)


def run_lfbounds(case):
    """bounds declared per scope, then scope-splitting rules that do not restate bounds, then optimisation: the
    optimised value of every (parameter, edge) cell is reported; the driver's oracle tracks the declared bounds"""
    aln, tree = _aln_tree(case)
    lf = make_lf(dict(sm=case["sm"]), aln, tree)
    defaults = {}
    for r in lf.get_param_rules():
        if "lower" in r and "upper" in r and r["par_name"] not in defaults:
            defaults[r["par_name"]] = [float(r["lower"]), float(r["upper"])]
    for st in case["steps"]:
        st = dict(st)
        if st.pop("op", "rule") == "time_het":
            lf.set_time_heterogeneity(**st)
        else:
            lf.set_param_rule(**st)
    edges = [e for e in lf.tree.get_node_names() if e != "root"]
    # the bounds the likelihood function itself holds for every cell, before optimisation
    held = {}
    for par in case["pars"]:
        held[par] = {}
        for r in lf.get_param_rules():
            if r["par_name"] != par or "lower" not in r:
                continue
            es = r.get("edges") if r.get("edges") is not None else r.get("edge")
            es = edges if es is None else ([es] if isinstance(es, str) else list(es))
            for e in es:
                held[par][e] = [float(r["lower"]), float(r["upper"])]
    before = float(lf.lnL)
    opt = dict(case["opt"])
    opt.setdefault("show_progress", False)
    exc, best = None, None
    try:
        calc = lf.optimise(return_calculator=True, **opt)
        # the calculator was left at the optimiser's best point ("ensure best last"): its current output value
        best = float(calc.testfunction())
    except ArithmeticError:
        exc = "arith"
    values = {}
    for par in case["pars"]:
        values[par] = {e: float(lf.get_param_value(par, edge=e)) for e in edges}
    return dict(defaults=defaults, values=values, held=held, before=before, after=float(lf.lnL), calc_best=best, exc=exc, edges=edges)


def run_ufc(case):
    """the real _InputDefn.update_from_calculator on a stand-in definition with one setting (unit 1e-12)"""
    import types

    from cogent3.recalculation import definition as D

    U = 1e-12
    f = lambda z: None if z is None else z * U  # noqa: E731
    setting = types.SimpleNamespace(is_constant=case["const"], lower=f(case["lower"]), upper=f(case["upper"]), value=None)
    me = types.SimpleNamespace(uniq=[setting], name="p")
    calc = types.SimpleNamespace(get_current_cell_values_for_defn=lambda d: [f(case["output"])])
    try:
        D._InputDefn.update_from_calculator(me, calc)
    except Exception as e:  # noqa: BLE001
        return dict(exc=type(e).__name__)
    return dict(value=float(setting.value))


def run_hyp(case):
    """the hypothesis / model_collection apps over the option space of the model app.  Observed without
    changing behaviour: every initialise_from_nested call (exceptions are swallowed by app.evo._InitFrom) and
    the lnL of every likelihood function at the entry and exit of every optimise call"""
    from cogent3 import get_app
    from cogent3.evolve.likelihood_function import LikelihoodFunction

    aln, tree = _aln_tree(case)

    def app(spec):
        kw = dict(spec.get("app_args", {}))
        return get_app("model", spec["sm"], tree=tree, name=spec["name"], opt_args=dict(case["opt"]),
                       sm_args=spec.get("sm_args"), lf_args=spec.get("lf_args"), show_progress=False, **kw)

    null = app(case["null"])
    alts = [app(a) for a in case["alts"]]
    ckw = dict(sequential=case.get("sequential", True))
    if case.get("init_alt") == "identity":
        ckw["init_alt"] = lambda lf, identifier: lf
    hyp = get_app(case.get("app", "hypothesis"), null, *alts, **ckw)

    orig = LikelihoodFunction.initialise_from_nested
    had_opt = "optimise" in LikelihoodFunction.__dict__
    orig_opt = LikelihoodFunction.optimise
    log, optlog = [], []

    def observed(self, nested):
        rec = dict(id=id(self), lnL_nested=float(nested.lnL), nfp_self=int(self.nfp), nfp_nested=int(nested.nfp))
        log.append(rec)
        try:
            res = orig(self, nested)
        except Exception as e:  # noqa: BLE001
            rec["exc"] = type(e).__name__
            raise
        rec["lnL_init"] = float(self.lnL)
        rec["slack_init"] = bounds_slack(self)[0]
        return res

    def observed_opt(self, *a, **kw):
        rec = dict(id=id(self), start=float(self.lnL))
        optlog.append(rec)
        try:
            return orig_opt(self, *a, **kw)
        finally:
            rec["end"] = float(self.lnL)

    LikelihoodFunction.initialise_from_nested = observed
    LikelihoodFunction.optimise = observed_opt
    try:
        r = hyp(aln)
    finally:
        LikelihoodFunction.initialise_from_nested = orig
        if had_opt:
            LikelihoodFunction.optimise = orig_opt
        else:
            del LikelihoodFunction.optimise
    if not r:
        return dict(not_completed=str(r)[:300], init=[{k: v for k, v in e.items() if k != "id"} for e in log])
    names = [case["null"]["name"]] + [a["name"] for a in case["alts"]]
    lfs = [r[n].lf for n in names]
    out = dict(lnL=[float(lf.lnL) for lf in lfs], nfp=[int(lf.nfp) for lf in lfs])
    per = []
    for lf in lfs:
        inits = [{k: v for k, v in e.items() if k != "id"} for e in log if e["id"] == id(lf)]
        opts = [[e["start"], e.get("end")] for e in optlog if e["id"] == id(lf)]
        per.append(dict(init=inits, opt=opts))
    out["per"] = per
    out["init"] = [p["init"][-1] if p["init"] else None for p in per[1:]]
    if len(alts) == 1 and case.get("app", "hypothesis") == "hypothesis":
        out["LR"] = float(r.LR)
    return out


def run_probe(case):
    """which of the two transcribed variants of the nested-initialisation code is this implementation?"""
    from cogent3.evolve import likelihood_function as LF

    try:
        LF.update_scoped_rules([dict(par_name="p", edges=["a"], init=1)], [dict(par_name="q", edges=["a"], init=2)])
        keep = True
    except IndexError:
        keep = False
    m = LF._get_param_mapping({"s": {(0, 1), (1, 0)}, "x": {(0, 1)}}, {"s": {(0, 1), (1, 0)}})
    return dict(keep_unmatched=keep, exact_rule="x" not in m["s"])


def run_case(case):
    k = case["kind"]
    if k == "probe":
        return run_probe(case)
    if k == "wrap":
        return run_wrap(case)
    if k == "real":
        return run_real(case)
    if k == "pmap":
        return run_pmap(case)
    if k == "scoped":
        return run_scoped(case)
    if k == "pmapns":
        return run_pmapns(case)
    if k == "nested":
        return run_nested(case)
    if k == "lfopt":
        return run_lfopt(case)
    if k == "lfbounds":
        return run_lfbounds(case)
    if k == "ufc":
        return run_ufc(case)
    if k == "hyp":
        return run_hyp(case)
    raise ValueError(k)


if __name__ == "__main__":
    serve(run_case, limit=240)
