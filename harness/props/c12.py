"""C12 — Translation and complementing follow the genetic-code tables.

Stage P: Properties/C12.v over gen/GCTables.v, regenerated from the table objects of the
current source by harness/translators/gc_tables.py on every run (fail-closed).
Stage C: old and new GeneticCode objects, moltypes, sequences, collections, alignments and
app.translate vs the Coq model (vm_compute).
Stage S: a plain-Python oracle built from the frozen NCBI reference spec/ncbi_genetic_codes.json
and the IUPAC nucleotide code."""
from __future__ import annotations

import itertools
import json
import random
import subprocess

from vcheck import core
from vcheck.val import Exc, cbool, from_jsonable, jsonable, zlit, zstr

PROP = "C12"
COQ_TARGETS = ["theories/Model/GeneticCodeRun.vo"]

# ------------------------------------------------------------------ translator


def run_translator() -> str | None:
    """regenerate gen/GCTables.v; returns an error string if the translator failed closed"""
    r = subprocess.run([core.PY, str(core.VERIF / "harness/translators/gc_tables.py")], capture_output=True,
                       text=True, env=core.impl_env(), cwd=str(core.VERIF))
    out = core.GEN / "GCTables.v"
    core.GEN.mkdir(exist_ok=True)
    if r.returncode != 0:
        return (r.stderr or r.stdout)[-800:]
    if not r.stdout.strip().endswith("."):
        return "translator produced truncated output"
    if not out.exists() or out.read_text() != r.stdout:
        out.write_text(r.stdout)
    return None


def pre_build():
    err = run_translator()
    if err:
        raise core.CheckError("gc_tables translator failed: " + err)


# ------------------------------------------------------------------ the specification oracle (plain Python)

_REF = json.loads((core.VERIF / "spec" / "ncbi_genetic_codes.json").read_text())
B1, B2, B3 = _REF["base1"], _REF["base2"], _REF["base3"]
NCBI = {c["id"]: (c["aa"], c["starts"]) for c in _REF["codes"]}
NCBI_NAME = {c["id"]: c["name"] for c in _REF["codes"]}
IDS = sorted(NCBI)

WC = {"A": "T", "C": "G", "G": "C", "T": "A"}
# IUPAC-IUB nucleotide code (NC-IUB 1984)
IUPAC_DNA = {"A": "A", "C": "C", "G": "G", "T": "T", "R": "AG", "Y": "CT", "S": "CG", "W": "AT", "K": "GT", "M": "AC",
             "B": "CGT", "D": "AGT", "H": "ACT", "V": "ACG", "N": "ACGT"}
IUPAC = {"dna": IUPAC_DNA,
         "rna": {k.replace("T", "U"): v.replace("T", "U") for k, v in IUPAC_DNA.items()}}
COMP = {"dna": WC, "rna": {"A": "U", "C": "G", "G": "C", "U": "A"}}


def ncbi_lookup(cid: int, codon: str):
    """the amino-acid line's character in the column whose Base1/2/3 characters are the codon"""
    aa = NCBI[cid][0]
    for i in range(64):
        if B1[i] == codon[0] and B2[i] == codon[1] and B3[i] == codon[2]:
            return aa[i]
    return None


def is_canon(s: str, alpha="ACGT") -> bool:
    return all(ch in alpha for ch in s)


def translate_spec(cid: int, s: str) -> str:
    return "".join(ncbi_lookup(cid, s[i:i + 3]) for i in range(0, len(s) - 2, 3))


def rc_spec(s: str) -> str:
    return "".join(WC[ch] for ch in reversed(s))


def frames_spec(cid: int, s: str) -> list[str]:
    r = rc_spec(s)
    return [translate_spec(cid, s[k:]) for k in range(3)] + [translate_spec(cid, r[k:]) for k in range(3)]


def sym_of(m: str, members) -> str | None:
    key = "".join(sorted(set(members)))
    for k, v in IUPAC[m].items():
        if v == key:
            return k
    return None


def comp_sym(m: str, ch: str):
    if ch in "-?":
        return ch
    if ch in IUPAC[m]:
        return sym_of(m, [COMP[m][b] for b in IUPAC[m][ch]])
    return None


REJECT = "REJECT"


def stop_spec(cid, s, eff_trim, include_stop, incomplete_ok, pad=""):
    p = translate_spec(cid, s)
    in_frame = len(s) % 3 == 0
    if eff_trim and not in_frame and not incomplete_ok:
        return REJECT
    if eff_trim and in_frame and p.endswith("*"):
        p = p[:-1] + pad
    if not include_stop and "*" in p:
        return REJECT
    return p


BOOLS3 = list(itertools.product([False, True], repeat=3))  # (incomplete_ok, include_stop, trim_stop)
KIND_NAME = {0: "old-seq", 1: "new-seq", 2: "old-collection", 3: "new-collection", 4: "old-alignment",
             5: "new-seq-rc", 6: "old-seq-rc", 7: "old-arrayalignment"}
NEW_KINDS = (1, 3, 5)


def oracle(c):
    """expected observation by the specification; None (or None entries) where the
    specification does not speak"""
    c = expand(c)
    k = c["k"]
    if k == "getitem":
        key = c["codon"].upper().replace("U", "T")
        if len(key) == 3 and is_canon(key) and c["id"] in NCBI:
            return ord(ncbi_lookup(c["id"], key))
        return None
    if k == "codontable":
        words = ["".join(p) for p in itertools.product("TCAG", repeat=3)]
        return [ncbi_lookup(c["id"], rc_spec(w) if c["minus"] else w) for w in words]
    if k == "degen_codons":
        out = []
        for inc in (False, True):
            row = []
            for p3 in itertools.product(c["syms"], repeat=3):
                res = {ncbi_lookup(c["id"], "".join(r)) for r in itertools.product(*(IUPAC_DNA[ch] for ch in p3))}
                if not inc:
                    res.discard("*")
                key = "".join(sorted(res))
                row.append("!" if not res else key if len(res) == 1 else "B" if key == "DN" else "Z" if key == "EQ" else "X")
            out.append("".join(row))
        return out
    if k == "codeinfo":
        cid = c["id"]
        aa, st = NCBI[cid]
        words = [B1[i] + B2[i] + B3[i] for i in range(64)]
        starts = sorted(w for w, x in zip(words, st) if x != "-")
        stops = sorted(w for w, x in zip(words, aa) if x == "*")
        sense = sorted(w for w, x in zip(words, aa) if x != "*")
        syn = [[a, sorted(w for w, x in zip(words, aa) if x == a)] for a in "ACDEFGHIKLMNPQRSTVWY*"]
        tcag = ["".join(p) for p in itertools.product("TCAG", repeat=3)]
        isstop = [ncbi_lookup(cid, w) == "*" for w in tcag]
        last = [w in starts for w in tcag] if c["v"] == "old" else stops
        return [cid, cid, NCBI_NAME[cid], starts, stops, sense, syn, isstop, last]
    if k == "allframes":
        s = c["s"]
        if not is_canon(s):
            return None
        exp = frames_spec(c["id"], s)
        if c.get("v") == "old":  # old translate raises ValueError when start >= len(s) > 0
            exp = [None if (s and k3 % 3 >= len(s)) else e for k3, e in enumerate(exp)]
        return exp
    if k in ("translate", "translate_arr"):
        s = c["s"]
        if not is_canon(s):
            return None
        if c.get("v") == "old" and s and c["start"] >= len(s):
            return None
        return translate_spec(c["id"], (rc_spec(s) if c["minus"] else s)[c["start"]:])
    if k in ("sixframes", "app_frames"):
        s = c["s"]
        v = c.get("v", "old")
        if v == "new":
            if not is_canon(s):
                return None
            return [[i >= 3, i % 3, f] for i, f in enumerate(frames_spec(c["id"], s))]
        t = s.replace("U", "T") if c.get("m") == "rna" else s
        if not is_canon(s, "ACGU" if c.get("m") == "rna" else "ACGT") or len(s) < 3:
            return None
        fr = frames_spec(c["id"], rc_spec(t) if c.get("rc") else t)
        return fr if c.get("allow_rc", True) else fr[:3]
    if k == "best_frame":
        return c.get("planted")
    if k == "select_rc":
        if "planted" not in c:
            return None
        out = []
        for i, (s, f) in enumerate(zip(c["seqs"], c["planted"])):
            t = s if f > 0 else rc_spec(s)
            off = abs(f) - 1
            ncod = (len(t) - off) // 3
            out.append([f"s{i}", t[off:off + 3 * ncod]])
        return [out, out]   # the planted frame holds no stop codon: trimming changes nothing
    if k == "app_translate_seqs":
        seqs = [rc_spec(s) for s in c["seqs"]] if c.get("rc") and all(is_canon(s) for s in c["seqs"]) else c["seqs"]
        c = dict(c, seqs=seqs)
        if not all(is_canon(s) for s in seqs) or any(len(s) % 3 for s in seqs) or not all(seqs):
            return None
        out = []
        for trim in (False, True):
            peps = [stop_spec(c["id"], s, trim, False, False, pad="-" if c["aligned"] else "") for s in seqs]
            out.append(REJECT if REJECT in peps else peps)
        return out
    if k == "app_select":
        seqs, fr = c["seqs"], c["frame"] - 1
        if not all(is_canon(s) for s in seqs):
            return None
        out = []
        for trim in (False, True):
            keep = []
            for i, s in enumerate(seqs):
                ncod = (len(s) - fr) // 3
                w = s[fr:fr + 3 * ncod] if ncod > 0 else ""
                p = translate_spec(c["id"], w)
                if "*" in p[:-1] or not w:
                    if not w and s:  # nothing to translate: the app keeps an empty sequence or drops it -- not specified
                        return None
                    continue
                if trim and p.endswith("*"):
                    w = w[:-3]
                keep.append([f"s{i}", w])
            out.append(keep)
        return out
    if k == "gettrans":
        kind, seqs = c["kind"], c["seqs"]
        if not all(is_canon(s) for s in seqs):
            return None
        if kind in (4, 7) and len({len(s) for s in seqs}) != 1:
            return None
        if kind in (5, 6):
            seqs = [rc_spec(s) for s in seqs]
        out = []
        for ok, inc, trim in BOOLS3:
            if not ok and any(len(s) % 3 for s in seqs):
                # incomplete trailing codon with incomplete_ok=False: the property does not say
                # whether this is an error when no trimming is requested
                out.append(None)
                continue
            eff = trim if kind in NEW_KINDS else (trim and not inc)
            # rows of an alignment keep their length: a trimmed stop codon becomes a gap
            peps = [stop_spec(c["id"], s, eff, inc, ok, pad="-" if kind in (4, 7) else "") for s in seqs]
            out.append(REJECT if REJECT in peps else peps)
        return out
    if k == "viewops":
        # complement_string / reverse o complement_string / Python slicing of what str() showed before
        t, m, out = c["s"], c["m"], []
        if any(comp_sym(m, ch) is None for ch in t):
            return None
        for op in c["ops"]:
            if op == "rc":
                t = "".join(comp_sym(m, ch) for ch in reversed(t))
            elif op == "comp":
                t = "".join(comp_sym(m, ch) for ch in t)
            else:
                t = t[op[0]:op[1]]
            out.append(t)
        return out
    if k in ("complement", "rc", "rc2", "seqrc"):
        s, m = c["s"], c["m"]
        comp = [comp_sym(m, ch) for ch in s]
        if any(x is None for x in comp):
            return None
        comp = "".join(comp)
        return {"complement": comp, "rc": comp[::-1], "rc2": s, "seqrc": [comp[::-1], comp, s]}[k]
    if k == "resolve":
        m, motif = c["m"], c["motif"]
        sets = []
        for ch in motif:
            if ch == "?":
                sets.append(IUPAC[m]["N"])
            elif ch in IUPAC[m]:
                sets.append(IUPAC[m][ch])
            else:
                return None
        return sorted("".join(p) for p in itertools.product(*sets)) if motif else None
    if k in ("what", "degen"):
        m = c["m"]
        members = c["motifs"] if k == "what" else c["symbols"]
        if members and all(ch in COMP[m] for ch in members):
            return ord(sym_of(m, members))
        return None
    raise ValueError(k)


# ------------------------------------------------------------------ rendering for Coq

def V(v):
    return "Old" if v == "old" else "New"


def M(m):
    return "DNA" if m == "dna" else "RNA"


LONG = 768          # 256 codons: below this the dtype variants provably coincide (translate_dtype_pinned_guarded)
HEAVY = 3000        # terms on sequences longer than this are evaluated one per coqc process
COMPRESS = 200      # longer periodic strings are rendered as firstn n (concat (repeat unit k)): long list literals elaborate slowly


def expand(c):
    """cases may carry long periodic sequences compressed as unit + n (replay files stay small)"""
    if "unit" in c and "s" not in c:
        c = dict(c)
        u, n = c["unit"], c["n"]
        c["s"] = (u * (n // len(u) + 1))[:n]
    if "useqs" in c and "seqs" not in c:
        c = dict(c)
        c["seqs"] = [(u * (n // len(u) + 1))[:n] + tail for u, n, tail in c["useqs"]]
    return c


def zperiodic(u, n, tail=""):
    t = f"(firstn (Z.to_nat {n}) (List.concat (repeat {zstr(u)} (Z.to_nat {n // len(u) + 1}))))"
    return f"({t} ++ {zstr(tail)})" if tail else t


def zs(c):
    if "unit" in c and c["n"] > COMPRESS:
        return zperiodic(c["unit"], c["n"])
    return zstr(expand(c)["s"])


def zseqs(c):
    if "useqs" in c and any(n > COMPRESS for _, n, _ in c["useqs"]):
        return "[" + ";".join(zperiodic(u, n, tail) for u, n, tail in c["useqs"]) + "]"
    return "[" + ";".join(zstr(s) for s in expand(c)["seqs"]) + "]"


def is_long(c):
    c = expand(c)
    if "seqs" in c:
        return any(len(s) >= LONG for s in c["seqs"])
    return len(c.get("s", "")) >= LONG


def coq_terms(c) -> list:
    """[(tag, term)]: tag "" = the conforming model; other tags name the model variants WITHOUT a
    repair: m = minus-strand frame labelling (C12-1), d = dtype of the k-mer index array (C12-4),
    x = stop handling of empty sequences / alignments (C12-2, C12-3).  The d variants are only
    evaluated from 256 codons on (below, theorem translate_dtype_pinned_guarded says they coincide)."""
    k = c["k"]
    if c.get("nomodel") or c.get("rc") or k in ("app_translate_seqs", "app_select"):
        return []
    if k == "best_frame":
        return [("", f"CBestFrame {zlit(c['id'])} {zstr(c['s'])} {cbool(c['allow_rc'])}")]
    if k == "select_rc":
        return [("", f"CSelect {zlit(c['id'])} {zseqs(c)} true")]
    if k == "getitem":
        return [("", f"CGetItem {V(c['v'])} {zlit(c['id'])} {zstr(c['codon'])}")]
    if k == "codontable":
        return [("", f"CCodonTable {V(c['v'])} {zlit(c['id'])} {cbool(c['minus'])}")]
    if k == "degen_codons":
        return []   # 2 x 15^3 codons in one case: oracle only (theorem degenerate_codon_is_set_of_resolutions ties the model)
    if k == "codeinfo":
        return []   # derived look-up tables of the objects: oracle only (the literal tables are proved equal to NCBI)
    if k in ("allframes", "sixframes") and c["v"] == "new":
        s = zs(c)
        main = (f"CAllFrames New {zlit(c['id'])} {s}" if k == "allframes" else f"CSixframes New {zlit(c['id'])} {M(c['m'])} {s}")
        t = [("", main), ("m", f"CFramesV false true {zlit(c['id'])} {s}")]
        if is_long(c):
            t += [("d", f"CFramesV true false {zlit(c['id'])} {s}"), ("md", f"CFramesV false false {zlit(c['id'])} {s}")]
        return t
    if k == "allframes":
        return [("", f"CAllFrames Old {zlit(c['id'])} {zs(c)}")]
    if k == "sixframes":
        return [("", f"CSixframes Old {zlit(c['id'])} {M(c['m'])} {zs(c)}")]
    if k in ("translate", "translate_arr") and c.get("v", "new") == "new":
        a = f"{zlit(c['id'])} {zs(c)} {zlit(c['start'])} {cbool(c['minus'])}"
        t = [("", f"CTranslate New {a}")]
        if c["minus"]:
            t.append(("m", f"CTranslateV false true {a}"))
        if is_long(c):
            t.append(("d", f"CTranslateV true false {a}"))
            if c["minus"]:
                t.append(("md", f"CTranslateV false false {a}"))
        return t
    if k == "translate":
        return [("", f"CTranslate Old {zlit(c['id'])} {zs(c)} {zlit(c['start'])} {cbool(c['minus'])}")]
    if k == "app_frames":
        return [("", f"CAppFrames {zlit(c['id'])} {zs(c)} {cbool(c.get('allow_rc', True))}")]
    if k == "gettrans":
        a = f"{c['kind']} {zlit(c['id'])} {zseqs(c)}"
        t = [("", f"CGetTrans true true {a}"), ("x", f"CGetTrans false true {a}")]
        if c["kind"] in NEW_KINDS and is_long(c):
            t += [("d", f"CGetTrans true false {a}"), ("xd", f"CGetTrans false false {a}")]
        return t
    if k == "viewops":
        ops = ";".join("ORc" if o == "rc" else "OComp" if o == "comp" else f"OSlice {zlit(o[0])} {zlit(o[1])}" for o in c["ops"])
        return [("", f"CViewOps {V(c['v'])} {M(c['m'])} {zstr(c['s'])} [{ops}]")]
    if k == "complement":
        return [("", f"CComplement {V(c['v'])} {M(c['m'])} {zstr(c['s'])}")]
    if k == "rc":
        return [("", f"CRc {V(c['v'])} {M(c['m'])} {zstr(c['s'])}")]
    if k == "rc2":
        return [("", f"CRc2 {V(c['v'])} {M(c['m'])} {zstr(c['s'])}")]
    if k == "seqrc":
        a = f"{V(c['v'])} {M(c['m'])} {zstr(c['s'])}"
        return [("0", f"CRc {a}"), ("1", f"CComplement {a}"), ("2", f"CRc2 {a}")]
    if k == "resolve":
        return [("", f"CResolve {V(c['v'])} {M(c['m'])} {zstr(c['motif'])}")]
    if k == "what":
        return [("", f"CWhat {M(c['m'])} {zstr(c['motifs'])}")]
    if k == "degen":
        return [("", f"CDegen {V(c['v'])} {M(c['m'])} {zstr(c['symbols'])}")]
    raise ValueError(k)


def _raise_stack_limit():
    """vm_compute / read-back of 10^5-element lists needs a deep C stack in coqc (child processes inherit)"""
    import resource

    try:
        soft, hard = resource.getrlimit(resource.RLIMIT_STACK)
        resource.setrlimit(resource.RLIMIT_STACK, (hard, hard))
    except (ValueError, OSError):
        pass


def run_model(cases):
    _raise_stack_limit()
    terms, spans, heavy = [], [], []
    for c in cases:
        t = coq_terms(c)
        spans.append((len(terms), [tag for tag, _ in t]))
        terms += [x for _, x in t]
        heavy += [("n" in c and c["n"] > HEAVY) or any(n > HEAVY for _, n, _ in c.get("useqs", []))] * len(t)
    light_idx = [i for i, h in enumerate(heavy) if not h]
    heavy_idx = [i for i, h in enumerate(heavy) if h]
    imports = ["Model.GeneticCode", "Model.GeneticCodeRun"]
    vals = [None] * len(terms)
    for idx, shard in ((light_idx, 250), (heavy_idx, 1)):
        got = core.coq_eval(PROP, imports, "run_case", [terms[i] for i in idx], "case", shard=shard,
                            tag="c" if shard > 1 else "h")
        for i, v in zip(idx, got):
            vals[i] = v
    out = []
    for c, (i, tags) in zip(cases, spans):
        if not tags:
            out.append(None)
        elif tags == [""] and c["k"] == "select_rc":
            out.append([[[f"s{q}", w] for q, w in enumerate(row) if w is not None] for row in vals[i]])
        elif tags == [""]:
            out.append(vals[i])
        elif c["k"] == "seqrc":
            out.append(vals[i:i + len(tags)])
        else:
            alts = {}
            for j, tag in enumerate(tags[1:], 1):
                v = vals[i + j]
                if c["k"] == "sixframes":
                    v = [[q >= 3, q % 3, f] for q, f in enumerate(v)]
                alts[tag] = v
            out.append(Multi(vals[i], alts))
    return out


class Multi:
    """model outputs of a case for which the model exists in several variants: `main` = the
    specification-conforming code (with every proposed repair), `alts[tag]` = the code without
    the repairs named by the letters of `tag` (see coq_terms)"""

    def __init__(self, main, alts):
        self.main, self.alts = main, alts

    def explain(self, observed):
        """smallest set of missing repairs whose model variant equals the observation, or None"""
        for tag in sorted(self.alts, key=lambda t: (len(t), t)):
            if self.alts[tag] == observed:
                return tag
        return None


# ------------------------------------------------------------------ generators

DGA = {"dna": "TCAG-NRYWSKMBDHV?", "rna": "UCAG-NRYWSKMBDHV?"}
VS = ("old", "new")
MS = ("dna", "rna")


def exhaustive_block(tier, widen=False):
    cases = []
    # every code x 64 codons x {old,new} x {plus,minus}
    for cid in IDS:
        for v in VS:
            for minus in (False, True):
                cases.append(dict(k="codontable", v=v, id=cid, minus=minus, block="codon-table"))
            cases.append(dict(k="codeinfo", v=v, id=cid, block="codon-table"))
        # old Sequence.get_translation costs ~3 ms per codon: all 15^3 codons for code 1 in the thorough tier only
        if tier == "thorough":
            cases.append(dict(k="degen_codons", id=cid, syms="ACGTRYSWKMBDHVN" if cid == 1 else "ACGTRYNS", block="degenerate-codons"))
        elif cid in (1, 2, 11):
            cases.append(dict(k="degen_codons", id=cid, syms="ACGTRYN" if cid == 1 else "AGTRYN", block="degenerate-codons"))
    # __getitem__: case, U, wrong lengths, non-canonical
    for cid in (IDS if tier == "thorough" else IDS[:4]):
        for v in VS:
            for codon in ("atg", "AUG", "uaa", "Tga", "NNN", "A-G", "---", "AT", "ATGA", "AYG", "agR", "ttt", "GGG"):
                cases.append(dict(k="getitem", v=v, id=cid, codon=codon, block="getitem"))
    # all short canonical sequences, all six frames, both objects
    L = 6 if tier == "thorough" else 4
    if widen:
        L = max(L, 5)
    for n in range(L + 1):
        for p in itertools.product("ACGT", repeat=n):
            s = "".join(p)
            for v in VS:
                if v == "new" or tier == "thorough" or n < L or p[0] == "A":   # quick: a quarter of the longest old-object cases
                    cases.append(dict(k="allframes", v=v, id=1, s=s, block="short-seqs"))
    for cid in ((2, 11, 4) if tier == "thorough" else (2,)):
        for n in range(4):
            for p in itertools.product("ACGT", repeat=n):
                s = "".join(p)
                cases.append(dict(k="allframes", v="new", id=cid, s=s, block="short-seqs"))
                cases.append(dict(k="sixframes", v="new", id=cid, m="dna", s=s, block="short-seqs"))
    # frame structure on every length 0..20 (position-revealing content), every code
    probe = "ATGGCCAAGTTTGACTGATAACCGTAGCATCG"
    for cid in IDS:
        for n in (range(0, 21) if cid in (1, 2) or tier == "thorough" else (9, 10, 11)):
            s = probe[:n]
            for v in VS:
                cases.append(dict(k="allframes", v=v, id=cid, s=s, block="all-lengths"))
            cases.append(dict(k="sixframes", v="new", id=cid, m="dna", s=s, block="all-lengths"))
            if n >= 1:
                cases.append(dict(k="sixframes", v="old", id=cid, m="dna", s=s, block="all-lengths"))
                cases.append(dict(k="sixframes", v="old", id=cid, m="rna", s=s.replace("T", "U"), block="all-lengths"))
    # dtype boundaries of the k-mer index array: 255 / 256 / 257 codons in every frame, both strands,
    # every entry point (finding C12-4); thorough: the uint16 -> uint32 boundary at 65536 codons
    unit = "ATGGCCAAGTTTGACTGGTATCCGTAC"   # 9 sense codons in every code's frame 0? (content is irrelevant to the oracle)
    for n in (range(764, 774) if tier == "thorough" else range(765, 772)):
        cases.append(dict(k="allframes", v="new", id=1, unit=unit, n=n, block="dtype-boundary"))
        if tier == "thorough" or n in (767, 768, 769):
            cases.append(dict(k="allframes", v="old", id=1, unit=unit, n=n, block="dtype-boundary"))
    for cid in ((2, 11) if tier == "thorough" else (2,)):
        for n in (767, 768, 770):
            cases.append(dict(k="allframes", v="new", id=cid, unit=unit, n=n, block="dtype-boundary"))
    for s0 in ("ATGAAACCCT", "ATGGGGTAACAT", "AAA", "ATGTAAC"):
        for cid in (1, 2):
            cases.append(dict(k="app_frames", id=cid, s=s0, allow_rc=False, block="all-lengths"))
            cases.append(dict(k="app_frames", id=cid, s=s0, allow_rc=True, block="all-lengths"))
    for n in (767, 768, 771):
        cases.append(dict(k="sixframes", v="new", id=1, m="dna", unit=unit, n=n, block="dtype-boundary"))
        cases.append(dict(k="sixframes", v="old", id=1, m="dna", unit=unit, n=n, block="dtype-boundary"))
        cases.append(dict(k="app_frames", id=1, unit=unit, n=n, block="dtype-boundary"))
        for minus in (False, True):
            cases.append(dict(k="translate_arr", id=1, unit=unit, n=n, start=0, minus=minus, block="dtype-boundary"))
    amb = (unit[:11] + "N" + unit[12:20] + "-" + unit[21:])
    cases.append(dict(k="allframes", v="new", id=1, unit=amb, n=770, block="dtype-boundary"))
    sense = "ATGGCCAAG"
    # the new-style entry points go through translate; the old ones do not depend on the dtype (one long case each)
    for ncod in (255, 256, 257):
        for tail in (("", "TAA", "TAAC") if tier == "thorough" or ncod == 256 else ("TAA",)):
            for kind in (1, 5):
                cases.append(dict(k="gettrans", kind=kind, id=1, useqs=[[sense, 3 * ncod, tail]], block="dtype-boundary"))
        cases.append(dict(k="gettrans", kind=3, id=1, useqs=[[sense, 3 * ncod, "TAA"], [sense, 9, ""]], block="dtype-boundary"))
        if tier == "thorough" or ncod == 256:
            for kind in (0, 6):
                cases.append(dict(k="gettrans", kind=kind, id=1, useqs=[[sense, 3 * ncod, "TAA"]], block="dtype-boundary"))
            cases.append(dict(k="gettrans", kind=2, id=1, useqs=[[sense, 3 * ncod, "TAA"], [sense, 9, ""]], block="dtype-boundary"))
            for kind in (4, 7):
                cases.append(dict(k="gettrans", kind=kind, id=1, useqs=[[sense, 3 * ncod, "TAA"], [sense, 3 * ncod, "AAA"]],
                                  block="dtype-boundary"))
    if tier == "thorough":
        for n in (3 * 65535, 3 * 65536, 3 * 65536 + 2):
            for v in VS:
                cases.append(dict(k="translate", v=v, id=1, unit=unit, n=n, start=0, minus=False, block="dtype-boundary"))
        # minus strand at the uint32 boundary: Coq's quadratic List.rev makes the model too slow here, so this case is
        # oracle-only (start 0, length 0 mod 3: the frame label of finding C12-1 coincides)
        cases.append(dict(k="translate", v="new", id=1, unit=unit, n=3 * 65536, start=0, minus=True, nomodel=True,
                          block="dtype-boundary"))
        cases.append(dict(k="allframes", v="new", id=1, unit=unit, n=30000, block="dtype-boundary"))
    # complement / rc on every printable symbol, every table
    for v in VS:
        for m in MS:
            if v == "old":   # never validates: one string with every printable symbol
                cases.append(dict(k="complement", v=v, m=m, s="".join(chr(o) for o in range(32, 127)), block="symbols"))
            for o in range(32, 127):
                if v == "new" or tier == "thorough":
                    cases.append(dict(k="complement", v=v, m=m, s=chr(o), block="symbols"))
            for ch in DGA[m]:
                cases.append(dict(k="rc2", v=v, m=m, s=ch + "A", block="symbols"))
                cases.append(dict(k="resolve", v=v, m=m, motif=ch, block="symbols"))
            cases.append(dict(k="seqrc", v=v, m=m, s=DGA[m], block="symbols"))
            cases.append(dict(k="seqrc", v=v, m=m, s=(DGA[m] * 60)[:1000], block="symbols"))
            # complement / rc / slices of sequences that are ALREADY views (pending reverse complement), every symbol
            basic = ["rc", "comp", [2, 13], [-11, -1]]
            for n_ops in (1, 2, 3):
                for ops in itertools.product(basic, repeat=n_ops):
                    if n_ops == 3 and tier != "thorough" and not (ops[0] == "rc" or ops[1] == "rc"):
                        continue
                    cases.append(dict(k="viewops", v=v, m=m, s=DGA[m], ops=list(ops), block="seq-views"))
            cases.append(dict(k="viewops", v=v, m=m, s=DGA[m], ops=["rc", "rc", "comp", "rc", [1, 9], "rc", "comp", "comp", [0, 40], "rc"],
                              block="seq-views"))
            cases.append(dict(k="rc2", v=v, m=m, s=(DGA[m][:4] * 70)[:257], block="symbols"))
            cases.append(dict(k="rc", v=v, m=m, s=DGA[m], block="symbols"))
            pairs = itertools.product(DGA[m], repeat=2)
            for a, b in pairs:
                if tier == "thorough" or (a in "RN?-A" and b in "YNB?-G"):
                    cases.append(dict(k="resolve", v=v, m=m, motif=a + b, block="symbols"))
            # every non-empty set of bases, both orders
            al = "ACG" + ("T" if m == "dna" else "U")
            for r in range(1, 5):
                for sub in itertools.combinations(al, r):
                    cases.append(dict(k="degen", v=v, m=m, symbols="".join(sub), block="symbols"))
                    cases.append(dict(k="degen", v=v, m=m, symbols="".join(reversed(sub)) + sub[0], block="symbols"))
            for sub in ("-", "?", "A-", "-?"):
                if v == "new" or sub in ("-", "?"):
                    cases.append(dict(k="degen", v=v, m=m, symbols=sub, block="symbols"))
    for m in MS:
        al = "ACG" + ("T" if m == "dna" else "U") + "-"
        for r in range(1, 6):
            for sub in itertools.combinations(al, r):
                cases.append(dict(k="what", m=m, motifs="".join(sub), block="symbols"))
    # stop handling: every sequence of <= 3 codons over {sense, stop, stop of other codes} x tails
    cod = ("AAA", "TAA", "TGA")
    for n in range(0, 4 if tier == "thorough" or widen else 3):
        for p in itertools.product(cod, repeat=n):
            for tail in ("", "C", "CC"):
                s = "".join(p) + tail
                for kind in (0, 1, 5, 6):
                    for cid in ((1, 2) if n <= 2 else (1,)):
                        cases.append(dict(k="gettrans", kind=kind, id=cid, seqs=[s], block="stops"))
    for a in ("AAATAA", "AAAAAA", "TAAAAA", "AAATA", "TGATAA"):
        for b in ("AAATAA", "CCCTGA", "AAACCC", "AAAC", "TAATGA"):
            for kind in (2, 3):
                cases.append(dict(k="gettrans", kind=kind, id=1, seqs=[a, b], block="stops"))
            if len(a) == len(b):
                for kind in (4, 7):
                    cases.append(dict(k="gettrans", kind=kind, id=1, seqs=[a, b], block="stops"))
    for rows in (["AAATAA---", "AAACCCTGA"], ["AAA---TAA", "AAACCCAAA"], ["AAATAA", "AAA---"], ["A-ATAA", "AAACCC"],
                 ["AAATGA", "AAATAA"], ["---", "AAA"], ["TAA", "AAA"], ["AAATGATAA", "AAAAAATAA"],
                 ["AAATGATAA", "AAA---TAA"], ["TAATAA"], ["AAATGATAA"]):
        for kind in (4, 7, 2):
            cases.append(dict(k="gettrans", kind=kind, id=1, seqs=rows, block="stops"))
    for seqs in (["AAATAA", "CCCGGG"], ["AAACCC", "CCCGGG"], ["AAATAA", "CCCTGA"], ["TAAAAA", "CCCGGG"], ["AAATGATAA", "CCCGGGAAA"],
                 ["AAA"], ["ATGAAATAA"]):
        for aligned in (False, True):
            for cid in (1, 2):
                cases.append(dict(k="app_translate_seqs", id=cid, seqs=seqs, aligned=aligned, block="stops"))
    for seqs in (["AATTAAATGTGA", "TATGACTAA"], ["ATGAAATAA", "CATGAAATAAC", "CCATGTAAAAA"], ["ATGAAACCCT", "TAAATG"], ["ATGAGATGA"]):
        for fr in (1, 2, 3):
            for cid in (1, 2):
                cases.append(dict(k="app_select", id=cid, seqs=seqs, frame=fr, block="stops"))
    for s in ("AAA---TAA", "AAATAA---", "A-ATAA", "AAA-", "---", "AAATAA-", "AAAT-A"):
        for kind in (0, 1):
            cases.append(dict(k="gettrans", kind=kind, id=1, seqs=[s], block="stops"))
    return cases


def rand_seq(rng, maxlen, alpha="ACGT", mode=None):
    n = rng.choice(list(range(0, 14)) + [rng.randint(14, maxlen) for _ in range(8)])
    mode = mode if mode is not None else rng.random()
    out = []
    for _ in range(n):
        r = rng.random()
        if mode < 0.6 or r < 0.8:
            out.append(rng.choice(alpha))
        elif mode < 0.8:
            out.append(rng.choice("NRYWSKMBDHV"))
        else:
            out.append(rng.choice("--?N" if mode < 0.9 else "-"))
    return "".join(out)


def rand_cds(rng, cid, gaps=False, ambig=False, ncod=None):
    """codon-structured: stops more likely at the end, sometimes inside, optional incomplete tail"""
    ncod = rng.randint(0, 8) if ncod is None else ncod
    aa = NCBI[cid][0]
    stops = [B1[i] + B2[i] + B3[i] for i in range(64) if aa[i] == "*"] or ["TAA"]
    out = []
    for i in range(ncod):
        r = rng.random()
        if r < 0.08:
            out.append(rng.choice(stops))
        elif gaps and r < 0.2:
            out.append(rng.choice(["---", "---", "A-G", "-AA", "TA-"]))
        elif ambig and r < 0.2:
            out.append(rng.choice(["AAN", "RAA", "TAR", "YGA", "AAY", "GAR", "RAY", "SAR", "MGN", "NNN", "TRA", "ATH", "WWW", "TGR"])
                       if rng.random() < 0.6 else "".join(rng.choice("ACGTRYSWKMBDHVN") for _ in range(3)))
        else:
            out.append("".join(rng.choice("ACGT") for _ in range(3)))
    if ncod and rng.random() < 0.45:
        out[-1] = rng.choice(stops + ["TAA", "TGA", "AGA"])
    tail = rng.choice(["", "", "", "A", "CG"])
    return "".join(out) + tail


def random_block(rng, n, maxlen):
    cases = []
    # random content around and beyond the 256-codon boundary (ambiguity symbols and gaps included)
    for i in range(max(6, n // 120)):
        ln = rng.choice([765, 766, 767, 768, 769, 770, 771, 772, 800, 1000, 1536, 2000])
        s = "".join(rng.choice("ACGT" if rng.random() < 0.97 or i % 2 == 0 else "NR-?Y") for _ in range(ln))
        kind = rng.choice(["allframes", "allframes", "sixframes", "translate", "gettrans"])
        cid = rng.choice(IDS)
        if kind == "allframes":
            cases.append(dict(k="allframes", v=rng.choice(VS) if is_canon(s) else "new", id=cid, s=s, block="random-long"))
        elif kind == "sixframes":
            cases.append(dict(k="sixframes", v="new", id=cid, m="dna", s=s, block="random-long"))
        elif kind == "translate":
            cases.append(dict(k="translate", v="new", id=cid, s=s, start=rng.choice([0, 1, 2, 3, 300]), minus=rng.random() < 0.5,
                              block="random-long"))
        else:
            cases.append(dict(k="gettrans", kind=rng.choice([1, 1, 3, 5, 0, 2]), id=cid, seqs=[s.replace("-", "A").replace("?", "C")],
                              block="random-long"))
    for _ in range(n):
        r = rng.random()
        cid = rng.choice(IDS)
        v = rng.choice(VS)
        m = rng.choice(MS)
        if r < 0.30:
            s = rand_seq(rng, maxlen)
            if v == "old" and rng.random() < 0.5:
                s = rand_seq(rng, maxlen, mode=0.0)
            cases.append(dict(k="allframes", v=v, id=cid, s=s, block="random"))
        elif r < 0.40:
            s = rand_seq(rng, maxlen)
            start = rng.choice([0, 1, 2, 0, 1, 2, 3, 4, 5, max(len(s) - 1, 0), len(s), len(s) + 2])
            cases.append(dict(k="translate", v=v, id=cid, s=s, start=start, minus=rng.random() < 0.5, block="random"))
        elif r < 0.50:
            if v == "old":
                al = "ACGT" if m == "dna" else "ACGU"
                s = rand_seq(rng, maxlen, alpha=al, mode=0.0)
                if len(s) < 1:
                    s = al
            else:
                m = "dna"
                s = rand_seq(rng, maxlen)
            cases.append(dict(k="sixframes", v=v, id=cid, m=m, s=s, block="random"))
        elif r < 0.55:
            s = rand_seq(rng, maxlen, mode=rng.choice([0.0, 0.0, 0.7, 0.95]))
            cases.append(dict(k="translate_arr", id=cid, s=s, start=rng.choice([0, 1, 2]), minus=rng.random() < 0.5, block="random"))
        elif r < 0.58:
            s = rand_seq(rng, maxlen, mode=0.0)
            if len(s) >= 3:
                cases.append(dict(k="app_frames", id=cid, s=s, allow_rc=rng.random() < 0.6, block="random"))
        elif r < 0.60:
            s = rand_seq(rng, maxlen, mode=0.0)
            if rng.random() < 0.5:
                s = rand_cds(rng, cid, ncod=rng.randint(1, 8))
            if rng.random() < 0.5:
                s = rc_spec(s)
            if len(s) >= 1:
                if rng.random() < 0.5:
                    cases.append(dict(k="best_frame", id=cid, s=s, allow_rc=rng.random() < 0.7, block="random"))
                else:
                    cases.append(dict(k="select_rc", id=cid, seqs=[s, rc_spec(s)][:rng.randint(1, 2)], block="random"))
        elif r < 0.625:
            nseq = rng.randint(1, 3)
            if rng.random() < 0.5:
                nc = rng.randint(1, 6)
                seqs = [rand_cds(rng, cid, ncod=nc)[:3 * nc] for _ in range(nseq)]
                cases.append(dict(k="app_translate_seqs", id=cid, seqs=seqs, aligned=rng.random() < 0.5, block="random"))
            else:
                seqs = [rng.choice(["", "A", "CG"]) + rand_cds(rng, cid, ncod=rng.randint(1, 6)) for _ in range(nseq)]
                cases.append(dict(k="app_select", id=cid, seqs=seqs, frame=rng.choice([1, 2, 3]), block="random"))
        elif r < 0.75:
            kind = rng.choice([0, 1, 2, 3, 4, 5, 6, 7])
            if kind in (0, 6):
                seqs = [rand_cds(rng, cid, gaps=rng.random() < 0.2, ambig=rng.random() < 0.4)]
            elif kind in (1, 5):
                seqs = [rand_cds(rng, cid, gaps=rng.random() < 0.2, ambig=rng.random() < 0.2)]
            elif kind in (2, 3):
                seqs = [rand_cds(rng, cid, ambig=rng.random() < 0.25) for _ in range(rng.randint(1, 3))]
            else:
                nc = rng.randint(1, 6)
                seqs = [rand_cds(rng, cid, gaps=rng.random() < 0.5, ambig=rng.random() < 0.25, ncod=nc) for _ in range(rng.randint(1, 3))]
                ln = min(len(s) for s in seqs)
                seqs = [s[:ln] for s in seqs]
            if all(seqs) or kind in (1, 5):
                cases.append(dict(k="gettrans", kind=kind, id=cid, seqs=seqs, block="random"))
        elif r < 0.92:
            al = DGA[m]
            s = "".join(rng.choice(al if rng.random() < 0.5 else al[:4]) for _ in range(rng.choice([0, 1, 2, 3, 5, 8, 13, 30])))
            if rng.random() < 0.1:
                s += rng.choice("XZ*acgu ")
            if rng.random() < 0.45 and s and all(ch in al for ch in s):
                ops = []
                for _ in range(rng.randint(1, 6)):
                    r2 = rng.random()
                    ops.append("rc" if r2 < 0.4 else "comp" if r2 < 0.75 else
                               sorted([rng.randint(-len(s) - 2, len(s) + 2), rng.randint(-len(s) - 2, len(s) + 2)]))
                cases.append(dict(k="viewops", v=v, m=m, s=s, ops=ops, block="random"))
                continue
            kk = rng.choice(["complement", "rc", "rc2", "seqrc"])
            if kk == "seqrc" and not all(ch in al for ch in s):
                kk = "rc"
            cases.append(dict(k=kk, v=v, m=m, s=s, block="random"))
        elif r < 0.96:
            al = DGA[m]
            motif = "".join(rng.choice(al) for _ in range(rng.choice([1, 2, 2, 3, 3, 4])))
            cases.append(dict(k="resolve", v=v, m=m, motif=motif, block="random"))
        else:
            al = DGA[m]
            if v == "new":
                syms = "".join(rng.choice(al) for _ in range(rng.randint(1, 5)))
                cases.append(dict(k="degen", v="new", m=m, symbols=syms, block="random"))
            else:
                syms = "".join(rng.choice(al[:5]) for _ in range(rng.randint(1, 5)))
                cases.append(dict(k="what", m=m, motifs=syms, block="random"))
    return cases


def planted_orf(rng, cid, frame, lmod3, ncod=None):
    """a sequence whose ONLY frame without an internal or terminal stop codon is `frame` (+1..+3 on the
    plus strand, -1..-3 on the reverse complement) and whose length is `lmod3` modulo 3; None if the
    code has no stop codon"""
    aa = NCBI[cid][0]
    words = [B1[i] + B2[i] + B3[i] for i in range(64)]
    sense = [w for w, x in zip(words, aa) if x != "*"]
    if len(sense) == 64:
        return None
    for _ in range(4000):
        k = ncod or rng.randint(18, 30)
        off = abs(frame) - 1
        body = "".join(rng.choice(sense) for _ in range(k))
        head = "".join(rng.choice("ACGT") for _ in range(off))
        tail_len = (lmod3 - (off + 3 * k)) % 3
        t = head + body + "".join(rng.choice("ACGT") for _ in range(tail_len))
        s = t if frame > 0 else rc_spec(t)
        fr = frames_spec(cid, s)
        want = (frame - 1) if frame > 0 else (2 - frame)
        if all(("*" in f) == (i != want) for i, f in enumerate(fr)) and all("*" in f[:-1] for i, f in enumerate(fr) if i != want):
            return s
    return None


def planted_block(rng, tier):
    """best_frame / select_translatable(allow_rc=True) / translate_frames / translate_seqs on sequences whose only
    open frame is each of the 6 frames x each length mod 3 (minus-strand offsets must be taken on rc(s))"""
    cases = []
    codes = (1, 4, 2, 11) if tier == "thorough" else (1, 4)
    reps = 3 if tier == "thorough" else 1
    for cid in codes:
        for frame in (1, 2, 3, -1, -2, -3):
            for lmod3 in (0, 1, 2):
                for _ in range(reps):
                    s = planted_orf(rng, cid, frame, lmod3)
                    if s is None:
                        continue
                    cases.append(dict(k="best_frame", id=cid, s=s, allow_rc=True, planted=frame, block="planted-frames"))
                    cases.append(dict(k="select_rc", id=cid, seqs=[s], planted=[frame], block="planted-frames"))
                    cases.append(dict(k="app_frames", id=cid, s=s, allow_rc=True, rc=True, block="planted-frames"))
                    cases.append(dict(k="app_frames", id=cid, s=s, allow_rc=True, block="planted-frames"))
                    if frame > 0:
                        cases.append(dict(k="best_frame", id=cid, s=s, allow_rc=False, planted=frame, block="planted-frames"))
                    if frame == -1 and lmod3 == 0:
                        cases.append(dict(k="app_translate_seqs", id=cid, seqs=[s], aligned=False, rc=True, block="planted-frames"))
                        cases.append(dict(k="app_translate_seqs", id=cid, seqs=[s, s], aligned=True, rc=True, block="planted-frames"))
        # several sequences with different planted frames in one collection
        seqs, fr = [], []
        for frame in (-2, 3, -3, 1, -1, 2):
            s = planted_orf(rng, cid, frame, rng.randint(0, 2))
            if s is not None:
                seqs.append(s)
                fr.append(frame)
        if seqs:
            cases.append(dict(k="select_rc", id=cid, seqs=seqs, planted=fr, block="planted-frames"))
    return cases


def spread_slow(cases):
    """the implementation shards are contiguous slices: distribute the slow cases evenly over them"""
    slow = [c for c in cases if c["k"] == "degen_codons" or c.get("n", 0) > HEAVY]
    rest = [c for c in cases if not (c["k"] == "degen_codons" or c.get("n", 0) > HEAVY)]
    if not slow:
        return rest
    step = max(1, len(rest) // len(slow))
    out = []
    for i, c in enumerate(rest):
        if i % step == 0 and slow:
            out.append(slow.pop())
        out.append(c)
    return out + slow


# ------------------------------------------------------------------ comparison

def strand_shape(c, bad_idx):
    """classifier of a failing translation: object, strand of the failing frames, length class"""
    c = expand(c)
    s = c.get("s", "")
    if c["k"] in ("translate", "translate_arr"):
        minus = bool(c["minus"])
    else:
        minus = all(i >= 3 for i in bad_idx) if bad_idx else False
    v = c.get("v", "old" if c["k"] == "app_frames" else "new")
    return f"translate:{v}:{'minus' if minus else 'plus'}:len%3{'==0' if len(s) % 3 == 0 else '!=0'}"


def classify(c, bad_idx=None):
    k = c["k"]
    if k == "getitem":
        return f"getitem:{c['v']}"
    if k == "degen_codons":
        return f"degenerate-codon:old-seq:include_stop={bad_idx[0] if bad_idx else ''}"
    if k == "codeinfo":
        names = ["lookup-by-name", "lookup-by-str-id", "name", "start-codons", "stop-codons", "sense-codons", "aa-to-codons",
                 "is_stop", "is_start" if c["v"] == "old" else "stop_codons"]
        return f"code-tables:{c['v']}:{names[bad_idx[0]] if bad_idx else ''}"
    if k == "codontable":
        return f"codon-table:{c['v']}:{'minus' if c['minus'] else 'plus'}"
    if k in ("allframes", "translate", "translate_arr", "sixframes", "app_frames"):
        return strand_shape(c, bad_idx)
    if k == "gettrans":
        return gettrans_key(c, bad_idx, None)
    if k in ("complement", "rc", "rc2", "seqrc", "resolve", "degen"):
        return f"{k}:{c['v']}:{c['m']}"
    if k == "viewops":
        i = bad_idx[0] if bad_idx else 0
        op = c["ops"][i] if i < len(c["ops"]) else "?"
        rev = False
        for o in c["ops"][:i]:
            rev = (not rev) if o == "rc" else False if o == "comp" else rev
        state = "reversed-view" if rev else "plain-view"
        return f"seq-view:{c['v']}:{c['m']}:{'slice' if isinstance(op, list) else op}-on-{state}"
    if k == "what":
        return f"what_ambiguity:old:{c['m']}"
    if k == "app_translate_seqs":
        return f"app.translate_seqs:{'alignment' if c['aligned'] else 'collection'}:trim={bad_idx[0] if bad_idx else ''}"
    if k == "app_select":
        return f"app.select_translatable:frame:trim={bad_idx[0] if bad_idx else ''}"
    if k in ("best_frame", "select_rc"):
        f = (c.get("planted") or 1) if k == "best_frame" else (c.get("planted") or [1])[0]
        name = "app.best_frame" if k == "best_frame" else "app.select_translatable:allow_rc"
        return f"{name}:{'minus' if f < 0 else 'plus'}:len%3{'==0' if len(c['s'] if k == 'best_frame' else c['seqs'][0]) % 3 == 0 else '!=0'}"
    return k


KEY_MINUS_LABEL = "new-gc:minus-strand-frame-label"
KIND_FAMILY = {0: "old-seq", 6: "old-seq", 1: "new-seq", 5: "new-seq", 2: "old-collection", 3: "new-collection",
               4: "old-alignment", 7: "old-alignment"}


def _effectively_empty(cid, s):
    d = s.replace("-", "").replace("?", "")
    if not d:
        return True
    return len(d) == 3 and is_canon(d) and cid in NCBI and ncbi_lookup(cid, d) == "*"


def gettrans_key(c, bad_idx, ir):
    c = expand(c)
    kind = c["kind"]
    seqs = [rc_spec(s) if kind in (5, 6) and is_canon(s) else s for s in c["seqs"]]
    if any(_effectively_empty(c["id"], s) for s in seqs) and ir is not None and bad_idx and \
            all(isinstance(ir[i], Exc) and ir[i].code == 5 for i in bad_idx):
        return f"get_translation:{'new' if kind in NEW_KINDS else 'old'}:empty-after-trim"
    combo = ""
    if bad_idx:
        ok, inc, trim = BOOLS3[bad_idx[0]]
        combo = f":include_stop={int(inc)},trim_stop={int(trim)}"
    return f"get_translation:{KIND_FAMILY[kind]}{combo}"


def finding_key(c, bad_idx, ir):
    """key of a behaviour that equals the pre-repair model"""
    if c["k"] == "gettrans":
        return gettrans_key(c, bad_idx, ir)
    return KEY_MINUS_LABEL


def differing(ir, ref):
    if isinstance(ir, list) and isinstance(ref, list) and len(ir) == len(ref):
        return [i for i, (a, b) in enumerate(zip(ir, ref)) if a != b and not unmodelled(b)]
    return [0]


def entries(x):
    """flatten a bundled observation into comparable entries"""
    return x if isinstance(x, list) else [x]


def same(impl_e, exp_e):
    if exp_e == REJECT:
        return isinstance(impl_e, Exc)
    return impl_e == exp_e


def unmodelled(x):
    if isinstance(x, Exc) and x.code == 0:
        return True
    if isinstance(x, list):
        return any(unmodelled(e) for e in x)
    return False


def norm_sixframes(c, x):
    return x


KEY_DTYPE = "new-gc:kmer-index-dtype"


def dtype_pattern(c, exp, ir):
    """closed form of the pre-repair index dtype (C12-4) for one translate call, used where the Coq model
    is too slow: w bytes per codon reach bytes.translate, the w-1 zero bytes translate like index 0
    (TTT on the plus strand, its reverse complement AAA on the minus strand)"""
    if not (isinstance(exp, str) and isinstance(ir, str) and exp):
        return False
    ncod = len(exp)
    w = 1 if ncod < 2 ** 8 else 2 if ncod < 2 ** 16 else 4
    pad = ncbi_lookup(c["id"], "AAA" if c["minus"] else "TTT") * (w - 1)
    return w > 1 and ir == "".join((pad + a) if c["minus"] else (a + pad) for a in exp)


def keys_for(c, tag, bad_idx, ir):
    """violation keys of an observation that equals the model variant `tag` (one key per missing repair)"""
    out = []
    for letter in tag:
        if letter == "m":
            out.append(KEY_MINUS_LABEL)
        elif letter == "d":
            out.append(KEY_DTYPE)
        elif letter == "x":
            out.append(gettrans_key(c, bad_idx, ir))
    return out


def clip(x, n=400):
    """replay files keep long observations readable"""
    if isinstance(x, str) and len(x) > n:
        return x[:n] + f"...<{len(x)} chars>"
    if isinstance(x, list):
        return [clip(e, n) for e in x]
    if isinstance(x, dict):
        return {k: clip(v, n) for k, v in x.items()}
    return x


def compare(rep, cases, impl, model):
    """returns (disagreements, n_spec_violations, n_unmodelled, {key: observations equal to a pre-repair model variant})"""
    dis, nvio, nun = [], 0, 0
    npinned: dict = {}
    for c0, ir, mr in zip(cases, impl, model):
        c = expand(c0)
        ir = from_jsonable(ir)
        exp = oracle(c)
        if isinstance(ir, dict) and "exc" in ir:
            nvio += 1
            rep.violation(f"raised:{c['k']}:{c.get('v', '')}",
                          dict(case=c0, observed_impl=ir,
                               broken="the implementation runner crashed or hung on a valid input"))
            continue
        bad = []
        if exp is not None:
            if isinstance(exp, list) and c["k"] not in ("resolve",):
                ie = ir if isinstance(ir, list) else None
                if ie is None or len(ie) != len(exp):
                    bad = [0]
                else:
                    bad = [i for i, (a, b) in enumerate(zip(ie, exp)) if b is not None and not same(a, b)]
            else:
                bad = [] if same(ir, exp) else [0]
        main = mr.main if isinstance(mr, Multi) else mr
        tag = mr.explain(ir) if isinstance(mr, Multi) else None
        alt = mr.alts[tag] if tag else None

        def report(keys, bad_idx, broken):
            for key in keys:
                rep.violation(key, clip(dict(case=c0, expected_by_spec=jsonable(exp), observed_impl=jsonable(ir),
                                             model_output=jsonable(main), pre_repair_model_output=jsonable(alt),
                                             equals_pre_repair_model=tag, failing_entries=bad_idx, broken=broken)))

        if bad:
            nvio += 1
            # a known defect pattern: the conforming model agrees with the specification on this
            # input and the implementation equals the model without some of the repairs
            main_ok = not [i for i, (a, b) in enumerate(zip(entries(main), entries(exp)))
                           if b is not None and not same(a, b)] if main is not None else False
            if tag and main_ok:
                keys = keys_for(c, tag, bad, ir)
                for key in keys:
                    npinned[key] = npinned.get(key, 0) + 1
            elif main is None and c.get("nomodel") and c["k"] == "translate" and dtype_pattern(c, exp, ir):
                tag, keys = "d (closed form)", [KEY_DTYPE]
                npinned[KEY_DTYPE] = npinned.get(KEY_DTYPE, 0) + 1
            else:
                tag, alt = None, None
                keys = [gettrans_key(c, bad, ir) if c["k"] == "gettrans" else classify(c, bad)]
            report(keys, bad, "observation differs from the NCBI-table / IUPAC specification oracle")
            continue
        if main is None:
            continue  # model not available in this run
        if unmodelled(main):
            nun += 1
        if not differing(ir, main) if isinstance(ir, list) else ir == main:
            continue
        if tag:
            bad2 = differing(ir, main)
            keys = keys_for(c, tag, bad2, ir)
            for key in keys:
                npinned[key] = npinned.get(key, 0) + 1
            nvio += 1
            report(keys, bad2, "the implementation equals a pre-repair model variant (a known defect pattern) and differs "
                               "from the conforming model; the oracle is silent on this input (non-canonical symbols)")
            continue
        dis.append(clip(dict(key=classify(c), case=c0, observed_impl=jsonable(ir), model_output=jsonable(main),
                             expected_by_spec=jsonable(exp))))
    return dis, nvio, nun, npinned


def nontrivial(c) -> bool:
    c = expand(c)
    k = c["k"]
    if k in ("allframes", "sixframes", "app_frames"):
        return len(c["s"]) >= 3
    if k in ("translate", "translate_arr"):
        return len(c["s"]) - c["start"] >= 3
    if k in ("codontable", "codeinfo", "degen_codons"):
        return True
    if k == "getitem":
        return len(c["codon"]) == 3
    if k in ("app_translate_seqs", "app_select", "select_rc"):
        return any(len(s) >= 3 for s in c["seqs"])
    if k == "best_frame":
        return True
    if k == "gettrans":
        return any("TAA" in s or "TGA" in s or "TAG" in s or "AGA" in s for s in c["seqs"])
    if k in ("complement", "rc", "rc2", "seqrc", "viewops"):
        return any(ch in "ACGTURYKMBDHV" for ch in c["s"])
    if k == "resolve":
        return any(ch in "NRYWSKMBDHV?" for ch in c["motif"])
    if k in ("what", "degen"):
        return len(set(c.get("motifs", c.get("symbols", "")))) >= 2
    return False


# ------------------------------------------------------------------ the check

def run(tier: str, seed: int) -> int:
    rep = core.Report(PROP, tier, seed)
    rng = random.Random(seed * 7919 + 12)
    terr = run_translator()
    if terr:
        pr = {"obligations": len(core.property_theorems(PROP)), "discharged": 0, "theorems": {},
              "problems": ["translator gc_tables.py failed closed: " + terr]}
    else:
        pr = core.proof_stage(PROP, COQ_TARGETS)
    core.proof_coverage(rep, pr, "make theories/Properties/C12.vo && coqc gen/assum_C12.v (Print Assumptions)", [
        "translator harness/translators/gc_tables.py: dumps the live table objects of the current source (old/new genetic "
        "codes, the 66-byte converter tables, IUPAC ambiguity/complement tables) as Gallina literals; fail-closed on any "
        "structural surprise",
        "spec/ncbi_genetic_codes.json: frozen copy of the NCBI genetic-code tables (the external specification)",
        "numpy byte translate / k-mer index kernels (numba) are modelled as integer arithmetic, compared, not verified; "
        "the dtype choice of KmerAlphabet.to_indices and ndarray.tobytes() are modelled (translate_w, little-endian items, "
        "as on the x86-64 host the check runs on)",
    ])
    rep.assumptions += [
        "spec-level theorems speak about canonical sequences (symbols T,C,A,G; U is mapped by __getitem__) and frames "
        "start >= 0; gap/ambiguity codons are covered by the finite theorem incomplete_codon and by correspondence",
        "old GeneticCode.translate raises ValueError when start >= len(s) > 0 (explicit rejection, outside the theorems)",
        "include_stop=True together with trim_stop=True is contradictory: the old objects keep the stop, the new ones trim "
        "it; both are accepted (each implementation's documented choice)",
    ]
    proof_broken = bool(pr["problems"])

    nrand = 700 if tier == "quick" else 9000
    maxlen = 60 if tier == "quick" else 300
    if proof_broken:
        nrand *= 3  # widened search
    cases = spread_slow(exhaustive_block(tier, widen=proof_broken) + planted_block(rng, tier) + random_block(rng, nrand, maxlen))
    impl = core.run_impl_sharded("c12_impl.py", cases)
    model = None
    try:
        if proof_broken and terr is None:
            core.make(COQ_TARGETS)
        model = run_model(cases)
    except core.CheckError as e:
        if not proof_broken:
            raise
        rep.notes.append(f"model not runnable: {str(e)[:300]}")
    if model is None:
        model = [None] * len(cases)
    dis, nvio, nun, frame_vios = compare(rep, cases, impl, model)

    if frame_vios:
        rep.notes.append("observations equal to a pre-repair model variant (minus-strand labels C12-1, index dtype C12-4, "
                         "unrepaired stop handling C12-2/3), by key: "
                         + json.dumps(frame_vios, sort_keys=True))
    nt = {json.dumps(c, sort_keys=True) for c in cases if nontrivial(c)}
    dist: dict = {}
    for c in cases:
        key = f"{c['block']}:{c['k']}"
        dist[key] = dist.get(key, 0) + 1
    lens = [len(expand(c)["s"]) for c in cases if "s" in c or "unit" in c]
    sample_i = next((i for i, c in enumerate(cases) if c["k"] == "allframes" and len(c.get("s", "")) == 10), 0)
    rep.coverage.update(
        evaluations=len(cases), distinct_nontrivial=len(nt),
        rule="one evaluation = one call (or fixed bundle: 64 codons / 6 frames / 8 stop-option combinations) of an entry "
             "point; non-trivial = translation of >= 1 complete codon, a codon-table row, a stop-handling request on a "
             "sequence containing a stop codon, complement/rc of a string with a non-self-complementary symbol, "
             "resolution of a degenerate symbol, encoding of >= 2 distinct symbols",
        samples=[dict(case=cases[sample_i], impl=impl[sample_i], oracle=jsonable(oracle(cases[sample_i])))],
        input_distribution=dict(cases=len(cases), by_block_and_kind=dist, codes=len(IDS),
                                seq_len_max=max(lens) if lens else 0,
                                codons_256_or_more=sum(1 for x in lens if x >= LONG),
                                codons_65536_or_more=sum(1 for x in lens if x >= 3 * 65536),
                                seq_len_mod3=[sum(1 for x in lens if x % 3 == r) for r in range(3)]),
        model_impl_disagreements=len(dis), spec_violations=nvio, outside_model=nun,
        translator_tie="ok" if terr is None else f"broken: {terr}",
        exhaustive=False,
        exhaustive_scope="every code x 64 codons x old/new x plus/minus; every DNA string of length <= "
                         f"{6 if tier == 'thorough' else 4} x 6 frames x old/new; lengths 764..773 (254..257 codons per frame) x "
                         "6 frames x every translation entry point (thorough: 65535/65536 codons); every printable symbol x 4 "
                         "complement tables; every chain of <= 2 (thorough: 3) operations rc / complement / [a:b] on sequence objects "
                         "holding all 17 symbols x old/new x DNA/RNA (complement and rc of views that are already reversed / sliced); "
                         "every IUPAC symbol / base set x old/new x DNA/RNA; random block sampled",
        partial=["collection-level get_translation (old and new) is proved row-wise for canonical rows of any length; old "
                 "Alignment/ArrayAlignment is proved for rows of codon-aligned triplets (codons of bases or '---') of equal "
                 "length; rows with partial-gap or ambiguity triplets inside an alignment and app.translate_seqs are compared "
                 "(model and/or oracle on every case), not proved; best_frame(require_stop=False) and select_translatable "
                 "(frame from best_frame) are modelled and proved for one canonical sequence of >= 3 symbols "
                 "(best_frame_is_first_open_frame, select_translatable_keeps_the_frame); select_translatable(frame=k) and "
                 "require_stop=True are compared with the oracle only",
                 "old Sequence.get_translation on degenerate codons is proved per codon on a finite domain (every code x 1063 "
                 "codons: all codons over ACGTRYN and all codons with one IUPAC symbol next to two bases; the standard code: all "
                 "15^3; partial-gap triplets: all) -- the full 15^3 x 27 enumeration is true but too slow for coqchk; the other "
                 "codons are checked on the implementation against the same set-based oracle (thorough: all 15^3 for code 1, 8^3 "
                 "for every other code); lifting to whole sequences with such codons is by correspondence",
                 "the all-length theorems describe the code WITH the repairs C12-1..4 (translate_w true true = translate for "
                 "every length, translate_with_dtype_repair_all_lengths); the code without them is characterised by "
                 "translate_pinned_minus_frame (C12-1), translate_dtype_pinned_guarded: right below 768 symbols, and "
                 "translate_dtype_pinned_refuted: wrong at 256 codons (C12-4), and the *_pinned_refuted theorems; the check "
                 "evaluates the model variants without each repair and reports every observation that equals one of them "
                 "under that finding's key",
                 "dtype boundary at 2^32 codons (uint64 items) is modelled but cannot be exercised",
                 "the fall-back steps of old degenerate_from_seq are outside the model"],
    )
    core.conclude(rep, pr, f"{len(cases)} cases against the NCBI/IUPAC oracle", dis[:5],
                  "Model.GeneticCodeRun.run_case vs cogent3 genetic_code/new_genetic_code/moltype/new_moltype", tier, PROP)
    return rep.finish("proof")


def replay(path: str) -> int:
    d = json.loads(open(path).read())
    if "case" not in d:
        print("replay names a broken obligation, not an input:", d.get("broken"))
        return 1
    c = d["case"]
    impl = from_jsonable(core.run_impl_lines("c12_impl.py", [c])[0])
    exp = oracle(c)
    print("case  :", json.dumps(c))
    print("impl  :", clip(jsonable(impl)))
    print("oracle:", clip(jsonable(exp)))
    if exp is None:
        try:
            mr = run_model([c])[0]
        except core.CheckError as e:
            print("model not runnable:", str(e)[:200])
            return 1
        main = mr.main if isinstance(mr, Multi) else mr
        print("model :", clip(jsonable(main)))
        if isinstance(mr, Multi):
            print("equals model variant without repairs:", mr.explain(impl))
        bad = bool(differing(impl, main)) if isinstance(impl, list) else impl != main
    elif isinstance(exp, list) and isinstance(impl, list) and len(exp) == len(impl) and c["k"] != "resolve":
        bad = any(b is not None and not same(a, b) for a, b in zip(impl, exp))
    else:
        bad = not same(impl, exp)
    print("REPRODUCED" if bad else "not reproduced")
    return 1 if bad else 0
