"""C06 implementation runner: drives the real cogent3 writers, parsers and loaders.

case kinds (JSON dicts)
  round : {kind, fmt, w|None, recs:[[name,seq]..], moltype, aligned, suffix, new_type}
  parse : {kind, which 0..6, text}
  split : {kind, text}
  iter  : {kind, n, text}
"""
import bz2
import gzip
import os
import pathlib
import tempfile
import warnings

from vcheck.val import exc_code

warnings.filterwarnings("ignore")

TMP = [None]
COUNT = [0]


def _dir():
    COUNT[0] += 1
    d = os.path.join(TMP[0], str(COUNT[0]))
    os.mkdir(d)
    return d


def _err(stage, e):
    return {"stage": stage, "exc": exc_code(e), "msg": f"{type(e).__name__}: {e}"[:200]}


def _recs(coll):
    d = coll.to_dict()
    return [[str(n), str(d[n])] for n in coll.names]


def run_round(c):
    import cogent3
    from cogent3.format.alignment import FORMATTERS

    fmt, w, suffix = c["fmt"], c.get("w"), c.get("suffix", "")
    data = {n: s for n, s in c["recs"]}
    mk = cogent3.make_aligned_seqs if c["aligned"] else cogent3.make_unaligned_seqs
    ld = cogent3.load_aligned_seqs if c["aligned"] else cogent3.load_unaligned_seqs
    kw = {"new_type": True} if c.get("new_type") else {}
    out = {}
    try:
        if c.get("degap"):
            # an alignment with an all-gap row, degapped: a collection holding a zero-length sequence
            coll = cogent3.make_aligned_seqs(data, moltype=c["moltype"]).degap()
        else:
            coll = mk(data, moltype=c["moltype"], **kw)
        out["made"] = _recs(coll)
    except Exception as e:  # noqa: BLE001
        out["err"] = _err("make", e)
        return out
    d = _dir()
    path = os.path.join(d, c.get("stem", "x") + "." + c.get("ext", fmt) + suffix)
    wkw = {} if w is None else {"block_size": w}
    try:
        from cogent3.util.io import get_format_suffixes

        out["gfs"] = list(get_format_suffixes(path))
    except Exception as e:  # noqa: BLE001
        out["gfs"] = {"exc": exc_code(e), "msg": f"{type(e).__name__}: {e}"[:120]}
    try:
        coll.write(path, **wkw)
    except Exception as e:  # noqa: BLE001
        out["err"] = _err("write", e)
        return out
    try:
        raw = open(path, "rb").read()
        if suffix == ".gz":
            raw = gzip.decompress(raw)
        elif suffix == ".bz2":
            raw = bz2.decompress(raw)
        out["text"] = raw.decode("utf8")
    except Exception as e:  # noqa: BLE001
        # the file on disk is not what its name says (e.g. not compressed although named .gz)
        out["err"] = _err("readback", e)
        return out
    # the same writer through other containers: plain dict of str, dict of Sequence objects, to_fasta/to_phylip
    names = [n for n, _ in out["made"]]
    dstr = {n: s for n, s in out["made"]}
    routes = {}
    try:
        if fmt == "json":
            raise StopIteration
        routes["dict_str"] = FORMATTERS[fmt](dstr, block_size=(60 if w is None else w), order=list(names))
        if fmt == "fasta":
            routes["dict_seqobj"] = FORMATTERS[fmt]({n: coll.get_seq(n) if not c["aligned"] else coll.get_gapped_seq(n)
                                                     for n in names}, block_size=(60 if w is None else w),
                                                    order=list(names))
            routes["tuple_order"] = FORMATTERS[fmt](dstr, block_size=(60 if w is None else w), order=tuple(names))
            routes["to_fasta"] = coll.to_fasta(block_size=(60 if w is None else w))
        if fmt == "phylip" and w is None:
            routes["to_phylip"] = coll.to_phylip()
    except StopIteration:
        pass
    except Exception as e:  # noqa: BLE001
        out["routes_err"] = f"{type(e).__name__}: {e}"[:200]
    out["routes_differ"] = sorted(k for k, v in routes.items() if v != out["text"])
    try:
        back = ld(path, moltype=c["moltype"], **kw)
        out["loaded"] = _recs(back)
    except Exception as e:  # noqa: BLE001
        out["err"] = _err("load", e)
    return out


def _obs(fn):
    try:
        return [[str(n), s.decode("utf8") if isinstance(s, bytes) else str(s)] for n, s in fn()]
    except Exception as e:  # noqa: BLE001
        return {"exc": exc_code(e), "msg": f"{type(e).__name__}: {e}"[:120]}


def run_parse(c):
    from cogent3.parse.fasta import MinimalFastaParser, MinimalGdeParser, iter_fasta_records
    from cogent3.parse.paml import PamlParser
    from cogent3.parse.phylip import MinimalPhylipParser
    from cogent3.parse.sequence import PARSERS

    which, text = c["which"], c["text"]
    d = _dir()
    ext = {0: "fasta", 1: "fasta", 2: "fasta", 3: "gde", 4: "gde", 5: "phylip", 6: "paml"}[which]
    path = os.path.join(d, "p." + ext)
    with open(path, "wb") as f:
        f.write(text.encode("utf8"))
    lines = text.splitlines()
    routes = {}
    if which in (0, 1):
        strict = which == 0
        routes["lines"] = _obs(lambda: list(MinimalFastaParser(lines, strict=strict))) if lines else []
        if text:
            routes["path"] = _obs(lambda: list(MinimalFastaParser(path, strict=strict)))
    elif which == 2:
        routes["bytes"] = _obs(lambda: list(iter_fasta_records(text.encode("utf8"))))
        routes["path"] = _obs(lambda: list(iter_fasta_records(path)))
        routes["registry"] = _obs(lambda: list(PARSERS["fasta"](pathlib.Path(path))))
    elif which in (3, 4):
        strict = which == 3
        routes["lines"] = _obs(lambda: list(MinimalGdeParser(lines, strict=strict))) if lines else []
        if strict and text:
            routes["registry"] = _obs(lambda: list(PARSERS["gde"](pathlib.Path(path))))
    elif which == 5:
        routes["lines"] = _obs(lambda: list(MinimalPhylipParser(lines)))
        routes["registry"] = _obs(lambda: list(PARSERS["phylip"](pathlib.Path(path))))
    else:
        routes["lines"] = _obs(lambda: list(PamlParser(lines)))
        routes["registry"] = _obs(lambda: list(PARSERS["paml"](pathlib.Path(path))))

    def canon(r):
        return {"exc": r["exc"]} if isinstance(r, dict) else r

    vals = [canon(v) for v in routes.values()]
    first = vals[0]
    return {"result": first, "routes_differ": sorted(k for k, v in routes.items() if canon(v) != first),
            "routes": {k: canon(v) for k, v in routes.items()} if any(v != first for v in vals) else None}


def _write_text(path, text, suffix):
    """write `text` as the (possibly compressed) content of `path`; deterministic bytes (no mtime / file name)"""
    raw = text.encode("utf8")
    if suffix == ".gz":
        raw = gzip.compress(raw, mtime=0)
    elif suffix == ".bz2":
        raw = bz2.compress(raw)
    with open(path, "wb") as f:
        f.write(raw)
    return len(raw)


def run_iter(c):
    from cogent3.util.io import iter_splitlines

    d = _dir()
    suffix = c.get("suffix", "")
    path = os.path.join(d, "t.txt" + suffix)
    csize = _write_text(path, c["text"], suffix)
    return {"result": list(iter_splitlines(path, chunk_size=c["n"])), "csize": csize}


def run_stream(c):
    """a line-based format written by the real writer into a (compressed) file, read back through
    parser(iter_splitlines(path, chunk_size=n)) and through load_*_seqs (LineBasedParser, default chunk size)"""
    import cogent3
    from cogent3.parse.fasta import MinimalGdeParser
    from cogent3.parse.paml import PamlParser
    from cogent3.parse.phylip import MinimalPhylipParser
    from cogent3.util.io import iter_splitlines

    fmt, suffix, n = c["fmt"], c.get("suffix", ""), c["n"]
    aligned = len({len(s) for _, s in c["recs"]}) == 1
    mk = cogent3.make_aligned_seqs if aligned else cogent3.make_unaligned_seqs
    ld = cogent3.load_aligned_seqs if aligned else cogent3.load_unaligned_seqs
    out = {}
    try:
        coll = mk({a: b for a, b in c["recs"]}, moltype=c["moltype"])
        out["made"] = _recs(coll)
    except Exception as e:  # noqa: BLE001
        out["err"] = _err("make", e)
        return out
    d = _dir()
    path = os.path.join(d, "x." + fmt + suffix)
    try:
        coll.write(path, **({} if c.get("w") is None else {"block_size": c["w"]}))
    except Exception as e:  # noqa: BLE001
        out["err"] = _err("write", e)
        return out
    out["csize"] = os.path.getsize(path)
    raw = open(path, "rb").read()
    raw = gzip.decompress(raw) if suffix == ".gz" else bz2.decompress(raw) if suffix == ".bz2" else raw
    out["text"] = raw.decode("utf8")
    if not isinstance(n, int):
        # chunk size given relative to the size on disk / the decoded length: ["disk", d] | ["len", d] | ["mid"]
        disk, dl = out["csize"], len(out["text"])
        n = {"disk": disk, "len": dl, "mid": (disk + dl) // 2}[n[0]] + (n[1] if len(n) > 1 else 0)
        n = max(1, n)
    out["n_used"] = n
    parser = {"gde": MinimalGdeParser, "phylip": MinimalPhylipParser, "paml": PamlParser}[fmt]
    out["result"] = _obs(lambda: list(parser(iter_splitlines(path, chunk_size=n))))
    if isinstance(out["result"], dict):
        out["result"] = {"exc": out["result"]["exc"], "msg": out["result"].get("msg")}
    try:
        out["loaded"] = _recs(ld(path, moltype=c["moltype"]))
    except Exception as e:  # noqa: BLE001
        out["err"] = _err("load", e)
    return out


def run_big(c):
    """one large file: > 1 MB compressed, so that LineBasedParser's default chunk_size (1_000_000) is smaller
    than the file on disk; only a digest of the result is returned"""
    import random

    import cogent3

    rng = random.Random(c["seed"])
    al = "ACDEFGHIKLMNPQRSTVWY"
    L = c["nchar"] // 2
    data = {"s1": "".join(rng.choices(al, k=L)), "s2": "".join(rng.choices(al, k=L))}
    coll = cogent3.make_aligned_seqs(data, moltype="protein")
    d = _dir()
    path = os.path.join(d, "big." + c["fmt"] + c["suffix"])
    coll.write(path)
    csize = os.path.getsize(path)
    out = {"csize": csize, "dsize": 2 * L}
    try:
        back = cogent3.load_aligned_seqs(path, moltype="protein")
        got = back.to_dict()
        exp_names = ["s1", "s2"]
        out["names_ok"] = list(back.names) == exp_names
        out["lens"] = [len(got.get(k, "")) for k in exp_names]
        out["equal"] = out["names_ok"] and all(got.get(k) == data[k] for k in exp_names)
    except Exception as e:  # noqa: BLE001
        out["err"] = _err("load", e)
        out["equal"] = False
    return out


def _gbrecs(it):
    return [[None if a is None else str(a), None if b is None else str(b)] for a, b in it]


def run_gb(c):
    """GenBank readers on one text: which 0 MinimalGenbankParser(lines) | 1 minimal_parser(bytes) |
    3 rich_parser(path, moltype) | 4 load_unaligned_seqs(path) (registry) ; gbstream: MinimalGenbankParser over
    iter_splitlines(path, chunk_size=n) of a (compressed) file"""
    import cogent3
    from cogent3.parse.genbank import MinimalGenbankParser, minimal_parser, rich_parser
    from cogent3.util.io import iter_splitlines

    text, which = c["text"], c.get("which", 0)
    d = _dir()
    suffix = c.get("suffix", "")
    path = os.path.join(d, "x.gb" + suffix)
    csize = _write_text(path, text, suffix)

    def obs(fn):
        try:
            return fn()
        except Exception as e:  # noqa: BLE001
            return {"exc": exc_code(e), "msg": f"{type(e).__name__}: {e}"[:120]}

    if c["kind"] == "gbstream":
        n = c["n"]
        if not isinstance(n, int):
            n = max(1, {"disk": csize, "len": len(text), "mid": (csize + len(text)) // 2}[n[0]] + (n[1] if len(n) > 1 else 0))
        return {"result": obs(lambda: _gbrecs((r.get("locus"), r.get("sequence"))
                                                for r in MinimalGenbankParser(iter_splitlines(path, chunk_size=n)))),
                "csize": csize, "n_used": n}
    if which == 0:
        res = obs(lambda: _gbrecs((r.get("locus"), r.get("sequence")) for r in MinimalGenbankParser(text.splitlines())))
    elif which == 1:
        res = obs(lambda: _gbrecs((r.get("locus"), r.get("sequence")) for r in minimal_parser(text.encode("utf8"))))
        res2 = obs(lambda: _gbrecs((r.get("locus"), r.get("sequence")) for r in minimal_parser(path)))
        if res2 != res and not (isinstance(res, dict) and isinstance(res2, dict) and res["exc"] == res2["exc"]):
            return {"result": res, "routes_differ": ["path"], "routes": {"path": res2}}
    elif which == 3:
        res = obs(lambda: _gbrecs((n, s) for n, s in rich_parser(path, moltype=c.get("moltype", "dna"))))
    else:
        def ld():
            coll = cogent3.load_unaligned_seqs(path, moltype=c.get("moltype", "dna"))
            dd = coll.to_dict()
            return [[str(n), str(dd[n])] for n in coll.names]
        res = obs(ld)
    return {"result": res, "csize": csize}


def _run_case(c):
    k = c["kind"]
    if k == "round":
        return run_round(c)
    if k == "parse":
        return run_parse(c)
    if k == "split":
        return {"result": c["text"].splitlines()}
    if k == "iter":
        return run_iter(c)
    if k == "stream":
        return run_stream(c)
    if k == "big":
        return run_big(c)
    if k in ("gb", "gbstream"):
        return run_gb(c)
    if k == "suffixes":
        import pathlib

        from cogent3.util.io import get_format_suffixes

        a = list(get_format_suffixes(c["name"]))
        b = list(get_format_suffixes(pathlib.Path(c["name"])))
        return {"result": a, "routes_differ": [] if a == b else ["Path"]}
    if k == "registry":
        from cogent3.format.alignment import FORMATTERS
        from cogent3.parse.sequence import PARSERS, XML_PARSERS

        return {"parsers": sorted(PARSERS), "xml_parsers": sorted(XML_PARSERS), "formatters": sorted(FORMATTERS)}
    raise ValueError(k)


def run_case(c):
    import shutil

    before = COUNT[0]
    try:
        return _run_case(c)
    finally:
        for i in range(before + 1, COUNT[0] + 1):
            shutil.rmtree(os.path.join(TMP[0], str(i)), ignore_errors=True)


def main():
    from vcheck.implutil import serve

    with tempfile.TemporaryDirectory(prefix="c06_") as tmp:
        TMP[0] = tmp
        # warm-up outside the per-case time limit: imports and first-use initialisation of cogent3
        try:
            _run_case(dict(kind="round", fmt="fasta", w=None, recs=[["w", "ACGT"]], moltype="dna", aligned=True,
                           suffix="", new_type=False))
            _run_case(dict(kind="round", fmt="paml", w=None, recs=[["w", "ACGT"]], moltype="dna", aligned=False,
                           suffix=".gz", new_type=True))
        except Exception:  # noqa: BLE001
            pass
        serve(run_case, limit=120)


if __name__ == "__main__":
    main()
