"""C19 child: run apply_to(loader + step + writer) over the fasta files of an
input directory into a directory data store; the middle step kills the process
when it is handed its (kill_at+1)-th input (serial execution: exactly kill_at
records have then been written).
argv: JSON {"indir","outdir","kill_at": int (-1 = never), "log": path, "bad": [ids producing NotCompleted],
"idfn": bool (inputs are named sNN_raw.fasta and apply_to gets a user id_from_source mapping them to sNN)}"""
import json
import os
import sys

cfg = json.loads(sys.argv[1])

from cogent3 import get_app, open_data_store  # noqa: E402
from cogent3.app.composable import NotCompleted, define_app  # noqa: E402
from cogent3.app.typing import SeqsCollectionType  # noqa: E402

COUNT = [0]


@define_app
class marker:
    def __init__(self, kill_at, log, bad):
        self.kill_at, self.log, self.bad = kill_at, log, set(bad)

    def main(self, seqs: SeqsCollectionType) -> SeqsCollectionType:
        if COUNT[0] == self.kill_at:
            os._exit(77)
        COUNT[0] += 1
        src = os.path.basename(str(seqs.info.source)).replace("_raw", "")
        with open(self.log, "a") as f:
            f.write(src + "\n")
        if src.split(".")[0] in self.bad:
            return NotCompleted("FAIL", "marker", "scripted failure", source=seqs)
        return seqs


ins = open_data_store(cfg["indir"], suffix="fasta", mode="r")
out = open_data_store(cfg["outdir"], suffix="fasta", mode="a")
loader = get_app("load_unaligned", format="fasta", moltype="dna")
writer = get_app("write_seqs", out, format="fasta")
app = loader + marker(cfg["kill_at"], cfg["log"], cfg.get("bad", [])) + writer
if cfg.get("idfn"):
    from pathlib import Path

    def idfn(src):
        # a user supplied identifier function: input sNN_raw.fasta is the record sNN
        name = Path(str(getattr(src, "unique_id", getattr(src, "source", src)))).name
        # deliberately NOT idempotent on record names: 's03_raw.fasta' -> 's03', but 's03.fasta' -> 's03.fasta'
        return name.split("_")[0]

    app.apply_to(ins, id_from_source=idfn, logger=False, show_progress=False)
else:
    app.apply_to(ins, logger=False, show_progress=False)
print(json.dumps({"done": True}))
