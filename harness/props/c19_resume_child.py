"""C19 resume server: imports cogent3 ONCE, then for every job runs, each in a
forked process of its own,
  * an uninterrupted apply_to(loader + marker + writer) into a reference store,
  * the same run into a second store, the process dying (os._exit) when the
    marker stage is handed its (k+1)-th input (serial execution: exactly k
    inputs have been dealt with: completed or not-completed record written),
  * a re-run on that second store opened in append mode.
The marker stage turns the inputs listed in `bad` into NotCompleted results.

argv: JSON {"jobs": [{"n": int, "k": int, "bad": [i, ...], "mode1": "w"|"a", "store": "dir"|"sqlite",
                      "idfn": bool, "pre": int, "names": [str, ...] (optional), "suffix": str (optional)}, ...]}
   names: the identifiers of the n inputs (default s00, s01, ...); suffix: file suffix of inputs and records (default fasta)
   idfn: inputs are named sNN_raw.fasta and apply_to gets a user id_from_source mapping them to sNN
   pre : number of records an EARLIER run had already completed in both stores
stdout: one JSON line per job."""
import json
import os
import shutil
import sqlite3
import sys
import tempfile
import time
import traceback

cfg = json.loads(sys.argv[1])

from cogent3 import get_app, open_data_store  # noqa: E402
from cogent3.app.composable import NotCompleted, define_app  # noqa: E402
from cogent3.app.typing import SeqsCollectionType  # noqa: E402

COUNT = [0]


@define_app
class marker:
    def __init__(self, kill_at, log, bad):
        self.kill_at, self.log, self.bad = kill_at, log, set(bad)

    def main(self, seqs: SeqsCollectionType) -> SeqsCollectionType:
        if COUNT[0] == self.kill_at:
            os._exit(77)
        COUNT[0] += 1
        src = os.path.basename(str(seqs.info.source)).replace("_raw", "")
        src = src.rsplit(".", 1)[0]
        with open(self.log, "a") as f:
            f.write(src + "\n")
        if src in self.bad:
            return NotCompleted("FAIL", "marker", "scripted failure", source=seqs)
        return seqs


def idfn(src):
    from pathlib import Path

    # a user supplied identifier function: input sNN_raw.fasta is the record sNN
    name = Path(str(getattr(src, "unique_id", getattr(src, "source", src)))).name
    # deliberately NOT idempotent on record names: 's03_raw.fasta' -> 's03', but 's03.fasta' -> 's03.fasta'
    return name.split("_")[0]


def apply(indir, outpath, mode, kill_at, log, bad, use_idfn, suffix="fasta"):
    ins = open_data_store(indir, suffix=suffix, mode="r")
    kw = {} if outpath.endswith(".sqlitedb") else {"suffix": suffix}
    out = open_data_store(outpath, mode=mode, **kw)
    loader = get_app("load_unaligned", format="fasta", moltype="dna")
    writer = get_app("write_seqs", out, format="fasta")
    app = loader + marker(kill_at, log, bad) + writer
    if use_idfn:
        app.apply_to(ins, id_from_source=idfn, logger=False, show_progress=False)
    else:
        app.apply_to(ins, logger=False, show_progress=False)
    if hasattr(out, "close"):
        out.close()


def forked(fn, *args):
    """run fn(*args) in a forked process; returns (exit code, error text)"""
    errfile = tempfile.mktemp(prefix="c19r_err_")
    pid = os.fork()
    if pid == 0:
        try:
            COUNT[0] = 0
            try:
                fn(*args)
            except BaseException:  # noqa: BLE001
                with open(errfile, "w") as f:
                    f.write(traceback.format_exc()[-1500:])
                os._exit(3)
            os._exit(0)
        finally:
            os._exit(70)
    t0 = time.time()
    rc = None
    while time.time() - t0 < 240:
        done, status = os.waitpid(pid, os.WNOHANG)
        if done:
            rc = os.waitstatus_to_exitcode(status)
            break
        time.sleep(0.003)
    if rc is None:
        os.kill(pid, 9)
        os.waitpid(pid, 0)
        rc = 124
    err = None
    if os.path.exists(errfile):
        err = open(errfile).read()
        os.remove(errfile)
    return rc, err


def snapshot(path):
    """{record name: text}: completed records, not-completed records, md5 side files; logs excluded"""
    snap = {}
    if path.endswith(".sqlitedb"):
        if not os.path.exists(path):
            return snap
        db = sqlite3.connect(path)
        try:
            for rid, data, done, md5 in db.execute("SELECT record_id, data, is_completed, md5 FROM results"):
                if isinstance(data, bytes):
                    data = data.decode("latin1")
                key = str(rid) if done else f"not_completed/{rid}"
                n = 1
                while key in snap:  # duplicated rows stay visible
                    n += 1
                    key = f"{key}#{n}"
                snap[key] = str(data)
                snap[f"md5/{key}"] = str(md5)
        finally:
            db.close()
        return snap
    for root, _, files in os.walk(path):
        for fn in files:
            p = os.path.join(root, fn)
            rel = os.path.relpath(p, path)
            if rel.startswith("logs"):
                continue
            with open(p, "rb") as f:
                snap[rel] = f.read().decode("latin1")
    return snap


def read_log(p):
    return open(p).read().split() if os.path.exists(p) else []


def make_inputs(d, names, use_idfn, suffix):
    os.makedirs(d)
    for i, name in enumerate(names):
        with open(os.path.join(d, f"{name}{'_raw' if use_idfn else ''}.{suffix}"), "w") as f:
            f.write(f">a\nACGT{'A' * i}\n>b\nGGCC{'T' * i}\n")


def stamps(path):
    """identity of every COMPLETED record as stored: a record that is written again gets a different stamp
    (directory store: inode + mtime in ns of the member file; sqlite store: rowid + log id of the row)"""
    st = {}
    if path.endswith(".sqlitedb"):
        if not os.path.exists(path):
            return st
        db = sqlite3.connect(path)
        try:
            for rowid, rid_, log_id, done in db.execute("SELECT rowid, record_id, log_id, is_completed FROM results"):
                if done:
                    st.setdefault(str(rid_), []).append([rowid, log_id])
        finally:
            db.close()
        return st
    if os.path.isdir(path):
        for fn in os.listdir(path):
            p = os.path.join(path, fn)
            if os.path.isfile(p):
                x = os.stat(p)
                st[fn] = [[x.st_ino, x.st_mtime_ns]]
    return st


def one(job):
    n, k, bad, mode1, store, use_idfn, pre = job["n"], job["k"], job.get("bad", []), job.get("mode1", "a"), \
        job.get("store", "dir"), job.get("idfn", False), job.get("pre", 0)
    names = job.get("names") or [f"s{i:02d}" for i in range(n)]
    suffix = job.get("suffix", "fasta")
    bad = [names[i] for i in bad]
    base = tempfile.mkdtemp(prefix="c19r_")
    try:
        ind = os.path.join(base, "in")
        make_inputs(ind, names, use_idfn, suffix)
        ext = ".sqlitedb" if store == "sqlite" else ""
        ref, out = os.path.join(base, "ref" + ext), os.path.join(base, "out" + ext)
        L = lambda name: os.path.join(base, name)  # noqa: E731
        res = dict(job=job, machinery_error=None)
        # uninterrupted reference (after the same earlier partial run, if any)
        if pre:
            forked(apply, ind, ref, mode1, pre, L("ref0.log"), bad, use_idfn, suffix)
        rc, err = forked(apply, ind, ref, "a" if pre else mode1, -1, L("ref.log"), bad, use_idfn, suffix)
        if rc != 0:
            res["machinery_error"] = f"uninterrupted run failed rc={rc}: {err}"
            return res
        if pre:
            forked(apply, ind, out, mode1, pre, L("out0.log"), bad, use_idfn, suffix)
        rc1, err1 = forked(apply, ind, out, "a" if pre else mode1, k, L("out1.log"), bad, use_idfn, suffix)
        if rc1 not in (0, 77):
            res["machinery_error"] = f"interrupted run failed rc={rc1}: {err1}"
            return res
        after_kill = snapshot(out)
        stamps_before = stamps(out)
        time.sleep(0.002)    # a rewrite within the same timer tick must still change the mtime
        rc2, err2 = forked(apply, ind, out, "a", -1, L("out2.log"), bad, use_idfn, suffix)
        res.update(killed=(rc1 == 77), after_kill=sorted(after_kill), first_run=read_log(L("out1.log")),
                   processed_resume=read_log(L("out2.log")), order=read_log(L("ref0.log")) + read_log(L("ref.log")),
                   final=snapshot(out), uninterrupted=snapshot(ref), stamps_before=stamps_before, stamps_after=stamps(out),
                   resume_error=(None if rc2 == 0 else f"rc={rc2}: {err2}"))
        return res
    finally:
        shutil.rmtree(base, ignore_errors=True)


for job in cfg["jobs"]:
    sys.stdout.write(json.dumps(one(job)) + "\n")
    sys.stdout.flush()
