"""C09 — Tree transformations preserve tips, topology and path lengths.

Stage P: Properties/C09.v (re-rooting / sorting / sub-tree / prune / repaired
unrooted preserve every tip-to-tip path length; distance axioms; the current
unrooted() refuted).  Stage C: the real PhyloNode methods vs the Coq model
(vm_compute) on every small tree shape x every operation and on random trees /
operation chains.  Stage S: a plain-Python oracle that computes tip sets, path
lengths and splits from the edge list of the input and of the returned tree."""
from __future__ import annotations

import itertools
import json
import random

from vcheck import core
from vcheck.val import Exc, cbool, from_jsonable, jsonable, zlit, zstr

PROP = "C09"
COQ_TARGETS = ["theories/Model/TreeRun.vo"]
TIE = "Model.TreeRun.run_case vs cogent3.core.tree.PhyloNode"

# ------------------------------------------------------------------ trees
# a tree is [name, len|None, [children]] ; lengths are integers (the implementation gets len/scale)


def compositions(n, minparts=2):
    """ordered compositions of n into >= minparts positive parts"""
    def rec(n, k):
        if k == 1:
            yield (n,)
            return
        for first in range(1, n - k + 2):
            for rest in rec(n - first, k - 1):
                yield (first,) + rest
    for k in range(minparts, n + 1):
        yield from rec(n, k)


def shapes(n, ordered=True):
    """all tree shapes with n tips, every internal node with >= 2 children; a shape is a nested tuple, () = tip"""
    if n == 1:
        return [()]
    out = []
    for comp in compositions(n):
        if not ordered and list(comp) != sorted(comp, reverse=True):
            continue
        for parts in itertools.product(*[shapes(k, ordered) for k in comp]):
            out.append(tuple(parts))
    return out


def label(shape, lens, tipnames=None, unary_at=None):
    """attach names (tips a,b,..; internal n1,n2,.. in preorder) and lengths (drawn from the iterator `lens`)"""
    tipc = itertools.count()
    intc = itertools.count(1)
    nodec = itertools.count()

    def rec(sh, is_root):
        k = next(nodec)
        ln = None if is_root else next(lens)
        if sh == ():
            i = next(tipc)
            nm = tipnames[i] if tipnames else chr(97 + i) if i < 26 else f"t{i}"
            node = [nm, ln, []]
        else:
            nm = "root" if is_root else f"n{next(intc)}"
            node = [nm, ln, [rec(c, False) for c in sh]]
        if unary_at is not None and k == unary_at and not is_root:
            # put a single-child node above this one
            node = [f"u{k}", next(lens), [node]]
        return node

    return rec(shape, True)


def all_nodes(t, depth=0, parent=None):
    yield t, depth, parent
    for c in t[2]:
        yield from all_nodes(c, depth + 1, t)


def tip_names(t):
    return [n[0] for n, _, _ in all_nodes(t) if not n[2]]


def node_names(t):
    return [n[0] for n, _, _ in all_nodes(t)]


# ------------------------------------------------------------------ oracle (plain Python; independent of model and code)

def graph(t):
    """undirected weighted adjacency of the tree; node ids are preorder numbers"""
    adj = {}
    tips = {}
    cnt = itertools.count()

    def rec(node, parent_id):
        i = next(cnt)
        adj.setdefault(i, [])
        if parent_id is not None:
            adj[i].append((parent_id, node[1]))
            adj[parent_id].append((i, node[1]))
        if not node[2]:
            tips.setdefault(node[0], []).append(i)
        for c in node[2]:
            rec(c, i)

    rec(t, None)
    return adj, tips


def oracle_dists(t):
    """{(a,b): path length} over all ordered tip pairs; None if a length on some path is None"""
    adj, tips = graph(t)
    out = {}
    for a, ids in tips.items():
        src = ids[0]
        dist = {src: 0}
        stack = [src]
        while stack:
            u = stack.pop()
            for v, w in adj[u]:
                if v not in dist:
                    dist[v] = None if (dist[u] is None or w is None) else dist[u] + w
                    stack.append(v)
        for b, idb in tips.items():
            if b != a:
                out[(a, b)] = dist[idb[0]]
    return out


def close(x, y):
    if x is None or y is None:
        return x is y
    return abs(x - y) <= 1e-9


def oracle_splits(t, keep=None):
    """non-trivial bipartitions of the (kept) tip set induced by the edges"""
    alltips = set(tip_names(t))
    if keep is not None:
        alltips &= set(keep)
    out = set()

    def rec(node):
        below = {node[0]} if not node[2] else set()
        for c in node[2]:
            below |= rec(c)
        side = below & alltips
        other = alltips - side
        if len(side) >= 2 and len(other) >= 2:
            out.add(frozenset([frozenset(side), frozenset(other)]))
        return below

    rec(t)
    return out


def in_scope(t, strict=True, allow_zero=False):
    """the trees the property quantifies over: distinct printable tip names, positive lengths on every edge,
    every internal node (root included) with >= 2 children.  strict=False (inputs of later steps of a chain, which
    are results of earlier transformations): single-child nodes below the root are tolerated."""
    tn = tip_names(t)
    if len(set(tn)) != len(tn) or None in tn:
        return False
    for n, d, _ in all_nodes(t):
        if d > 0 and (n[1] is None or n[1] < 0 or (n[1] == 0 and not allow_zero)):
            return False
        if n[2] and len(n[2]) < 2 and (strict or d == 0):
            return False
    return True


def retained_tips(t, op):
    if op["op"] == "remove_deleted":
        dead = set(op["names"])
        keep = set()

        def rec0(node, gone):
            g = gone or node[0] in dead
            if not node[2] and not g:
                keep.add(node[0])
            for c in node[2]:
                rec0(c, g)

        for c in t[2]:
            rec0(c, False)
        return keep
    if op["op"] != "sub_tree":
        return set(tip_names(t))
    names = set(op["names"])
    keep = set()

    def rec(node, sel):
        s = sel or (node[0] in names and (not op["tipsonly"] or not node[2]))
        if not node[2] and s:
            keep.add(node[0])
        for c in node[2]:
            rec(c, s)

    rec(t, False)
    return keep


INPLACE = {"prune", "remove_deleted"}
PRESERVING = {"rooted_at", "rooted_with_tip", "unrooted", "unrooted_deepcopy", "sub_tree", "sorted", "prune", "copy",
              "deepcopy", "midpoint", "bifurcating", "multifurcating", "newick_rt", "json_rt", "dist", "warm", "remove_deleted"}
IDENTITY = {"copy", "deepcopy", "newick_rt", "json_rt", "dist", "warm"}
NEWICK_SPECIAL = set("[]'\"(),:;")


def is_punct_name(nm):
    return isinstance(nm, str) and len(nm) == 1 and nm in "()[],:;"


PYSPACE = set(" \t\n\r\x0b\x0c\x1c\x1d\x1e\x1f")
QUOTE_CHARS = set("[]'\"(),:;_")


def name_ok_for_roundtrip(nm, op):
    """names the round trips are required to give back unchanged: the computable guards of the Coq theorems
    (NewickProofs.rt_ok, NewickMoreProofs.rt_ok_nu / rt_ok_json) on one name.  A name consisting of one punctuation
    character is claimed too (the parser must not silently read something else)."""
    if not isinstance(nm, str) or not nm or nm.startswith("'") or "\n" in nm:
        return False
    quoted = bool(set(nm) & QUOTE_CHARS)
    o = op["op"]
    if o == "json_rt":
        if nm == "root":
            return False  # edge attributes are keyed by name: a second "root" takes the root's parameters
        return quoted or " " in nm or (nm[0] not in PYSPACE and nm[-1] not in PYSPACE)
    if o == "newick_rt" and not op.get("unmunge"):
        # written unquoted: blanks become underscores and stay underscores
        return quoted or (" " not in nm and nm[0] not in PYSPACE and nm[-1] not in PYSPACE)
    # written unquoted: white space other than blank at either end is stripped by the reader
    return quoted or all(c == " " or c not in PYSPACE for c in (nm[0], nm[-1]))


def canon_order(t):
    """the tree up to the order of children (the property speaks about tip sets, topology and lengths; the order the
    implementation produces is pinned by the model correspondence instead)"""
    kids = sorted((canon_order(c) for c in t[2]), key=lambda x: json.dumps(x, sort_keys=True))
    return [t[0], t[1], kids]


def shape_class(t):
    k = len(t[2])
    return "root1" if k == 1 else "root2" if k == 2 else "root3+"


def oracle_step(t, op, st, strict):
    bad = oracle_step0(t, op, st, strict)
    if bad and "edge" in node_names(t)[1:]:
        hit = [b for b in bad if b[0].split(":")[0] in ("tips", "identity", "splits", "dist", "raised")]
        if hit:
            # one coarse key: the TreeBuilder treats the literal name "edge" as already used and renames the node
            rest = [b for b in bad if b not in hit]
            return rest + [("renamed:node-called-edge", f"{op['op']}: {hit[0][1]}", hit[0][2], hit[0][3])]
    if bad and any(n in (None, "") for n in node_names(t)[1:]) and any(isinstance(n, str) and n.startswith("edge.") for n in node_names(t)):
        hit = [b for b in bad if b[0].split(":")[0] in ("tips", "identity", "splits", "dist")]
        if hit:
            # an unnamed node is created (and named edge.k[.j]) before a node that really carries that name, which is then renamed
            rest = [b for b in bad if b not in hit]
            return rest + [("renamed:name-taken-by-generated-name", f"{op['op']}: {hit[0][1]}", hit[0][2], hit[0][3])]
    return bad


def oracle_step0(t, op, st, strict):
    """violations of the property text by one step: input tree t, operation op, observed step record st.
    returns list of (key, what, expected, observed)"""
    bad = []
    o = op["op"]
    # inputs of later steps may carry the zero-length edges bifurcating() adds (not for get_sub_tree, whose merging of
    # single-child nodes drops a zero sum: outside "positive branch lengths")
    if o not in PRESERVING or not in_scope(t, strict and o != "prune", allow_zero=(not strict and o != "sub_tree")):
        return bad
    sc = shape_class(t)
    if o not in INPLACE and st.get("mut_recv"):
        bad.append((f"mutated:{o}:{sc}", "the tree the operation was called on changed", "unchanged", "changed"))
    res = st.get("res")
    if res is None:
        return bad
    roundtrip = o in ("newick_rt", "json_rt")
    names_ok = all(name_ok_for_roundtrip(n, op) for n in node_names(t)[1:]) and len(set(node_names(t))) == len(node_names(t))
    if roundtrip and not names_ok:
        return bad
    if roundtrip:
        # the writers' weak spots get ONE coarse key each
        sub = oracle_step0(t, dict(op, op="copy"), dict(st, mut_recv=False), strict)
        punct_only = any(is_punct_name(n) for n in node_names(t)[1:])
        special = any(set(n) & NEWICK_SPECIAL for n in node_names(t)[1:])
        if isinstance(res, dict):
            if punct_only and o == "newick_rt":
                return bad  # rejected with an error: tolerated for labels that are spelled like a punctuation token
            sub = [("raised", "a valid request raised", "a tree", st.get("msg"))]
        if not sub:
            return bad
        if punct_only and o == "newick_rt":
            return bad + [("silent:newick_rt:punctuation-only-name", "a label spelled like a punctuation token was silently read back as "
                           "something else: " + sub[0][1], t, res)]
        if o == "json_rt" and special:
            return bad + [("json_rt:names-with-newick-punctuation", "JSON round trip of a tree whose names contain newick punctuation: "
                           + sub[0][1], t, res if isinstance(res, list) else st.get("msg"))]
        return bad + [(f"{k.split(':')[0]}:{o}:{sc}", w, e, ob) for k, w, e, ob in sub]
    if isinstance(res, dict):  # raised
        legit = False
        if o == "rooted_at":
            nd = [n for n, _, _ in all_nodes(t) if n[0] == op["name"]]
            legit = not nd or not nd[0][2]
        if o == "rooted_with_tip":
            legit = op["name"] not in tip_names(t)
        if o == "sub_tree":
            keep = retained_tips(t, op)
            legit = len(keep) < 2 or any(n not in node_names(t) for n in op["names"])
        if not legit:
            bad.append((f"raised:{o}:{sc}", "a valid request raised", "a tree", st.get("msg")))
        return bad
    keep = retained_tips(t, op)
    if o == "remove_deleted" and not keep:
        return bad  # everything deleted: the bare root is left
    rt = tip_names(res)
    if sorted(map(str, rt)) != sorted(keep):
        bad.append((f"tips:{o}:{sc}", "tip set of the result", sorted(keep), sorted(map(str, rt))))
        return bad
    d0 = oracle_dists(t)
    d1 = oracle_dists(res)
    diffs = [(a, b, d0[(a, b)], d1.get((a, b))) for (a, b) in d0
             if a in keep and b in keep and a < b and not close(d0[(a, b)], d1.get((a, b)))]
    if diffs:
        bad.append((f"dist:{o}:{sc}", "tip-to-tip path lengths (a, b, before, after)", None, diffs[:6]))
    if isinstance(st.get("dists"), list) and all(v is not None for v in d1.values()):
        names = tip_names(res)
        exp = [d1[(a, b)] for i, a in enumerate(names) for b in names[i + 1:]]
        if len(exp) != len(st["dists"]) or not all(close(x, y) for x, y in zip(exp, st["dists"])):
            bad.append((f"get_distances:{o}:{sc}", "get_distances() of the result vs path lengths of the result", exp[:10], st["dists"][:10]))
    if o in ("bifurcating", "multifurcating"):
        if not oracle_splits(t, keep) <= oracle_splits(res):
            bad.append((f"splits:{o}:{sc}", "resolving polytomies must keep every split", None, None))
    else:
        s0, s1 = oracle_splits(t, keep), oracle_splits(res)
        if s0 != s1:
            bad.append((f"splits:{o}:{sc}", "unrooted topology (non-trivial splits) among retained tips",
                        sorted(sorted(map(sorted, x)) for x in s0), sorted(sorted(map(sorted, x)) for x in s1)))
    if o in IDENTITY and names_ok and t[0] == "root" and canon_order(res) != canon_order(t):
        bad.append((f"identity:{o}:{sc}", "round trip / copy must give back the same tree", t, res))
    return bad


BUILDER_OPS = {"rooted_at", "rooted_with_tip", "unrooted_deepcopy", "midpoint", "parse", "newick_rt", "json_rt"}


def names_step(t, op, st):
    """operations that build their result through ONE TreeBuilder hand out unique node names: when the names present in the
    input are distinct (unnamed nodes allowed) and no node below the root is called 'root', the result has no repeated name"""
    o = op["op"]
    res = st.get("res")
    if o not in BUILDER_OPS or not isinstance(res, list):
        return []
    if o != "parse":
        names = [n for n in node_names(t) if n not in (None, "")]
        if len(set(names)) != len(names) or "root" in node_names(t)[1:]:
            return []
        if o in ("newick_rt", "json_rt") and len(names) != len(node_names(t)):
            return []  # unnamed nodes cannot be written (C10: tree:PhyloNode:json:node-names)
    rn = node_names(res)
    dup = sorted({n for n in rn if rn.count(n) > 1 and not (o == "parse" and n == "root")}, key=str)
    if dup:
        return [(f"names:{o}:duplicate", "two nodes of the result carry the same name", "unique node names", dup)]
    return []


def oracle_check(case, ir):
    """all violations over the steps of a chain"""
    bad = []
    trees = {-1: case["tree"]}
    cur = case["tree"]
    for k, (op, st) in enumerate(zip(case["ops"], ir["steps"])):
        if op["op"] == "tree_distance":
            if "val" in st:
                bad += treedist_check(case, st, cur, k)
            continue
        bad += oracle_step(cur, op, st, strict=(k == 0))
        bad += names_step(cur, op, st)
        # a tree other than the receiver changed: the new trees share state with the trees they were made from
        for j in st.get("others_changed", []):
            if j in trees and in_scope(trees[j], strict=(j == -1)):
                bad.append((f"aliased:{op['op']}", "an in-place edit of a derived tree changed the tree it was derived from "
                            f"(tree produced by step {j}, -1 = the input)", "unchanged", "changed"))
        if isinstance(st.get("res"), list):
            cur = st["res"]
            trees[k] = cur
        if bad:
            break
    return bad


# ------------------------------------------------------------------ rendering for Coq

def coq_tree(t):
    ln = "None" if t[1] is None else f"(Some {zlit(t[1])})"
    return f"(Node {zstr(t[0])} {ln} [" + ";".join(coq_tree(c) for c in t[2]) + "])"


def coq_names(ns):
    return "[" + ";".join(zstr(n) for n in ns) + "]"


def coq_op(o, fx, fxm=False, fxj=False):
    k = o["op"]
    if k == "rooted_at":
        return f"ORootedAt {zstr(o['name'])}"
    if k == "rooted_with_tip":
        return f"ORootedWithTip {zstr(o['name'])}"
    if k == "unrooted":
        return f"OUnrooted {cbool(fx)}"
    if k == "unrooted_deepcopy":
        return "OUnrootedDeepcopy"
    if k == "sub_tree":
        return f"OSubTree {cbool(fx)} {coq_names(o['names'])} {cbool(o['im'])} {cbool(o['kr'])} {cbool(o['tipsonly'])}"
    if k == "sorted":
        return f"OSorted {coq_names(o.get('order') or [])}"
    if k == "prune":
        return "OPrune"
    if k in ("copy", "deepcopy"):
        return "OCopy"
    if k == "newick":
        return f"ONewick {cbool(o['esc'])} {cbool(o['with_len'])} {cbool(o['semicolon'])}"
    if k == "newick_rt":
        return f"ONewickRT {cbool(o['unmunge'])}"
    if k == "parse":
        return f"OParse {zstr(o['text'])} {cbool(o['unmunge'])}"
    if k == "json_rt":
        return f"OJsonRT {cbool(fxj)}"
    if k == "dist":
        return "ODist"
    if k == "midpoint":
        return f"OMidpoint {cbool(fxm)}"
    if k == "bifurcating":
        return "OBifurcating"
    if k == "tree_distance":
        if o["other"] == "self_fresh":
            return "OTreeDistSelf"
        return f"OTreeDistRF {coq_tree(o['_orig'] if o['other'] == 'orig' else o['other'])}"
    if k == "warm":
        return "ODist"
    if k == "remove_deleted":
        return f"ORemoveDeleted {coq_names(o['names'])}"
    return None


def modelled(case, variant):
    for o in case["ops"]:
        if coq_op(dict(o, _orig=case["tree"]), False) is None:
            return False
        if o["op"] == "tree_distance" and o is not case["ops"][-1]:
            return False
        if o["op"] in ("unrooted", "sub_tree") and variant.get("unrooted") not in ("v0", "fixed"):
            return False
        if o["op"] == "midpoint" and variant.get("midpoint") not in ("v0", "fixed"):
            return False
    if case.get("scale", 1) != 1 and any(o["op"] in ("newick", "parse") for o in case["ops"]):
        return False
    if variant.get("json") != "fixed" and any(o["op"] == "json_rt" for o in case["ops"]) and any(
            "[" in n or "]" in n for n in node_names(case["tree"]) if isinstance(n, str)):
        return False  # unescaped brackets become newick comments, which the model does not cover
    if variant.get("edge_name") == "fixed":
        # the model's registry (like the pinned TreeBuilder) starts with "edge" taken; identical behaviour unless a node is literally called "edge"
        if "edge" in node_names(case["tree"]) or any(o["op"] == "parse" and "edge" in o["text"].replace("edge.", "") for o in case["ops"]):
            return False
    if variant.get("labels") == "fixed" and any(o["op"] in ("newick_rt", "json_rt", "parse") for o in case["ops"]):
        # the model's parser (like the pinned one) cannot tell a label spelled like a punctuation token from the token
        if any(is_punct_name(n) or (isinstance(n, str) and n.startswith("'"))
               for n in node_names(case["tree"])) or any(o["op"] == "parse" and "'" in o["text"] for o in case["ops"]):
            return False
    return True


def coq_case(case, variant):
    fx = variant.get("unrooted") == "fixed"
    fxm = variant.get("midpoint") == "fixed"
    fxj = variant.get("json") == "fixed"
    ops = [dict(o, _orig=case["tree"]) if o["op"] == "tree_distance" else o for o in case["ops"]]
    return f"({coq_tree(case['tree'])}, [" + ";".join(coq_op(o, fx, fxm, fxj) for o in ops) + "])"


def model_view(mr):
    """model observation -> comparable dict"""
    if isinstance(mr, Exc):
        return {"exc": mr.code}
    if isinstance(mr, str):
        return {"text": mr}

    def tree(v):
        return [v[0], v[1], [tree(c) for c in v[2]]]

    if len(mr) == 3:  # tree_distance "rf": [d12, d21, d11], each an int or Exc
        return {"val": [{"exc": x.code} if isinstance(x, Exc) else x for x in mr]}
    if len(mr) == 2:  # a final root_at_midpoint: (observation of the result, receiver afterwards)
        out = model_view(mr[0])
        out["recv_after"] = tree(mr[1])
        return out
    return {"res": tree(mr[0]), "dists": mr[1], "pathlen": mr[2], "tips": mr[3], "splits": mr[4]}


def model_splits(mv):
    """Coq `splits` output (one side per split) -> the oracle's representation (set of unordered pairs of frozensets)"""
    alltips = frozenset(mv["tips"])
    return {frozenset([frozenset(c), alltips - frozenset(c)]) for c in mv["splits"]}


def scaled(x, f):
    if x is None:
        return None
    y = x * f
    return int(round(y)) if abs(y - round(y)) < 1e-9 else y


def scale_tree(t, f):
    """implementation dump -> the model's units (x f) and conventions (no name = empty name)"""
    return ["" if t[0] is None else t[0], scaled(t[1], f), [scale_tree(c, f) for c in t[2]]]


# ------------------------------------------------------------------ generators

def ops_for(t, rng, full=True):
    tips = tip_names(t)
    names = node_names(t)
    ops = []
    for n in names:
        ops.append([dict(op="rooted_at", name=n)])
    for n in tips + (["root"] if full else []):
        ops.append([dict(op="rooted_with_tip", name=n)])
    ops += [[dict(op="unrooted")], [dict(op="unrooted_deepcopy")], [dict(op="sorted")],
            [dict(op="sorted", order=list(reversed(tips)))], [dict(op="prune")], [dict(op="copy")], [dict(op="deepcopy")],
            [dict(op="midpoint")], [dict(op="bifurcating")], [dict(op="json_rt")], [dict(op="dist")],
            [dict(op="newick_rt", unmunge=True)], [dict(op="newick_rt", unmunge=False)]]
    for esc, wl, semi in ((True, True, True), (False, True, False), (True, False, True)):
        ops.append([dict(op="newick", esc=esc, with_len=wl, semicolon=semi)])
    subsets = [list(s) for k in range(1, len(tips) + 1) for s in itertools.combinations(tips, k)]
    if not full and len(subsets) > 12:
        subsets = rng.sample(subsets, 12)
    for s in subsets:
        for kr in (False, True):
            ops.append([dict(op="sub_tree", names=s, im=False, kr=kr, tipsonly=True)])
        if full or rng.random() < 0.3:
            ops.append([dict(op="sub_tree", names=s, im=False, kr=False, tipsonly=False)])
    internal = [n for n in names[1:] if n not in tips]
    for n in internal[:3]:
        ops.append([dict(op="sub_tree", names=[n, tips[-1]], im=False, kr=False, tipsonly=False)])
        ops.append([dict(op="sub_tree", names=[n, tips[0]], im=False, kr=False, tipsonly=True)])
    ops.append([dict(op="sub_tree", names=tips[:2] + ["zz"], im=True, kr=False, tipsonly=True)])
    ops.append([dict(op="sub_tree", names=tips[:2] + ["zz"], im=False, kr=False, tipsonly=True)])
    return ops


def length_stream(rng, mode):
    while True:
        if mode == "pos":
            yield rng.randint(1, 9)
        elif mode == "mixed":
            r = rng.random()
            yield None if r < 0.25 else 0 if r < 0.35 else rng.randint(1, 9)
        else:
            yield None


def exhaustive_block(tier, rng):
    cases = []
    maxn = 4 if tier == "quick" else 5
    for n in range(2, maxn + 2):
        ordered = n <= (4 if tier == "quick" else 5)
        for sh in shapes(n, ordered=ordered):
            modes = ["pos"] + (["mixed"] if (n <= 4 or tier == "thorough") else [])
            for mode in modes:
                t = label(sh, length_stream(rng, mode))
                full = n <= (4 if tier == "quick" else 5)
                for ops in ops_for(t, rng, full=full):
                    cases.append(dict(tree=t, ops=ops, scale=1, block=f"exh{n}:{mode}"))
            # single-child nodes
            if n <= 4:
                for k in (range(1, 2 * n) if n <= 3 else (1, 2, n + 1)):
                    t = label(sh, length_stream(rng, "pos"), unary_at=k)
                    if any(len(nd[2]) == 1 for nd, _, _ in all_nodes(t)):
                        for ops in ops_for(t, rng, full=False):
                            if ops[0]["op"] in ("prune", "rooted_at", "rooted_with_tip", "sub_tree", "unrooted", "sorted", "dist",
                                                "newick_rt", "unrooted_deepcopy"):
                                cases.append(dict(tree=t, ops=ops, scale=1, block="unary"))
    # single-child root
    for sh in shapes(3):
        t = label(sh, length_stream(rng, "pos"))
        t = ["root", None, [["n0", 2, t[2]]]]
        for ops in ops_for(t, rng, full=False):
            cases.append(dict(tree=t, ops=ops, scale=1, block="root1"))
    return cases


NAME_ALPHABET = "ab _'\"(),:;-.1xyz"


def odd_name(rng, used):
    while True:
        n = "".join(rng.choice(NAME_ALPHABET) for _ in range(rng.randint(1, 5)))
        if rng.random() < 0.1:
            n = "'" + n.replace("'", "") + "'"
        if n not in used and n not in ("edge", "root"):
            used.add(n)
            return n


def random_tree(rng, ntips, names="plain", mode="pos", maxlen=9):
    used = set()
    tipc = itertools.count()
    intc = itertools.count(1)

    def nm(is_tip):
        if names == "odd":
            return odd_name(rng, used)
        return f"t{next(tipc)}" if is_tip else f"n{next(intc)}"

    def ln():
        if mode == "pos":
            return rng.randint(1, maxlen)
        r = rng.random()
        return None if r < 0.2 else 0 if r < 0.3 else rng.randint(1, maxlen)

    def rec(n, is_root):
        if n == 1:
            return [nm(True), None if is_root else ln(), []]
        k = rng.choice([2, 2, 2, 3, 4]) if n > 2 else 2
        k = min(k, n)
        cuts = sorted(rng.sample(range(1, n), k - 1))
        parts = [b - a for a, b in zip([0] + cuts, cuts + [n])]
        return ["root" if is_root else nm(False), None if is_root else ln(), [rec(p, False) for p in parts]]

    return rec(ntips, True)


def random_op(rng, t):
    tips = tip_names(t)
    names = node_names(t)
    r = rng.random()
    if r < 0.2:
        return dict(op="rooted_at", name=rng.choice(names))
    if r < 0.35:
        return dict(op="rooted_with_tip", name=rng.choice(tips))
    if r < 0.45:
        return dict(op="unrooted")
    if r < 0.65:
        k = rng.randint(2, max(2, len(tips)))
        return dict(op="sub_tree", names=rng.sample(tips, min(k, len(tips))), im=False, kr=rng.random() < 0.3, tipsonly=True)
    if r < 0.75:
        return dict(op="sorted", order=rng.sample(tips, len(tips)) if rng.random() < 0.5 else None)
    if r < 0.8:
        return dict(op="prune")
    if r < 0.85:
        return dict(op="midpoint")
    if r < 0.9:
        return dict(op="newick_rt", unmunge=True)
    if r < 0.95:
        return dict(op="json_rt")
    return dict(op="copy")


def random_block(tier, rng):
    cases = []
    n = 250 if tier == "quick" else 2500
    maxt = 12 if tier == "quick" else 40
    for i in range(n):
        w = rng.random()
        if w < 0.25:
            # names needing quotes: writer / parser / round trips
            t = random_tree(rng, rng.randint(2, 8), names="odd")
            op = rng.choice([dict(op="newick_rt", unmunge=True), dict(op="newick_rt", unmunge=False), dict(op="json_rt"),
                             dict(op="newick", esc=True, with_len=True, semicolon=True),
                             dict(op="newick", esc=False, with_len=False, semicolon=False)])
            cases.append(dict(tree=t, ops=[op], scale=1, block="names"))
        elif w < 0.35:
            t = random_tree(rng, rng.randint(3, maxt), mode="mixed")
            cases.append(dict(tree=t, ops=[random_op(rng, t)], scale=1, block="random-mixed"))
        elif w < 0.5:
            # dyadic float lengths
            t = random_tree(rng, rng.randint(3, maxt), maxlen=40)
            cases.append(dict(tree=t, ops=[random_op(rng, t)], scale=8, block="random-dyadic"))
        else:
            t = random_tree(rng, rng.randint(3, maxt))
            k = rng.choice([1, 2, 2, 3, 4])
            ops = []
            for _ in range(k):
                o = random_op(rng, t)
                if o["op"] == "sub_tree" and ops:
                    continue
                if o["op"] in ("rooted_at",) and ops:
                    continue
                ops.append(o)
            cases.append(dict(tree=t, ops=ops or [dict(op="dist")], scale=1, block="random-chain"))
    return cases


TRICKY = ["edge", "it's", "a b", "x_y", "a,b", "(x)", "a:b", "a;b", '"q"', "a'b'c", "x.y-1", "Homo sapiens (human)", "[z]", ",", ";", "(",
          ":", "'quoted'", "'lead", " pad ", "a\tb"]


def names_block():
    cases = []
    for i, nm in enumerate(TRICKY):
        other = TRICKY[(i + 3) % len(TRICKY)]
        t = ["root", None, [[nm, 2, []], ["b", 3, []], ["n1", 1, [["c", 4, []], [other if other != nm else "d", 5, []]]]]]
        if t[2][2][2][1][0] in (nm, "b", "c"):
            t[2][2][2][1][0] = "d"
        for op in (dict(op="newick_rt", unmunge=True), dict(op="newick_rt", unmunge=False), dict(op="json_rt"),
                   dict(op="newick", esc=True, with_len=True, semicolon=True)):
            cases.append(dict(tree=t, ops=[op], scale=1, block="names-fixed-list"))
    return cases


def all_names(alphabet, maxlen):
    out = []
    for k in range(1, maxlen + 1):
        out += ["".join(p) for p in itertools.product(alphabet, repeat=k)]
    return out


def exhaustive_names_block(tier, rng):
    """every string over {a ' " _ blank} up to length 3 (thorough: 4) as a tip name, plus random strings over a wider
    alphabet (backslash, brackets, comma, colon, semicolon, parentheses, dot, tab); newick (both unmunge settings) and JSON
    round trips; the rt_ok guards decide which names are claimed by the oracle, all are compared with the model"""
    cases = []
    names = all_names("a'\"_ ", 3 if tier == "quick" else 4)
    wide = "a'\"_ \\[](),:;.\tb"
    for _ in range(60 if tier == "quick" else 600):
        names.append("".join(rng.choice(wide) for _ in range(rng.randint(2, 6))))
    names += ['x""y', 'say ""hi""', "it''s", "''", '""', "a''", 'a""', "\\", "a\\'b", '"\'"\'', "[a]", "a[b", "a]b"]
    ops = (dict(op="newick_rt", unmunge=True), dict(op="newick_rt", unmunge=False), dict(op="json_rt"))
    for i, nm in enumerate(names):
        if nm in ("b", "c", "n1", "root"):
            continue
        t = ["root", None, [[nm, 2, []], ["b", 3, []], ["n1", 1, [["c", 4, []], ["d", 5, []]]]]]
        if tier == "quick" and len(nm) == 3 and i % 3:
            # quick: the length-3 names get one of the three round trips each (all three in thorough)
            cases.append(dict(tree=t, ops=[ops[i % 3]], scale=1, block="names-exhaustive"))
            continue
        for op in ops:
            cases.append(dict(tree=t, ops=[op], scale=1, block="names-exhaustive"))
    return cases


def remove_deleted_block(tier, rng):
    """in-place pruning: remove_deleted(name in D) alone and followed by prune(), for every subset D of the tips of every
    small shape (and some D containing internal names)"""
    cases = []
    seed_t = ["root", None, [["a", 1, []], ["cdef", 2, [["cd", 1, [["c", 1, []], ["d", 1, []]]], ["ef", 1, [["e", 1, []], ["f", 1, []]]]]],
                             ["b", 3, []]]]
    trees = [seed_t]
    for n in range(2, (5 if tier == "quick" else 6) + 1):
        shs = shapes(n, ordered=(n <= 4))
        if n >= 5 and tier == "quick":
            shs = rng.sample(shs, 8)
        for sh in shs:
            trees.append(label(sh, length_stream(rng, "pos")))
    for t in trees:
        tips = tip_names(t)
        internal = [x for x in node_names(t)[1:] if x not in tips]
        subsets = [list(c) for k in range(1, len(tips) + 1) for c in itertools.combinations(tips, k)]
        if len(subsets) > 40 and tier == "quick":
            subsets = rng.sample(subsets, 40)
        if internal:
            subsets.append([internal[0]])
            subsets.append([internal[-1], tips[0]])
        for D in subsets:
            cases.append(dict(tree=t, ops=[dict(op="remove_deleted", names=D)], scale=1, block="remove-deleted"))
            cases.append(dict(tree=t, ops=[dict(op="remove_deleted", names=D), dict(op="prune")], scale=1, block="remove-deleted"))
    return cases


def parse_block(rng):
    texts = ["(a,b,c);", "((a:1,b:2):3,(c:4,d:5):6);", "((a,b)x,c)y;", "(a_b,'c d','e''f');", "( a , b ) ;", "(a,b)", "a;", "(a,b));",
             "((a,b);", "(a:1:2,b);", "(a,b)c d;", "('a,b",  "(a,,b);", "(,);", "(a b,c);", "\"x y\";", "(a\n,b);", "((a,b)(c,d));",
             "(a,(b)c);", "(a:-1,b:10);", "(a:x,b);", "(a,b):3;", "(edge,edge.0,root);", "(a,a,a);", "(edge.0,b,(c,d));", "((a,b),(c,d),edge.1);", "(mouse.2,mouse,mouse);",
             "(mouse,mouse,mouse.2);", "((edge.0.2,x),edge.0,(y,z));", "(a,(a,(a,b)));", "((a,b)edge.0,(c,d));"]
    return [dict(tree=["root", None, [["a", 1, []], ["b", 1, []]]], ops=[dict(op="parse", text=s, unmunge=u)], scale=1, block="parse")
            for s in texts for u in (False, True)]


# ------------------------------------------------------------------ tree-to-tree distances (oracle only)

def clades(t):
    out = set()

    def rec(node, is_root):
        below = frozenset([node[0]]) if not node[2] else frozenset()
        for c in node[2]:
            below |= rec(c, False)
        if not is_root and len(below) > 1:
            out.add(below)
        return below

    rec(t, True)
    return out


def _min_assignment(w):
    n = len(w)
    if n == 0:
        return 0
    return min(sum(w[i][p[i]] for i in range(n)) for p in itertools.permutations(range(n)))


def treedist_oracle(t1, t2, method):
    """independent split-set / cluster-set computation; None = the method refuses (different numbers of splits)"""
    alltips = frozenset(tip_names(t1))
    ref = sorted(alltips)[0]
    r1, r2 = len(t1[2]) == 2, len(t2[2]) == 2
    if r1 != r2 or set(tip_names(t1)) != set(tip_names(t2)):
        return None  # one rooted, one unrooted / different tips: refused
    if method == "rf":
        method = "rooted_robinson_foulds" if r1 else "unrooted_robinson_foulds"
    if method == "matching":
        method = "matching_cluster" if r1 else "lin_rajan_moret"
    if method == "unrooted_robinson_foulds":
        return len(oracle_splits(t1) ^ oracle_splits(t2))
    if method == "rooted_robinson_foulds":
        return len(clades(t1) ^ clades(t2))
    if method == "lin_rajan_moret":
        def sides(t):
            return [next(s for s in sp if ref in s) for sp in oracle_splits(t)]
        s1, s2 = sides(t1), sides(t2)
        if len(s1) != len(s2):
            return None
        w = [[min(len(a ^ b), len(a ^ (alltips - b))) for b in s2] for a in s1]
        return _min_assignment(w)
    if method == "matching_cluster":
        c1, c2 = list(clades(t1)), list(clades(t2))
        while len(c1) < len(c2):
            c1.append(frozenset())
        while len(c2) < len(c1):
            c2.append(frozenset())
        return _min_assignment([[len(a ^ b) for b in c2] for a in c1])
    raise ValueError(method)


def treedist_block(tier, rng):
    cases = []
    for n, npairs in ((4, 20), (5, 60 if tier == "quick" else 400), (6, 40 if tier == "quick" else 400)):
        pool_u, pool_r = [], []
        for sh in shapes(n, ordered=False):
            for _ in range(2 if n < 6 else 1):
                names = [chr(97 + i) for i in range(n)]
                rng.shuffle(names)
                t = label(sh, length_stream(rng, "pos"), tipnames=names)
                (pool_r if len(sh) == 2 else pool_u).append(t)
        for k in range(3):
            if pool_u and pool_r:
                a, b = rng.choice(pool_u), rng.choice(pool_r)
                if k % 2:
                    a, b = b, a
                cases.append(dict(tree=a, ops=[dict(op="tree_distance", other=b, methods=["rf"])], scale=1, block=f"treedist{n}"))
        for pool, methods in ((pool_u, ["rf", "unrooted_robinson_foulds", "lin_rajan_moret", "matching"]),
                              (pool_r, ["rf", "rooted_robinson_foulds", "matching_cluster", "matching"])):
            if len(pool) < 2:
                continue
            for _ in range(npairs):
                a, b = rng.choice(pool), rng.choice(pool)
                cases.append(dict(tree=a, ops=[dict(op="tree_distance", other=b, methods=methods)], scale=1, block=f"treedist{n}"))
    return cases


def history_block(tier, rng):
    """distances AFTER a history: warm the tree's caches (subsets / distances), derive a tree by a transformation, then
    measure against a freshly built copy of the source ('orig') and of the derived tree itself ('self_fresh')"""
    cases = []
    pool = []
    for n in (4, 5, 6):
        shs = shapes(n, ordered=False)
        rng.shuffle(shs)
        for sh in shs[: (4 if tier == "quick" else 12)]:
            names = [chr(97 + i) for i in range(n)]
            rng.shuffle(names)
            pool.append(label(sh, length_stream(rng, "pos"), tipnames=names))
    for t in pool:
        tips = tip_names(t)
        internal = [n for n in node_names(t)[1:] if n not in tips]
        transforms = [dict(op="bifurcating"), dict(op="multifurcating", k=2), dict(op="multifurcating", k=3), dict(op="copy"),
                      dict(op="deepcopy"), dict(op="sorted", order=list(reversed(tips))), dict(op="unrooted"),
                      dict(op="unrooted_deepcopy"), dict(op="rooted_with_tip", name=tips[-1]), dict(op="prune"),
                      dict(op="sub_tree", names=tips[:-1], im=False, kr=False, tipsonly=True)]
        if internal:
            transforms.append(dict(op="rooted_at", name=rng.choice(internal)))
        for tr in transforms:
            for other in ("orig", "self_fresh"):
                cases.append(dict(tree=t, ops=[dict(op="warm"), tr, dict(op="tree_distance", other=other, methods=["rf", "matching"])],
                                  scale=1, block="treedist-history"))
    return cases


def parser_style_tree(rng, ntips):
    """names as the library itself generates them: internal nodes edge.0, edge.1, ... (creation order = postorder), and tips
    that look like generated names"""
    t = random_tree(rng, ntips)
    cnt = itertools.count()
    odd = ["edge.0", "edge.1", "edge.2", "edge.0.2", "mouse.2", "mouse", "edge.10", "root.2"]
    rng.shuffle(odd)

    def rec(node, is_root):
        kids = [rec(c, False) for c in node[2]]
        if is_root:
            nm = "root"
        elif kids:
            nm = f"edge.{next(cnt)}"
        else:
            nm = node[0]
        return [nm, node[1], kids]

    t = rec(t, True)
    used = set(node_names(t))
    for nd, _, _ in all_nodes(t):
        if not nd[2] and odd and rng.random() < 0.5 and odd[-1] not in used:
            nd[0] = odd.pop()
            used.add(nd[0])
    return t


def generated_names_block(tier, rng):
    """compositions through which the library has to name nodes itself: bifurcating() leaves nodes unnamed, re-rooting names
    them, the round trips and get_sub_tree then rely on those names"""
    cases = []
    for _ in range(40 if tier == "quick" else 300):
        t = parser_style_tree(rng, rng.randint(4, 8))
        # make sure there is a polytomy for bifurcating() to resolve
        if all(len(nd[2]) <= 2 for nd, _, _ in all_nodes(t)):
            t[2].append([f"x{len(t[2])}", rng.randint(1, 9), []])
        tips = tip_names(t)
        internal = [n for n in node_names(t)[1:] if n not in tips]
        first = rng.choice([dict(op="bifurcating"), dict(op="bifurcating"), dict(op="multifurcating", k=2), dict(op="dist")])
        reroot = rng.choice([dict(op="rooted_with_tip", name=rng.choice(tips)), dict(op="unrooted_deepcopy")]
                            + ([dict(op="rooted_at", name=rng.choice(internal))] if internal else []))
        keep = rng.sample(tips, max(2, len(tips) - 1))
        last = rng.choice([dict(op="json_rt"), dict(op="newick_rt", unmunge=True), dict(op="newick_rt", unmunge=False),
                           dict(op="sub_tree", names=keep + ([internal[0]] if internal and rng.random() < 0.5 else []),
                                im=False, kr=False, tipsonly=False),
                           dict(op="rooted_with_tip", name=rng.choice(tips)), dict(op="sorted"), dict(op="dist")])
        cases.append(dict(tree=t, ops=[first, reroot, last], scale=1, block="generated-names"))
    return cases


def treedist_check(case, st, cur=None, k=0):
    """one tree_distance step: `cur` is the tree it is called on (the input, or the result of the previous steps)"""
    bad = []
    op = case["ops"][k]
    t1 = cur if cur is not None else case["tree"]
    t2 = case["tree"] if op["other"] == "orig" else t1 if op["other"] == "self_fresh" else op["other"]
    hist = "+".join(o["op"] for o in case["ops"][:k] if o["op"] != "warm")
    tag = ("after:" + hist + ":") if k else ""
    if len(set(tip_names(t1))) != len(tip_names(t1)) or None in tip_names(t1):
        return bad
    for m, got in zip(op["methods"], st.get("val") or []):
        exp = treedist_oracle(t1, t2, m)
        if isinstance(got, dict):
            if exp is not None:
                bad.append((f"treedist:{tag}{m}:raised", "tree_distance raised on two valid trees with the same tips", exp, got))
            continue
        d12, d21, d11 = got
        if exp is None:
            bad.append((f"treedist:{tag}{m}:not-refused", "tree_distance of a rooted and an unrooted tree / different tip sets must be refused", "ValueError", got))
            continue
        if d12 != exp:
            bad.append((f"treedist:{tag}{m}:value", "distance vs independent split/cluster-set computation on the same two trees "
                        "(t1 = the tree the method is called on, as dumped; t2 = a freshly built tree)", exp, d12))
        if d12 != d21:
            bad.append((f"treedist:{tag}{m}:symmetry", "d(t1,t2) vs d(t2,t1)", d12, d21))
        if d11 != 0:
            bad.append((f"treedist:{tag}{m}:self", "d(t, copy of t)", 0, d11))
        same = (clades(t1) == clades(t2)) if len(t1[2]) == 2 else (oracle_splits(t1) == oracle_splits(t2))
        if (d12 == 0) != same:
            bad.append((f"treedist:{tag}{m}:zero", "distance is zero exactly for equal topologies", same, d12))
    return bad


def corpus():
    t = ["root", None, [["x", 3, [["a", 1, []], ["b", 2, []]]], ["y", 6, [["c", 4, []], ["d", 5, []]]]]]
    t3 = ["root", None, [["x", 3, [["a", 1, []], ["b", 2, []]]], ["c", 4, []], ["d", 5, []]]]
    te = ["root", None, [["edge", 1, []], ["b", 2, []], ["x", 5, [["c", 3, []], ["d", 4, []]]]]]
    edge_cases = [dict(tree=te, ops=[o], scale=1, block="corpus") for o in (
        dict(op="rooted_with_tip", name="b"), dict(op="rooted_at", name="x"), dict(op="unrooted_deepcopy"), dict(op="sorted"),
        dict(op="newick_rt", unmunge=True), dict(op="json_rt"), dict(op="midpoint"),
        dict(op="sub_tree", names=["edge", "b", "c"], im=False, kr=False, tipsonly=True))]
    tg = ["root", None, [["x", 4, [["a", 1, []], ["b", 2, []], ["c", 3, []]]], ["edge.0", 5, []], ["d", 6, []]]]
    edge_cases.append(dict(tree=tg, ops=[dict(op="bifurcating"), dict(op="unrooted_deepcopy")], scale=1, block="corpus"))
    return edge_cases + [dict(tree=t, ops=[dict(op="unrooted")], scale=1, block="corpus"),
            dict(tree=t, ops=[dict(op="midpoint")], scale=1, block="corpus"),
            dict(tree=t3, ops=[dict(op="sub_tree", names=["a", "b", "c"], im=False, kr=False, tipsonly=True)], scale=1, block="corpus"),
            dict(tree=t, ops=[dict(op="rooted_at", name="x"), dict(op="prune")], scale=1, block="corpus")]


# ------------------------------------------------------------------ the check

def final_view(ir):
    """the last step of the implementation record in the shape of the old single-step record"""
    st = ir["steps"][-1]
    return st


def compare(rep, cases, impl, model, variant):
    """returns (disagreements, nviol, nontrivial)"""
    dis = []
    nviol = 0
    nontrivial = set()
    for c, ir, mr in zip(cases, impl, model):
        tag = "+".join(o["op"] for o in c["ops"])
        if "steps" not in ir:
            key = ("hang:" if ir.get("hang") else "runner:") + c["ops"][0]["op"]
            rep.violation(key, dict(case=c, observed_impl=ir, broken="implementation runner failed or hung on this case"))
            nviol += 1
            continue
        bad = oracle_check(c, ir)
        if c["ops"][-1]["op"] == "tree_distance" and "val" in ir["steps"][-1]:
            nontrivial.add(json.dumps([c["tree"], c["ops"]], sort_keys=True))
        for key, what, exp, obs in bad:
            nviol += 1
            rep.violation(key, dict(case=c, what=what, expected_by_spec=exp, observed_impl=obs,
                                    impl=ir, model_output=None if mr is None else jsonable_model(mr),
                                    broken="property C09 on the real implementation (oracle: edge-list path lengths / tip set / "
                                           "splits / receiver unchanged)"))
        st = final_view(ir)
        if in_scope(c["tree"]) and isinstance(st.get("res"), list) and any(o["op"] not in IDENTITY and o["op"] != "newick" for o in c["ops"]):
            nontrivial.add(json.dumps([c["tree"], c["ops"]], sort_keys=True))
        if mr is None:
            continue
        mv = model_view(mr)
        if mv.get("exc") == 99:
            continue
        d = None
        if "val" in mv:
            got = st.get("val", [None])[0]   # methods[0] is "rf"
            agree = (got == mv["val"][0]) if isinstance(got, dict) else (got == mv["val"])
            if not agree:
                dis.append(dict(key="treedist-rf:tree_distance", case=c, what="tree_distance rf", model_output=mv["val"], observed_impl=got))
            continue
        f = 2 ** sum(1 for o in c["ops"] if o["op"] == "midpoint")
        if isinstance(st.get("res"), list):
            st = dict(st, res=scale_tree(st["res"], f), tips=["" if x is None else x for x in st.get("tips", [])],
                      dists=None if not isinstance(st.get("dists"), list) else [scaled(x, f) for x in st["dists"]])
        if "text" in mv or "text" in st:
            if mv.get("text") != st.get("text"):
                d = ("text", mv.get("text"), st.get("text"))
        elif "exc" in mv or isinstance(st.get("res"), dict):
            me = mv.get("exc")
            ie = st["res"].get("exc") if isinstance(st.get("res"), dict) else None
            if me != ie:
                d = ("exception", mv, st.get("res"))
        else:
            if mv["res"] != st["res"]:
                d = ("tree", mv["res"], st["res"])
            elif st.get("dists") is not None and mv["dists"] != st["dists"] and not (
                    f != 1 and any(x[1] is None for x, dd, _ in all_nodes(st["res"]) if dd > 0)):
                # (after a midpoint the model is in doubled units, where a missing length would have to count 2)
                d = ("get_distances", mv["dists"], st["dists"])
            elif mv["tips"] != st.get("tips"):
                d = ("tips", mv["tips"], st.get("tips"))
            elif len(set(mv["tips"])) == len(mv["tips"]) and model_splits(mv) != oracle_splits(st["res"]):
                # the specification's split set (Spec/TreeTopoSpec.splits, evaluated in Coq on the model's result)
                # against the oracle's split computation on the tree the implementation returned
                d = ("splits-spec", sorted(sorted(map(sorted, x)) for x in model_splits(mv)),
                     sorted(sorted(map(sorted, x)) for x in oracle_splits(st["res"])))
            elif st.get("dists") is not None and None not in mv["dists"] and mv["pathlen"] != st["dists"] \
                    and all(x[1] is not None for x, dd, _ in all_nodes(st["res"]) if dd > 0):
                d = ("pathlen-spec", mv["pathlen"], st["dists"])
        if d is None and "recv_after" in mv:
            prev = [x["res"] for x in ir["steps"][:-1] if isinstance(x.get("res"), list)]
            recv = prev[-1] if prev else c["tree"]
            got = scale_tree(st["recv_after"], f) if "recv_after" in st else scale_tree(recv, f)
            if got != mv["recv_after"]:
                d = ("receiver-after-midpoint", mv["recv_after"], got)
        if d is None:
            for o, s2 in zip(c["ops"], ir["steps"]):
                if o["op"] == "midpoint" and variant.get("midpoint") == "v0":
                    continue  # the pinned root_at_midpoint edits its receiver (and trees sharing params with it); modelled for a final midpoint only
                if (s2.get("mut_recv") and o["op"] not in INPLACE) or s2.get("others_changed"):
                    d = ("mutation", "all modelled operations are pure", dict(op=o["op"], mut_recv=s2.get("mut_recv"), others=s2.get("others_changed")))
                    break
        if d is not None:
            dis.append(dict(key=f"{d[0]}:{tag}", case=c, what=d[0], model_output=d[1], observed_impl=d[2]))
    return dis, nviol, nontrivial


def jsonable_model(mr):
    try:
        return model_view(mr)
    except Exception:  # noqa: BLE001
        return repr(mr)[:500]


def probe():
    r = core.run_impl_lines("c09_impl.py", [dict(probe=True)])[0]
    return r


def run(tier: str, seed: int) -> int:
    rep = core.Report(PROP, tier, seed)
    rng = random.Random(seed * 7919 + 9)
    pr = core.proof_stage(PROP, COQ_TARGETS)
    core.proof_coverage(rep, pr, "make theories/Properties/C09.vo && coqc gen/assum_C09.v (Print Assumptions)", [
        "mutable PhyloNode graphs with parent pointers are modelled as immutable rose trees; a position is a path of child indices",
        "a behavioural probe on one witness (c09_impl.source_variants) selects the current / repaired variant of unrooted() in the model; the correspondence on all cases tests the choice",
        "floats: lengths are integers or dyadic rationals so that every sum the implementation forms is exact",
        "name_loaded flags, Lin-Rajan-Moret / matching-cluster distances and multifurcating(k>2) are outside the Coq model (oracle "
        "comparison only); root_at_midpoint is modelled on doubled lengths (exact halves)",
    ])
    rep.assumptions += [
        "oracle scope = the property's quantifier: distinct tip names, positive lengths on all edges, every internal node with >= 2 children; "
        "other trees (None/zero lengths, single-child nodes, odd names) are compared model-vs-implementation only",
        "newick round trip with make_tree(underscore_unmunge=False) is expected to be the identity only for names without blanks",
        "round-trip oracle applies to trees whose names are printable ASCII, non-empty, distinct, not 'edge', without leading/trailing "
        "white space and not starting with a single quote; a label that is one punctuation character may be rejected with an error",
    ]
    pv = probe()
    variant = pv
    rep.notes.append(f"source variant probe: {pv}")
    proof_broken = bool(pr["problems"])

    cases = corpus() + parse_block(rng) + names_block() + exhaustive_names_block(tier, rng) + remove_deleted_block(tier, rng) + exhaustive_block(tier, rng) + random_block(tier, rng) + treedist_block(tier, rng) + history_block(tier, rng) + generated_names_block(tier, rng)
    if proof_broken:
        cases += random_block("thorough" if tier == "quick" else tier, rng)
    impl = core.run_impl_sharded("c09_impl.py", cases)
    idx = [i for i, c in enumerate(cases) if modelled(c, variant)]
    model = [None] * len(cases)
    try:
        out = core.coq_eval(PROP, ["Lib.Rose", "Model.Tree", "Model.TreeRun"], "run_case", [coq_case(cases[i], variant) for i in idx],
                            "tree * list op", shard=300)
        for i, r in zip(idx, out):
            model[i] = r
    except core.CheckError as e:
        if not proof_broken:
            raise
        rep.notes.append(f"model not runnable: {str(e)[:300]}")
    dis, nviol, nontrivial = compare(rep, cases, impl, model, variant)
    if variant.get("midpoint") not in ("v0", "fixed"):
        dis.append(dict(key="variant:midpoint", what="root_at_midpoint failed on the probe witness; model comparison skipped", case=None))
    if variant.get("unrooted") not in ("v0", "fixed"):
        dis.append(dict(key="variant:unrooted", what="TreeNode.unrooted behaves neither like the pinned nor like the repaired model on the probe witness; "
                        "model comparison skipped for unrooted/get_sub_tree (fail-closed)", case=None))

    dist = {}
    for c in cases:
        dist[c["block"]] = dist.get(c["block"], 0) + 1
    opd = {}
    for c in cases:
        for o in c["ops"]:
            opd[o["op"]] = opd.get(o["op"], 0) + 1
    rep.coverage.update(
        evaluations=len(cases), distinct_nontrivial=len(nontrivial),
        rule="one evaluation = one tree x one operation (or chain of up to 4) through the real PhyloNode methods, compared with the Coq model "
             "(vm_compute) where modelled and with the edge-list oracle; non-trivial = in-scope tree (distinct tips, positive lengths, no "
             "single-child node), a transforming operation, and the implementation returned a tree; exhaustive block: every ordered tree shape "
             f"with 2..{5 if tier == 'quick' else 6} tips (polytomies included) x every node as new root x every tip as outgroup x every tip subset x flags",
        samples=[dict(case=cases[i], impl=impl[i]) for i in (0, len(cases) // 2, len(cases) - 1)],
        input_distribution=dict(blocks=dist, ops=opd, modelled_cases=len(idx), variants={k: variant.get(k) for k in ('unrooted', 'midpoint', 'json', 'labels', 'edge_name')}),
        model_impl_disagreements=len(dis), spec_violations=nviol, disagreement_samples=dis[:3],
        partial=[
            "unrooted topology: theorems (same_topology / restricted_topology, split sets up to complement) for re-rooting, sorted, "
            "repaired unrooted, prune, bifurcating (refinement), get_sub_tree(tipsonly), root_at_midpoint and chains; the specification's "
            "executable split list is compared with the oracle's split computation on every result tree; topology under the newick/JSON "
            "round trips follows from the identity theorems; get_sub_tree(tipsonly=False) topology is oracle-only",
            "newick round trip theorem is for underscore_unmunge=True; unmunge=False and the JSON round trip: model compared with the "
            "implementation and with the identity oracle only",
            "get_sub_tree theorems are for tipsonly=True; tipsonly=False by correspondence and oracle; remove_deleted theorems are for "
            "predicates naming tips only (internal_free), predicates hitting internal nodes by correspondence",
            "copy/deepcopy: the model is the identity; implementation compared with the identity oracle",
            "tree-to-tree distances: Robinson-Foulds (rooted/unrooted) is modelled and compared; Lin-Rajan-Moret and matching cluster "
            "(Hungarian assignment, scipy) only against an independent brute-force split-/cluster-set oracle (value, symmetry, zero iff "
            "equal topology) on trees with 4-6 tips",
            "node naming by the library (TreeBuilder._unique_name for unnamed / repeated / generated-looking names) is modelled "
            "(Model/TreeNames.v) and compared, but no theorem is stated about it; newick comments and multifurcating(k>2) are outside "
            "the model; distances after histories (warm caches, then transform) are compared with the RF model and the oracle",
            "unrooted() and get_sub_tree() on the pinned code are REFUTED (theorems *_refuted); the preservation theorems are for the "
            "repaired unrooted (notes/proposed_fixes/C09-1.diff)",
        ],
        exhaustive=False,
    )
    core.conclude(rep, pr, f"{len(cases)} cases against the edge-list oracle", dis[:5], TIE, tier, PROP)
    return rep.finish("proof")


def replay(path: str) -> int:
    d = json.loads(open(path).read())
    if not d.get("case"):
        print("replay names a broken obligation / correspondence, not an input:", d.get("broken") or d.get("what"))
        return 1
    c = d["case"]
    ir = core.run_impl_lines("c09_impl.py", [c])[0]
    if "steps" not in ir:
        print("impl  :", json.dumps(ir))
        print("REPRODUCED (runner failure / hang)")
        return 1
    bad = oracle_check(c, ir)
    print("case  :", json.dumps(c))
    print("impl  :", json.dumps(ir))
    for key, what, exp, obs in bad:
        print(f"oracle: {key}: {what}: expected {exp} observed {obs}")
    if not bad and d.get("key", "").startswith("correspondence:"):
        variant = probe()
        if modelled(c, variant):
            mr = core.coq_eval(PROP, ["Lib.Rose", "Model.Tree", "Model.TreeRun"], "run_case", [coq_case(c, variant)], "tree * list op")[0]
            dis, _, _ = compare(core.Report(PROP, "quick", 0), [c], [ir], [mr], variant)
            print("model :", jsonable_model(mr))
            if dis:
                print("REPRODUCED (model/implementation disagreement)")
                return 1
    print("REPRODUCED" if bad else "not reproduced")
    return 1 if bad else 0
