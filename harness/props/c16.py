"""C16 — Nested-model initialisation and optimisation never lose likelihood.

Stage P: Properties/C16.v (optimiser wrapper against an adversarial optimiser;
parameter projection between nested models).
Stage C: (a) the real maximise/minimise driven by scripted optimisers vs
Model.OptimRun.run_case (vm_compute); (b) the real _get_param_mapping /
update_scoped_rules vs Model.NestedRun; (c) real Powell / simulated annealing,
real likelihood functions, real hypothesis app against the plain-Python
specification oracle.
Stage S: the oracle runs on every case."""
from __future__ import annotations

import itertools
import json
import math
import random

from vcheck import core
from vcheck.val import from_jsonable, jsonable, zlit

PROP = "C16"
COQ_TARGETS = ["theories/Model/OptimRun.vo", "theories/Model/NestedRun.vo", "theories/Model/NestedNSRun.vo",
               "theories/Model/AppSeq.vo", "theories/Model/UpdateFromCalc.vo"]
IMPL = "c16_impl.py"

# ====================================================================== wrapper cases

FV = {"pinf": "PInf", "ninf": "NInf", "nan": "NaN", "arith": "FArith", "other": "FOther"}
FVCODE = {"pinf": [1], "ninf": [2], "nan": [3]}


def wrap_case(centre, c0, tbl, maxev, bounds, local, minimise, x0, g, l, ret_count=True, block="random"):
    return dict(kind="wrap", centre=centre, c0=c0, tbl=tbl, maxev=maxev, bounds=bounds, local=local, minimise=minimise,
                x0=x0, g=g, l=l, ret_count=ret_count, block=block)


def exhaustive_wrap(tier):
    """dimension 1, bounds [0,2], start 0; every script over {-1,0,1,2,3,crash} up to a length, every
    max_evaluations in {None,1,2,3}, local True/False (and None with both phases), three value tables"""
    pts = [-1, 0, 1, 2, 3]
    acts = [["q", [p]] for p in pts] + [["crash"]]
    tables = [
        [[[0], 5], [[1], 7], [[2], 6]],                 # improving then worsening
        [[[0], 5], [[1], "nan"], [[2], "pinf"]],        # NaN and +inf inside the bounds
        [[[0], 5], [[1], "arith"], [[2], 5]],           # exception, then a tie with the start
        [[[0], 5], [[1], 4], [[2], "other"]],           # worse, then a foreign exception
    ]
    maxlen = 2 if tier == "quick" else 3
    scripts = [list(s) for n in range(maxlen + 1) for s in itertools.product(acts, repeat=n)]
    short = [list(s) for n in range(2 if tier == "quick" else 3) for s in itertools.product(acts, repeat=n)]
    cases = []
    for tbl in tables:
        for maxev in (None, 1, 2, 3):
            for s in scripts:
                cases.append(wrap_case([0], 0, tbl, maxev, [[0], [2]], True, False, [0], [], s, block="exhaustive"))
                cases.append(wrap_case([0], 0, tbl, maxev, [[0], [2]], False, False, [0], s, [], block="exhaustive"))
    for tbl in tables[:2]:
        for maxev in (None, 2, 4):
            for sg in short:
                for sl in short:
                    cases.append(wrap_case([0], 0, tbl, maxev, [[0], [2]], None, False, [0], sg, sl, block="exhaustive"))
    return cases


def rand_wrap(rng):
    dim = rng.choice([1, 1, 2, 2, 3])
    lo = [rng.randint(-3, 0) for _ in range(dim)]
    hi = [l + rng.randint(1, 5) for l in lo]
    centre = [rng.randint(l - 1, h + 1) for l, h in zip(lo, hi)]
    c0 = rng.randint(-20, 60)

    def pt(inside=0.75):
        if rng.random() < inside:
            return [rng.randint(l, h) for l, h in zip(lo, hi)]
        return [rng.randint(l - 2, h + 2) for l, h in zip(lo, hi)]

    tbl = []
    seen = set()
    for _ in range(rng.choice([0, 0, 1, 2, 3, 5])):
        p = pt(0.9)
        if tuple(p) in seen:
            continue
        seen.add(tuple(p))
        tbl.append([p, rng.choice(["nan", "pinf", "ninf", "arith", "other", "nan", "arith", rng.randint(-30, 90), rng.randint(-30, 90)])])
    r = rng.random()
    if r < 0.08:
        bounds = None
    elif r < 0.12:
        bounds = [None, None]
    elif r < 0.16:
        bounds = rng.choice([[None, hi], [lo, None]])
    else:
        blo = [None if rng.random() < 0.1 else v for v in lo]
        bhi = [None if rng.random() < 0.1 else v for v in hi]
        bounds = [blo, bhi]
    x0 = pt(0.93)
    mode_rel = rng.random() < 0.35

    def script():
        out = []
        for _ in range(rng.choice([0, 1, 2, 3, 4, 6, 9, 12])):
            u = rng.random()
            if u < 0.04:
                out.append(["crash"])
            elif mode_rel and u < 0.7:
                out.append(["rel", [rng.choice([-2, -1, -1, 0, 1, 1, 2]) for _ in range(dim)]])
            else:
                out.append(["q", pt()])
        return out

    return wrap_case(centre, c0, tbl, rng.choice([None, None, 0, 1, 2, 3, 5, 8, 20]), bounds, rng.choice([True, False, None]),
                     rng.random() < 0.25, x0, script(), script(), ret_count=rng.random() < 0.6)


def coq_pt(p):
    return "[" + ";".join(zlit(int(v)) for v in p) + "]"


def coq_bvec(b):
    if b is None:
        return "None"
    return "(Some [" + ";".join("None" if v is None else f"Some {zlit(int(v))}" for v in b) + "])"


def coq_act(a):
    return "Crash" if a[0] == "crash" else f"Q {coq_pt(a[1])}"


def coq_wrap(c, gs, ls):
    tbl = "[" + ";".join(f"({coq_pt(p)}, {FV[v] if isinstance(v, str) else 'Fin ' + zlit(v)})" for p, v in c["tbl"]) + "]"
    maxev = "None" if c["maxev"] is None else f"(Some {zlit(c['maxev'])})"
    b = "NoBounds" if c["bounds"] is None else f"(Bounds {coq_bvec(c['bounds'][0])} {coq_bvec(c['bounds'][1])})"
    local = "None" if c["local"] is None else ("(Some true)" if c["local"] else "(Some false)")
    return (f"mkcase {coq_pt(c['centre'])} {zlit(c['c0'])} {tbl} {maxev} {b} {local} {'true' if c['minimise'] else 'false'} "
            f"{coq_pt(c['x0'])} [{';'.join(coq_act(a) for a in gs)}] [{';'.join(coq_act(a) for a in ls)}]")


def model_scripts(c, ir):
    """the action lists given to the model: the scripted absolute queries, or, for scripts with steps
    relative to the optimiser's own state, the queries the scripted optimiser actually made"""
    out = []
    for script, made, crashed in ((c["g"], ir["gq"], ir["gcrash"]), (c["l"], ir["lq"], ir["lcrash"])):
        if any(a[0] == "rel" for a in script):
            out.append([["q", q] for q in made] + ([["crash"]] if crashed else []))
        else:
            out.append(script)
    return out


def model_obs(mv, ret_count):
    """Model.OptimRun.run_case output -> the canonical observation [tag, arg, ret, evals, seen, calls]"""
    fin, calls = mv
    code = fin[0]
    if code == 10:
        return ["invalid", None, None, None, [], calls]
    if code == 11:
        return ["limit", fin[1], None, None, [], calls]
    if code == 12:
        return ["crash", None, None, None, [], calls]
    if code == 13:
        return ["broken", None, None, None, [], calls]
    if code == 14:
        return ["unexpected:IndexError", None, None, None, [], calls]
    _, o, bf, bx, n, seen = fin
    if o[0] == 0:
        return ["done", None, bx, n if ret_count else None, seen, calls]
    if o[0] == 1:
        return ["limit", o[1], None, None, seen, calls]
    return ["crash", None, None, None, seen, calls]


def f_py(c, pt):
    """the synthetic objective, in the sense being maximised; None = evaluation raises"""
    for p, v in c["tbl"]:
        if list(p) == list(pt):
            if v in ("arith", "other"):
                return None
            val = {"pinf": math.inf, "ninf": -math.inf, "nan": math.nan}.get(v, v)
            break
    else:
        val = c["c0"] - sum((a - b) ** 2 for a, b in zip(pt, c["centre"]))
    return -val if c["minimise"] else val


def in_bounds_py(c, pt):
    b = c["bounds"]
    if b is None or (b[0] is None and b[1] is None):
        return True
    if b[0] is None or b[1] is None:
        return False
    return all((l is None or l <= x) and (h is None or x <= h) for l, x, h in zip(b[0], pt, b[1]))


def oracle_wrap(c, obs):
    """the specification on the plain objects: returns the list of broken clauses (None = spec silent)"""
    v0 = f_py(c, c["x0"])
    if not in_bounds_py(c, c["x0"]) or v0 is None or not math.isfinite(v0) or (c["maxev"] is not None and c["maxev"] < 1):
        return None
    tag, arg, ret, evals, seen, calls = obs
    if tag not in ("done", "limit", "crash") or not calls:
        return ["valid-start-rejected"]
    bad = []
    bx = calls[-1]
    vb = f_py(c, bx)
    if vb is None or not (vb >= v0):
        bad.append("lower-than-start")
    if not in_bounds_py(c, bx):
        bad.append("result-out-of-bounds")
    if tag == "done" and ret != bx:
        bad.append("function-not-left-at-returned-vector")
    if tag == "done" and ret is not None:
        vr = f_py(c, ret)
        if vr is None or not (vr >= v0):
            bad.append("returned-lower-than-start")
        if not in_bounds_py(c, ret):
            bad.append("returned-out-of-bounds")
    vals = [f_py(c, q) for q in calls]
    if vb is not None and any(v is not None and v > vb for v in vals):
        bad.append("not-best-of-evaluated")
    if any(not in_bounds_py(c, q) for q in calls):
        bad.append("evaluated-out-of-bounds")
    if c["maxev"] is not None and len(calls) - 1 > c["maxev"]:
        bad.append("limit-exceeded")
    return bad


def loc(c):
    return {True: "local", False: "global", None: "global+local"}[c["local"]]


# ====================================================================== real optimisers on synthetic surfaces

def rand_real(rng):
    dim = rng.choice([1, 2, 2, 3])
    lo = [round(rng.uniform(-2, 0), 2) for _ in range(dim)]
    hi = [round(l + rng.uniform(1, 4), 2) for l in lo]
    centre = [round(rng.uniform(l - 0.5, h + 0.5), 3) for l, h in zip(lo, hi)]
    x0 = [round(rng.uniform(l, h), 3) for l, h in zip(lo, hi)]
    surface = rng.choice(["quad", "ridge", "bumpy", "cliff", "cliff"])
    if surface == "cliff":
        x0 = [min(x, c) for x, c in zip(x0, centre)]
        x0 = [max(x, l) for x, l in zip(x0, lo)]
        if sum(x0) > sum(centre) + 1.0:
            surface = "quad"
    local = rng.choice([True, True, False, None])
    maxev = rng.choice([1, 2, 5, 17, 60, 200, None]) if local is True else rng.choice([1, 5, 30, 120, 400])
    return dict(kind="real", surface=surface, cliff=rng.choice(["nan", "ninf"]), centre=centre, c0=rng.randint(0, 20), lo=lo, hi=hi,
                x0=x0, local=local, maxev=maxev, minimise=rng.random() < 0.25, seed=rng.randint(0, 10 ** 6),
                max_restarts=rng.choice([None, 1]), tol=rng.choice([1e-6, 1e-3]))


def oracle_real(c, r):
    if r.get("exc") is not None or r.get("tag") not in ("done", "limit"):
        return ["real-optimiser-run-raised"]
    tr = r["trace"]
    bad = []
    sgn = -1.0 if c["minimise"] else 1.0

    def val(v):
        if isinstance(v, str):
            v = float(v)
        return None if math.isnan(v) else sgn * v

    v0 = val(tr[0][1])
    bx, vbx = tr[-1][0], val(tr[-1][1])
    if vbx is None or not vbx >= v0:
        bad.append("lower-than-start")
    if not all(l <= x <= h for l, x, h in zip(c["lo"], bx, c["hi"])):
        bad.append("result-out-of-bounds")
    if any(not all(l <= x <= h for l, x, h in zip(c["lo"], q, c["hi"])) for q, _ in tr):
        bad.append("evaluated-out-of-bounds")
    if r["tag"] == "done" and r["ret"] != bx:
        bad.append("function-not-left-at-returned-vector")
    comparable = [val(v) for _, v in tr if val(v) is not None]
    if vbx is not None and max(comparable) > vbx:
        bad.append("not-best-of-evaluated")
    if c["maxev"] is not None and len(tr) - 1 > c["maxev"]:
        bad.append("limit-exceeded")
    if r["tag"] == "done" and r["evals"] != len(tr) - 1:
        bad.append("eval-count-wrong")
    return bad


# ====================================================================== likelihood-function level cases

NUC_CHAINS = [("F81", "HKY85"), ("HKY85", "TN93"), ("TN93", "GTR"), ("F81", "GTR"), ("HKY85", "GTR"), ("F81", "TN93"),
              ("JC69", "K80"), ("GTR", "GN"), ("HKY85", "GN"), ("F81", "GN"), ("TN93", "GN"), ("K80", "ssGN"), ("JC69", "ssGN"),
              ("ssGN", "GN"), ("JC69", "GN"), ("K80", "GN")]
NUC_OMP = [("K80", "HKY85"), ("JC69", "F81"), ("K80", "TN93"), ("JC69", "HKY85")]  # alt with optimise_motif_probs=True
CODON_CHAINS = [("MG94HKY", "MG94GTR"), ("CNFHKY", "CNFGTR"), ("H04G", "H04GGK"), ("H04GK", "H04GGK")]
# not claimed nested here: * -> GNC (GNC has free codon ("tuple") root probabilities, MG94*/CNF* nucleotide / conditional ones)
RATE_PARAMS = {"HKY85": ["kappa"], "TN93": ["kappa_y", "kappa_r"], "GTR": ["A/C", "A/G", "A/T", "C/G", "C/T"], "K80": ["kappa"],
               "MG94HKY": ["kappa", "omega"]}
SENSE = [a + b + c for a in "ACGT" for b in "ACGT" for c in "ACGT" if a + b + c not in ("TAA", "TAG", "TGA")]
TREES = {3: ["(a,b,c)"], 4: ["((a,b),c,d)", "(a,(b,c),d)"], 5: ["((a,b),(c,d),e)", "(((a,b),c),d,e)"]}


def rand_nuc_aln(rng, n, length, ts=0.6, rate=None):
    """ts: probability that a change is forced to be a transition (drives kappa)"""
    names = "abcde"[:n]
    w = [rng.uniform(0.5, 2.0) for _ in range(4)]
    root = rng.choices("ACGT", w, k=length)
    rate = rng.uniform(0.08, 0.4) if rate is None else rate
    out = {}
    for nm in names:
        out[nm] = "".join(c if rng.random() > rate else (rng.choice("AG" if c in "AG" else "CT") if rng.random() < ts else rng.choices("ACGT", w)[0])
                          for c in root)
    return out


def rand_codon_aln(rng, n, length):
    names = "abcde"[:n]
    root = [rng.choice(SENSE) for _ in range(length)]
    out = {}
    for nm in names:
        s = []
        for cod in root:
            if rng.random() < 0.3:
                c = list(cod)
                c[rng.randrange(3)] = rng.choice("ACGT")
                c = "".join(c)
                if c in SENSE:
                    cod = c
            s.append(cod)
        out[nm] = "".join(s)
    return out


def edge_names(tree):
    import re

    tips = re.findall(r"[a-e]", tree)
    n_internal = tree.count("(") - 1
    return tips + [f"edge.{i}" for i in range(n_internal)]


def scope_rules(rng, params, edges, kind):
    """set_param_rule kwargs giving the named params a scope; kind: independent | edgeset"""
    if kind == "independent":
        return [dict(par_name=p, is_independent=True) for p in params]
    es = sorted(rng.sample(edges, rng.randint(1, max(1, len(edges) - 1))))
    return [dict(par_name=p, edges=es) for p in params]


def rand_nested(rng, tier, codon=False):
    n = rng.choice([3, 4, 4, 5]) if not codon else 3
    tree = rng.choice(TREES[n])
    edges = edge_names(tree)
    null_opt = dict(max_evaluations=rng.choice([15, 40, 80]), limit_action="ignore", local=True)
    alt_opt = dict(max_evaluations=rng.choice([3, 10, 25]), limit_action="ignore", local=rng.choice([True, True, None]))
    if alt_opt["local"] is None:
        alt_opt["seed"] = rng.randint(0, 999)
    if codon:
        seqs = rand_codon_aln(rng, n, rng.choice([15, 25]))
        a, b = rng.choice(CODON_CHAINS)
        null, alt = dict(sm=a), dict(sm=b)
        cls = "codon-matrix"
        if rng.random() < 0.3 and a == "MG94HKY":
            alt = dict(sm="MG94HKY", rules=scope_rules(rng, ["omega"], edges, rng.choice(["independent", "edgeset"])))
            cls = "codon-scope"
        return dict(kind="nested", seqs=seqs, tree=tree, null=null, alt=alt, null_opt=null_opt, alt_opt=alt_opt, cls=cls)
    seqs = rand_nuc_aln(rng, n, rng.choice([30, 60, 120]))
    u = rng.random()
    if u < 0.04:
        gam = dict(sm_args=dict(ordered_param="rate", distribution="gamma"), lf_args=dict(bins=2))
        a, b = rng.choice([("HKY85", "GTR"), ("F81", "HKY85")])
        return dict(kind="nested", seqs=seqs, tree=tree, null=dict(sm=a, **gam), alt=dict(sm=b, **gam), null_opt=null_opt,
                    alt_opt=alt_opt, cls="bins")
    if u < 0.4:
        a, b = rng.choice(NUC_CHAINS)
        null, alt, cls = dict(sm=a), dict(sm=b), ("matrix" if b not in ("GN", "ssGN") else "matrix-nonstationary")
        if a in ("GN", "ssGN"):
            cls = "matrix-nonstationary"
    elif u < 0.5:
        a, b = rng.choice(NUC_OMP)
        null, alt, cls = dict(sm=a), dict(sm=b, sm_args=dict(optimise_motif_probs=True)), "matrix+mprobs"
    elif u < 0.7:
        # same model, richer scope
        m = rng.choice(["HKY85", "TN93", "GTR"])
        ps = rng.sample(RATE_PARAMS[m], rng.randint(1, len(RATE_PARAMS[m])))
        null, alt, cls = dict(sm=m), dict(sm=m, rules=scope_rules(rng, ps, edges, rng.choice(["independent", "edgeset"]))), "scope"
    elif u < 0.8:
        # edge-set scope refined to independent
        m = rng.choice(["HKY85", "TN93", "GTR"])
        ps = rng.sample(RATE_PARAMS[m], rng.randint(1, len(RATE_PARAMS[m])))
        r0 = scope_rules(rng, ps, edges, "edgeset")
        null, alt, cls = dict(sm=m, rules=r0), dict(sm=m, rules=scope_rules(rng, ps, edges, "independent")), "scope-refine"
    else:
        # richer matrix AND scope: null has an edge-set scope on its parameters, alt the same edge set on some/all of its own
        a, b = rng.choice([("HKY85", "GTR"), ("HKY85", "TN93"), ("TN93", "GTR"), ("F81", "HKY85"), ("F81", "GTR")])
        es = sorted(rng.sample(edges, rng.randint(1, len(edges) - 1)))
        nrules = [dict(par_name=p, edges=es) for p in RATE_PARAMS.get(a, [])]
        which = rng.choice(["all", "some"])
        bp = RATE_PARAMS[b] if which == "all" else rng.sample(RATE_PARAMS[b], rng.randint(1, len(RATE_PARAMS[b])))
        if a != "F81":
            # the alt must at least scope the parameters the null's scoped parameter projects onto
            need = {"HKY85": {"GTR": ["A/G", "C/T"], "TN93": ["kappa_y", "kappa_r"]}, "TN93": {"GTR": ["A/G", "C/T"]}}[a][b]
            bp = sorted(set(bp) | set(need))
        null, alt = dict(sm=a, rules=nrules), dict(sm=b, rules=[dict(par_name=p, edges=es) for p in bp])
        cls = "matrix+scope"
    return dict(kind="nested", seqs=seqs, tree=tree, null=null, alt=alt, null_opt=null_opt, alt_opt=alt_opt, cls=cls)


def rand_nested_const(rng):
    """nulls that hold a rate term CONSTANT (everywhere, on some edges, at its fitted value, mixed with free terms);
    alternates of the same kind and non-stationary ones"""
    n = rng.choice([3, 4, 4, 5])
    tree = rng.choice(TREES[n])
    edges = edge_names(tree)
    seqs = rand_nuc_aln(rng, n, rng.choice([60, 120]))
    null_sm = rng.choice(["HKY85", "TN93", "GTR", "GTR"])
    alt_sm = rng.choice({"HKY85": ["GTR", "GN", "TN93", "HKY85+scope"], "TN93": ["GTR", "GN"], "GTR": ["GN", "GN", "GTR+scope"]}[null_sm])
    pars = RATE_PARAMS[null_sm]
    chosen = rng.sample(pars, rng.randint(1, max(1, len(pars) - 1)) if len(pars) > 1 else 1)
    rules, post = [], []
    for p in chosen:
        u = rng.random()
        val = round(rng.uniform(0.3, 6.0), 3)
        if u < 0.4:
            rules.append(dict(par_name=p, is_constant=True, value=val))
        elif u < 0.75:
            rules.append(dict(par_name=p, edges=sorted(rng.sample(edges, rng.randint(1, len(edges) - 1))), is_constant=True, value=val))
        else:
            post.append(dict(par_name=p, is_constant=True))   # constant at the fitted value
    alt = dict(sm=alt_sm.split("+")[0])
    if alt_sm.endswith("+scope"):
        alt["rules"] = [dict(par_name=p, is_independent=True) for p in pars]
    c = dict(kind="nested", seqs=seqs, tree=tree, null=dict(sm=null_sm, rules=rules), alt=alt,
             null_opt=dict(max_evaluations=rng.choice([20, 60]), limit_action="ignore", local=True),
             alt_opt=dict(max_evaluations=rng.choice([3, 10]), limit_action="ignore", local=True),
             cls="const-nonstationary" if alt["sm"] == "GN" else "const")
    if post:
        c["null_post"] = post
    return c


def corpus_nested():
    """fixed witnesses seen during construction (always run first)"""
    rng = random.Random(3)
    seqs = rand_nuc_aln(rng, 4, 60)
    es = ["a", "b"]
    opt = dict(max_evaluations=40, limit_action="ignore", local=True)
    aopt = dict(max_evaluations=15, limit_action="ignore", local=True)
    return [
        dict(kind="nested", seqs=seqs, tree="((a,b),c,d)", null=dict(sm="HKY85", rules=[dict(par_name="kappa", edges=es)]),
             alt=dict(sm="GTR", rules=[dict(par_name=p, edges=es) for p in RATE_PARAMS["GTR"]]), null_opt=opt, alt_opt=aopt,
             cls="matrix+scope"),
        dict(kind="nested", seqs=seqs, tree="((a,b),c,d)", null=dict(sm="HKY85", rules=[dict(par_name="kappa", edges=es)]),
             alt=dict(sm="GTR", rules=[dict(par_name=p, edges=es) for p in ("A/G", "C/T")]), null_opt=opt, alt_opt=aopt,
             cls="matrix+scope"),
        dict(kind="nested", seqs=seqs, tree="((a,b),c,d)", null=dict(sm="HKY85"), alt=dict(sm="GTR"), null_opt=opt, alt_opt=aopt,
             cls="matrix"),
        dict(kind="nested", seqs=seqs, tree="((a,b),c,d)", null=dict(sm="GTR"), alt=dict(sm="GN"), null_opt=opt, alt_opt=aopt,
             cls="matrix-nonstationary"),
        # a CONSTANT rate term in the null, projected onto a non-stationary alternate (everywhere / on some edges)
        dict(kind="nested", seqs=seqs, tree="((a,b),c,d)", null=dict(sm="GTR", rules=[dict(par_name="A/G", is_constant=True, value=2.0)]),
             alt=dict(sm="GN"), null_opt=opt, alt_opt=aopt, cls="const-nonstationary"),
        dict(kind="nested", seqs=seqs, tree="((a,b),c,d)",
             null=dict(sm="GTR", rules=[dict(par_name="A/G", edges=es, is_constant=True, value=2.0)]),
             alt=dict(sm="GN"), null_opt=opt, alt_opt=aopt, cls="const-nonstationary"),
        dict(kind="nested", seqs=seqs, tree="((a,b),c,d)", null=dict(sm="HKY85", rules=[dict(par_name="kappa", is_constant=True, value=3.0)]),
             alt=dict(sm="GTR"), null_opt=opt, alt_opt=aopt, cls="const"),
        # rich = simple + an extra predicate inside existing ones (H04GGK's G.K lies inside G and kappa)
        dict(kind="nested", seqs=rand_codon_aln(random.Random(11), 3, 25), tree="(a,b,c)", null=dict(sm="H04G"), alt=dict(sm="H04GGK"),
             null_opt=dict(max_evaluations=60, limit_action="ignore", local=True),
             alt_opt=dict(max_evaluations=10, limit_action="ignore", local=True), cls="codon-matrix"),
    ]


def corpus_hyp():
    rng = random.Random(3)
    seqs = rand_nuc_aln(rng, 4, 60)
    th = [dict(edges=["a", "b"], is_independent=False)]
    gam = dict(sm_args=dict(ordered_param="rate", distribution="gamma"), lf_args=dict(bins=2))
    out = []
    for me in (5, 100):
        opt = dict(max_evaluations=me, limit_action="ignore")
        out.append(dict(kind="hyp", seqs=seqs, tree="((a,b),c,d)", null=dict(sm="HKY85", name="null", app_args=dict(time_het=th)),
                        alts=[dict(sm="GTR", name="alt", app_args=dict(time_het=th))], opt=opt, cls="time_het"))
        out.append(dict(kind="hyp", seqs=seqs, tree="((a,b),c,d)", null=dict(sm="HKY85", name="null"),
                        alts=[dict(sm="GTR", name="alt")], opt=opt, cls="plain"))
        out.append(dict(kind="hyp", seqs=seqs, tree="((a,b),c,d)", null=dict(sm="HKY85", name="null", **gam),
                        alts=[dict(sm="GTR", name="alt", **gam)], opt=opt, cls="bins"))
    out.append(dict(kind="hyp", seqs=rand_codon_aln(random.Random(11), 3, 25), tree="(a,b,c)", null=dict(sm="H04G", name="null"),
                    alts=[dict(sm="H04GGK", name="alt")], opt=dict(max_evaluations=25, limit_action="ignore"), cls="codon-extra-predicate"))
    return out


def rand_hyp(rng):
    n = rng.choice([3, 4, 4, 5])
    tree = rng.choice(TREES[n])
    edges = edge_names(tree)
    seqs = rand_nuc_aln(rng, n, rng.choice([30, 60, 120]))
    opt = dict(max_evaluations=rng.choice([2, 5, 20, 60, 150]), limit_action="ignore")
    u = rng.random()
    if u < 0.45:
        chain = rng.choice([["F81", "HKY85", "GTR"], ["HKY85", "GTR"], ["HKY85", "TN93", "GTR"], ["F81", "GTR", "GN"], ["JC69", "K80"],
                            ["HKY85", "GN"], ["TN93", "GTR", "GN"]])
        return dict(kind="hyp", seqs=seqs, tree=tree, null=dict(sm=chain[0], name="m0"),
                    alts=[dict(sm=m, name=f"m{i + 1}") for i, m in enumerate(chain[1:])], opt=opt, cls="plain")
    if u < 0.8:
        es = sorted(rng.sample(edges, rng.randint(1, len(edges) - 1)))
        th = [dict(edges=es, is_independent=False)]
        a, b = rng.choice([("HKY85", "GTR"), ("HKY85", "TN93"), ("TN93", "GTR"), ("HKY85", "HKY85")])
        if a == b:
            return dict(kind="hyp", seqs=seqs, tree=tree, null=dict(sm=a, name="null"),
                        alts=[dict(sm=b, name="alt", app_args=dict(time_het=th))], opt=opt, cls="time_het-alt-only")
        return dict(kind="hyp", seqs=seqs, tree=tree, null=dict(sm=a, name="null", app_args=dict(time_het=th)),
                    alts=[dict(sm=b, name="alt", app_args=dict(time_het=th))], opt=opt, cls="time_het")
    gam = dict(sm_args=dict(ordered_param="rate", distribution="gamma"), lf_args=dict(bins=rng.choice([2, 3])))
    a, b = rng.choice([("HKY85", "GTR"), ("F81", "HKY85")])
    return dict(kind="hyp", seqs=seqs, tree=tree, null=dict(sm=a, name="null", **gam), alts=[dict(sm=b, name="alt", **gam)], opt=opt,
                cls="bins")


RICHER = {"F81": ["HKY85", "GTR"], "HKY85": ["TN93", "GTR"], "TN93": ["GTR"], "GTR": []}
HYP_DIFFS = ["time_het=max", "time_het=edges", "param_rules", "model", "model+time_het=max", "model,both time_het=edges",
             "time_het edges->max", "model,both time_het=max"]


def hyp_opts_case(seqs, tree, edges, rng, null_sm, diff, app="hypothesis", sequential=True, init_alt=None, max_evaluations=10):
    """one (null, alt) pair of model apps differing by `diff`; the alternate always nests the null"""
    es = sorted(rng.sample(edges, rng.randint(1, len(edges) - 1)))
    th_edges = [dict(edges=es, is_independent=rng.random() < 0.25 and len(es) > 1)]
    alt_sm = null_sm
    if diff.startswith("model"):
        if not RICHER[null_sm]:
            null_sm = "HKY85"
        alt_sm = rng.choice(RICHER[null_sm])
    elif null_sm == "F81":
        null_sm = alt_sm = "HKY85"  # F81 has no rate parameter to scope
    null, alt = dict(sm=null_sm, name="null"), dict(sm=alt_sm, name="alt")
    if diff in ("time_het=max", "model+time_het=max"):
        alt["app_args"] = dict(time_het="max")
    elif diff == "time_het=edges":
        alt["app_args"] = dict(time_het=th_edges)
    elif diff == "param_rules":
        par = rng.choice(RATE_PARAMS[alt_sm])
        alt["app_args"] = dict(param_rules=[dict(par_name=par, edges=es)])
    elif diff == "model,both time_het=edges":
        th = [dict(edges=es, is_independent=False)]
        null["app_args"], alt["app_args"] = dict(time_het=th), dict(time_het=th)
    elif diff == "time_het edges->max":
        null["app_args"], alt["app_args"] = dict(time_het=[dict(edges=es, is_independent=False)]), dict(time_het="max")
    elif diff == "model,both time_het=max":
        null["app_args"], alt["app_args"] = dict(time_het="max"), dict(time_het="max")
    c = dict(kind="hyp", seqs=seqs, tree=tree, null=null, alts=[alt], opt=dict(max_evaluations=max_evaluations, limit_action="ignore"),
             cls="opts", diff=diff, app=app, sequential=sequential)
    if init_alt:
        c["init_alt"] = init_alt
    return c


def rand_hyp_opts(rng):
    n = rng.choice([3, 4, 4, 5])
    tree = rng.choice(TREES[n])
    seqs = rand_nuc_aln(rng, n, rng.choice([30, 60]))
    return hyp_opts_case(seqs, tree, edge_names(tree), rng, rng.choice(["HKY85", "HKY85", "TN93", "GTR", "F81"]), rng.choice(HYP_DIFFS),
                         app=rng.choice(["hypothesis", "hypothesis", "model_collection"]), sequential=rng.random() < 0.8,
                         init_alt="identity" if rng.random() < 0.12 else None, max_evaluations=rng.choice([3, 10, 25, 60]))


def corpus_hyp_opts():
    """alternates that differ from the null ONLY by scope, small evaluation limits (always run)"""
    rng = random.Random(5)
    seqs = rand_nuc_aln(rng, 4, 60)
    tree = "((a,b),c,d)"
    edges = edge_names(tree)
    out = [
        hyp_opts_case(seqs, tree, edges, rng, "HKY85", "time_het=max", max_evaluations=10),
        hyp_opts_case(seqs, tree, edges, rng, "GTR", "time_het=max", app="model_collection", max_evaluations=40),
        hyp_opts_case(seqs, tree, edges, rng, "HKY85", "time_het=edges", max_evaluations=10),
        hyp_opts_case(seqs, tree, edges, rng, "TN93", "param_rules", max_evaluations=10),
        hyp_opts_case(seqs, tree, edges, rng, "HKY85", "model+time_het=max", max_evaluations=10),
        hyp_opts_case(seqs, tree, edges, rng, "HKY85", "time_het edges->max", max_evaluations=25),
        hyp_opts_case(seqs, tree, edges, rng, "HKY85", "time_het=max", sequential=False, max_evaluations=10),
        hyp_opts_case(seqs, tree, edges, rng, "HKY85", "time_het=max", init_alt="identity", max_evaluations=10),
    ]
    return out


def rand_lfopt(rng):
    n = rng.choice([3, 4, 4])
    tree = rng.choice(TREES[n])
    seqs = rand_nuc_aln(rng, n, rng.choice([30, 60]))
    m = rng.choice(["F81", "HKY85", "TN93", "GTR", "GN", "HKY85", "GTR"])
    model = dict(sm=m)
    if rng.random() < 0.3 and m in RATE_PARAMS:
        model["rules"] = scope_rules(rng, RATE_PARAMS[m][:1], edge_names(tree), "independent")
    local = rng.choice([True, True, False, None])
    opt = dict(local=local, max_evaluations=rng.choice([1, 2, 5, 20, 50, 120]) if local is True else rng.choice([1, 5, 40, 150]),
               limit_action=rng.choice(["ignore", "warn", "raise"]), tolerance=rng.choice([1e-6, 1e-3]))
    if local is not True:
        opt["seed"] = rng.randint(0, 10 ** 6)
    if local is True and rng.random() < 0.2:
        opt["max_evaluations"] = None
        opt["tolerance"] = 1e-2
    return dict(kind="lfopt", seqs=seqs, tree=tree, model=model, start_seed=rng.randint(0, 10 ** 6), opt=opt)


def lfbounds_case(rng, seqs, tree, sm, par, max_evaluations=80):
    """bounds declared on one or two scopes of a parameter, then a rule that splits scopes WITHOUT restating bounds"""
    edges = edge_names(tree)
    steps = []
    regions = [sorted(rng.sample(edges, rng.randint(1, len(edges) - 1)))]
    if rng.random() < 0.4:
        rest = [e for e in edges if e not in regions[0]]
        if len(rest) > 1:
            regions.append(sorted(rng.sample(rest, rng.randint(1, len(rest) - 1))))
    for reg in regions:
        if rng.random() < 0.7:
            lo, hi = rng.choice([0.05, 0.2, 0.5]), rng.choice([1.05, 1.3, 2.0])
        else:
            lo, hi = rng.choice([3.0, 6.0]), rng.choice([8.0, 20.0])
        st = dict(par_name=par, edges=reg, lower=lo, upper=hi, init=round(rng.uniform(lo, hi), 3))
        if rng.random() < 0.5:
            st["is_independent"] = rng.random() < 0.5
        steps.append(st)
    u = rng.random()
    if u < 0.45:
        steps.append(dict(par_name=par, is_independent=True))
    elif u < 0.75:
        steps.append(dict(par_name=par, edges=sorted(rng.sample(edges, rng.randint(2, len(edges)))), is_independent=True))
    elif u < 0.9:
        steps.append(dict(op="time_het", edge_sets=[dict(edges=sorted(rng.sample(edges, rng.randint(2, len(edges) - 1))), is_independent=True)]))
    else:
        steps.append(dict(op="time_het", is_independent=True))
    return dict(kind="lfbounds", seqs=seqs, tree=tree, sm=sm, pars=[par], steps=steps,
                opt=dict(local=True, max_evaluations=max_evaluations, limit_action="ignore"))


def rand_lfbounds(rng):
    n = rng.choice([3, 4, 4, 5])
    tree = rng.choice(TREES[n])
    sm = rng.choice(["HKY85", "HKY85", "GTR", "TN93"])
    return lfbounds_case(rng, rand_nuc_aln(rng, n, rng.choice([60, 120])), tree, sm, rng.choice(RATE_PARAMS[sm]),
                         max_evaluations=rng.choice([40, 80, 150]))


def corpus_lfbounds():
    rng = random.Random(4)
    seqs = rand_nuc_aln(rng, 4, 120)
    base = dict(kind="lfbounds", seqs=seqs, tree="((a,b),c,d)", sm="HKY85", pars=["kappa"],
                opt=dict(local=True, max_evaluations=150, limit_action="ignore"))
    return [
        dict(base, steps=[dict(par_name="kappa", edges=["a", "b"], upper=1.2, lower=0.5, init=1.0), dict(par_name="kappa", is_independent=True)]),
        dict(base, steps=[dict(par_name="kappa", edges=["a"], upper=1.05, lower=0.2, init=1.0),
                          dict(op="time_het", edge_sets=[dict(edges=["a", "c", "d"], is_independent=True)])]),
        dict(base, steps=[dict(par_name="kappa", edges=["c", "d"], upper=20.0, lower=6.0, init=7.0),
                          dict(par_name="kappa", edges=["b", "c", "d"], is_independent=True)]),
    ]


def roundtrip_classes():
    """floats u by the direction in which exp(log(u)) misses u (log-scale parameters are handed to the optimiser
    as log(value) and come back as exp(...))"""
    import numpy

    cand = [0.05, 0.1, 0.15, 0.2, 0.3, 0.35, 0.45, 0.7, 1.1, 1.4, 1.7, 2.0, 2.2, 3.0, 3.3, 4.4, 5.0, 6.6, 7.0, 9.0, 10.0, 11.0,
            12.5, 14.0, 17.0, 20.0, 25.0]
    out = dict(above=[], below=[], equal=[])
    for u in cand:
        r = float(numpy.exp(numpy.log(u)))
        out["above" if r > u else "below" if r < u else "equal"].append(u)
    return out


def on_bound_case(rng, side, direction, scale="log", scoped=False, max_evaluations=60):
    """the start is EXACTLY on a declared bound and the data want a value beyond it, so the best point stays on the
    bound; direction = how exp(log(bound)) misses the bound"""
    rt = roundtrip_classes()
    tree = "((a,b),c,d)"
    edges = edge_names(tree)
    if scale == "log":
        pool = rt[direction] or rt["equal"]
        if side == "upper":
            b = rng.choice([u for u in pool if u <= 11.0] or pool)
            seqs = rand_nuc_aln(rng, 4, 120, ts=0.97, rate=0.35)      # very transition rich: kappa wants to be large
            st = dict(par_name="kappa", upper=b, lower=min(0.01, b / 10), init=b)
        else:
            b = rng.choice([u for u in pool if u >= 3.0] or pool)
            seqs = rand_nuc_aln(rng, 4, 120, ts=0.0, rate=0.35)       # no transition excess: kappa wants to be about 1
            st = dict(par_name="kappa", lower=b, upper=b * 50, init=b)
        if scoped:
            st["edges"] = sorted(rng.sample(edges, 2))
        return dict(kind="lfbounds", seqs=seqs, tree=tree, sm=rng.choice(["HKY85", "HKY85", "K80"]), pars=["kappa"], steps=[st],
                    opt=dict(local=True, max_evaluations=max_evaluations, limit_action="ignore"),
                    on_bound=dict(side=side, direction=direction, scale=scale, bound=b))
    # linear scale: a branch length
    e = rng.choice(["a", "b", "c", "d"])
    if side == "upper":
        b = rng.choice([0.03, 0.05, 0.07])
        seqs = rand_nuc_aln(rng, 4, 120, rate=0.45)                    # long branches wanted
        st = dict(par_name="length", edge=e, upper=b, lower=0.0, init=b)
    else:
        b = rng.choice([0.3, 0.7, 1.1])
        seqs = rand_nuc_aln(rng, 4, 120, rate=0.02)                    # nearly identical sequences: short branches wanted
        st = dict(par_name="length", edge=e, lower=b, upper=10.0, init=b)
    return dict(kind="lfbounds", seqs=seqs, tree=tree, sm="HKY85", pars=["length"], steps=[st],
                opt=dict(local=True, max_evaluations=max_evaluations, limit_action="ignore"),
                on_bound=dict(side=side, direction=direction, scale=scale, bound=b))


def corpus_on_bound():
    rng = random.Random(9)
    out = []
    for side in ("upper", "lower"):
        for direction in ("above", "below"):
            out.append(on_bound_case(rng, side, direction))
    out.append(on_bound_case(rng, "upper", "above", scoped=True))
    out.append(on_bound_case(rng, "upper", "equal", scale="linear"))
    out.append(on_bound_case(rng, "lower", "equal", scale="linear"))
    return out


def rand_on_bound(rng):
    if rng.random() < 0.2:
        return on_bound_case(rng, rng.choice(["upper", "lower"]), "equal", scale="linear", max_evaluations=rng.choice([20, 60]))
    return on_bound_case(rng, rng.choice(["upper", "upper", "lower"]), rng.choice(["above", "above", "below", "equal"]),
                         scoped=rng.random() < 0.3, max_evaluations=rng.choice([5, 20, 60]))


def declared_bounds(c, r):
    """the bounds DECLARED for every (parameter, edge) cell: model defaults, then every rule that states a bound, the
    last statement covering the cell wins; rules that only re-scope a parameter change nothing"""
    edges = r["edges"]
    out = {}
    for par in c["pars"]:
        lo0, hi0 = r["defaults"][par]
        cell = {e: [lo0, hi0] for e in edges}
        for st in c["steps"]:
            if st.get("op") == "time_het" or st.get("par_name") != par:
                continue
            for e in (st.get("edges") or ([st["edge"]] if st.get("edge") else edges)):
                if st.get("lower") is not None:
                    cell[e][0] = st["lower"]
                if st.get("upper") is not None:
                    cell[e][1] = st["upper"]
        out[par] = cell
    return out


def oracle_lfbounds(c, r):
    if "values" not in r:
        return [("lfbounds:raised", r.get("tb", "")[-300:])]
    bad = []
    decl = declared_bounds(c, r)
    for par, byedge in r["values"].items():
        for e, v in byedge.items():
            lo, hi = decl[par][e]
            tol = 1e-9 * max(1.0, abs(hi))
            if not (lo - tol <= v <= hi + tol):
                bad.append(("lfbounds:optimised-value-outside-declared-bounds",
                            f"{par}[{e}] = {v} but the bounds declared for that cell are [{lo}, {hi}]"))
                break
    if not bad:
        for par, byedge in r.get("held", {}).items():
            for e, (lo, hi) in byedge.items():
                dlo, dhi = decl[par][e]
                if abs(lo - dlo) > 1e-12 * max(1.0, abs(dlo)) or abs(hi - dhi) > 1e-12 * max(1.0, abs(dhi)):
                    bad.append(("lfbounds:held-bounds-differ-from-declared",
                                f"{par}[{e}]: the function holds [{lo}, {hi}] but [{dlo}, {dhi}] was declared for that cell"))
                    break
            if bad:
                break
    if not (r["after"] >= r["before"] - MONO_TOL):
        bad.append(("lfbounds:lost-likelihood", f"lnL {r['before']} -> {r['after']}"))
    # the finally-clause of optimise copies the optimiser's best point into the likelihood function: same lnL
    if r.get("calc_best") is not None and abs(r["after"] - r["calc_best"]) > 1e-6 * max(1.0, abs(r["calc_best"])):
        bad.append(("lfbounds:lf-not-left-at-optimisers-best-point",
                    f"the calculator ends at its best value {r['calc_best']} but the likelihood function has lnL {r['after']}"))
    return bad


EQ_TOL = 1e-6      # lnL(alt initialised) vs lnL(null)
MONO_TOL = 1e-9    # optimisation never loses


def slack_ok(r):
    s = r.get("slack")
    if s is None or s == math.inf:
        return True
    who = r.get("slack_who") or [None, None, None, 0.0, 1.0]
    return s >= -1e-9 * max(1.0, abs(who[4]))


def oracle_nested(c, r):
    """list of (key, description)"""
    bad = []
    if "exc" in r and "lnL_null" not in r:
        return [("nested:harness-or-model-construction-raised:" + c["cls"], r.get("tb", "")[-300:])]
    if "init_exc" in r and r["init_exc"][0] == "NotImplementedError" and c["cls"] == "bins":
        return []  # explicit refusal (more than one bin); its silent consequence is checked at the hypothesis app
    if "init_exc" in r:
        et = r["init_exc"][0]
        return [(f"nested:init-raises:{et}:{c['cls']}", f"initialise_from_nested raised {r['init_exc']} for a nested pair")]
    at_bound = r.get("slack_init") is not None and r["slack_init"] <= 1e-12
    # a projected value outside the alternate's declared bounds is clipped to the bound by the parameter
    # controller: the nested optimum is then not representable and the specification is silent on equality
    if abs(r["lnL_alt_init"] - r["lnL_null"]) > EQ_TOL and not at_bound:
        bad.append((f"nested:init-lnL-differs:{c['cls']}", f"lnL(alt at init)={r['lnL_alt_init']} != lnL(null)={r['lnL_null']}"))
    if abs(r["lnL_null_after"] - r["lnL_null"]) > 1e-9:
        bad.append((f"nested:null-changed:{c['cls']}", "initialise_from_nested changed the nested function"))
    if "lnL_alt_fit" in r:
        if r["lnL_alt_fit"] < r["lnL_alt_init"] - MONO_TOL:
            bad.append((f"nested:optimise-lost-likelihood:{c['cls']}", f"{r['lnL_alt_fit']} < {r['lnL_alt_init']}"))
        if not slack_ok(r):
            bad.append((f"nested:out-of-bounds:{c['cls']}", str(r.get("slack_who"))))
    return bad


def hyp_label(c):
    """(null model, alternate models, differing-by, app, sequential, init_alt) for the evidence"""
    def th(spec):
        t = spec.get("app_args", {}).get("time_het")
        extra = []
        if t is not None:
            extra.append("time_het=max" if t == "max" else "time_het=edges")
        if spec.get("app_args", {}).get("param_rules"):
            extra.append("param_rules")
        if spec.get("lf_args"):
            extra.append("bins")
        return spec["sm"] + ("[" + ",".join(extra) + "]" if extra else "")
    return (f"{th(c['null'])} -> {' -> '.join(th(a) for a in c['alts'])} | {c.get('diff', c['cls'])} | {c.get('app', 'hypothesis')} | "
            f"sequential={c.get('sequential', True)} | init_alt={c.get('init_alt')}")


def oracle_hyp(c, r):
    """hypothesis / model_collection on nested chains.  With sequential initialisation (and no init_alt) every
    alternate must really have been initialised from the preceding fit: initialise_from_nested was called, did not
    raise (app.evo._InitFrom swallows every exception), reproduced the lnL, the alternate still had that lnL when
    its optimisation started, and so lnL never decreases along the chain (LR >= 0).  In every configuration no
    optimise call may lose likelihood."""
    if "not_completed" in r or ("exc" in r and "lnL" not in r):
        return [(f"hyp:not-completed:{c['cls']}", str(r)[:300])]
    bad = []
    for p in r["per"]:
        for s0, e0 in p["opt"]:
            if e0 is not None and e0 < s0 - MONO_TOL:
                bad.append(("hyp:optimise-lost-likelihood", f"an optimise call inside the app went from lnL {s0} to {e0}"))
    if not (c.get("sequential", True) and c.get("init_alt") is None):
        return bad  # alternates start from defaults by request: with an evaluation limit LR may legitimately be negative
    for i in range(1, len(r["lnL"])):
        p = r["per"][i]
        ini = p["init"][-1] if p["init"] else None
        prev = r["lnL"][i - 1]
        start = p["opt"][-1][0] if p["opt"] else None
        refused = ini is not None and ini.get("exc") == "NotImplementedError" and c["cls"] == "bins"
        clipped = ini is not None and "exc" not in ini and ini["slack_init"] is not None and ini["slack_init"] <= 1e-12
        cause = None
        if ini is None:
            cause = "alternate-not-initialised-from-null"
            bad.append(("hyp:alternate-not-initialised-from-null", f"model {i}: initialise_from_nested was never called on it"))
        elif "exc" in ini:
            cause = "init-raised:" + ini["exc"]
            if not refused:
                bad.append((f"hyp:init-swallowed:{ini['exc']}", f"model {i}: initialise_from_nested raised {ini['exc']} on a nested "
                                                                f"pair (nfp {ini['nfp_nested']} -> {ini['nfp_self']}) and the app "
                                                                "swallowed it: the alternate starts from defaults"))
        elif clipped:
            # the nested optimum lies outside the alternate's declared bounds (clipped): not nested within the bounds
            continue
        elif abs(ini["lnL_init"] - ini["lnL_nested"]) > EQ_TOL:
            cause = "init-lnL-differs"
            bad.append(("hyp:init-lnL-differs", f"model {i}: lnL after initialisation {ini['lnL_init']} != nested {ini['lnL_nested']}"))
        elif ini["nfp_self"] != r["nfp"][i]:
            cause = "initialised-before-fully-configured"
            bad.append(("hyp:initialised-before-fully-configured",
                        f"model {i} had {ini['nfp_self']} free parameters when initialise_from_nested ran but {r['nfp'][i]} when "
                        "fitted: it was initialised before its configuration (time_het / param_rules) was complete"))
        elif abs(ini["lnL_nested"] - prev) > EQ_TOL:
            cause = "initialised-from-another-model"
            bad.append(("hyp:initialised-from-another-model", f"model {i} was initialised from a function with lnL "
                                                              f"{ini['lnL_nested']}, the preceding fit has {prev}"))
        elif start is not None and start < prev - EQ_TOL:
            cause = "changed-after-init"
            bad.append(("hyp:alt-start-below-null:changed-after-init",
                        f"model {i}: lnL {start} when its optimisation started, preceding model finished at {prev}"))
        if r["lnL"][i] < prev - EQ_TOL:
            bad.append((f"hyp:LR-negative:{cause or 'optimiser-lost-likelihood'}",
                        f"lnL {r['lnL']} (nfp {r['nfp']}): LR = {2 * (r['lnL'][i] - prev)}; sequential initialisation: {ini}"))
            break
    return bad


def oracle_lfopt(c, r):
    if "before" not in r:
        return [("lfopt:raised", r.get("tb", "")[-300:])]
    bad = []
    loc_ = {True: "local", False: "global", None: "global+local"}[c["opt"]["local"]]
    if not (r["after"] >= r["before"] - MONO_TOL):
        bad.append((f"lfopt:lost-likelihood:{loc_}:{c['opt']['limit_action']}", f"lnL {r['before']} -> {r['after']}"))
    if not slack_ok(r):
        bad.append((f"lfopt:out-of-bounds:{loc_}", str(r.get("slack_who"))))
    if r.get("calc_best") is not None and abs(r["after"] - r["calc_best"]) > 1e-6 * max(1.0, abs(r["calc_best"])):
        bad.append((f"lfopt:lf-not-left-at-optimisers-best-point:{loc_}",
                    f"calculator best {r['calc_best']}, likelihood function {r['after']}"))
    if r["exc"] not in (None, "arith") or (r["exc"] == "arith" and c["opt"]["limit_action"] != "raise"):
        bad.append((f"lfopt:unexpected-exception:{loc_}", str(r["exc"])))
    return bad


# ====================================================================== parameter mapping / scoped rules (model NestedRun)

PMAP_PAIRS = [("F81", "HKY85"), ("HKY85", "TN93"), ("TN93", "GTR"), ("HKY85", "GTR"), ("F81", "GTR"), ("K80", "HKY85"), ("JC69", "K80"),
              ("GTR", "GN"), ("HKY85", "GN"), ("TN93", "GN"), ("K80", "ssGN"), ("ssGN", "GN"), ("JC69", "GN"), ("F81", "GN")]
PMAP_CODON_QUICK = [("MG94HKY", "MG94GTR"), ("H04G", "H04GGK")]
PMAP_CODON = [("MG94HKY", "MG94GTR"), ("CNFHKY", "CNFGTR"), ("H04G", "H04GGK"), ("H04GK", "H04GGK"), ("GY94", "MG94GTR")]


def rand_pmap(rng):
    """synthetic coordinate dictionaries: a few simple parameters, rich parameters mostly refining them"""
    dim = rng.choice([3, 4])
    cells = [(i, j) for i in range(dim) for j in range(dim) if i != j]
    ns = rng.randint(0, 3)
    simple = []
    for k in range(ns):
        simple.append([f"s{k}", sorted(rng.sample(cells, rng.randint(1, 6)))])
    if rng.random() < 0.3 and simple:
        # nested/overlapping simple parameters (exercise the smallest-superset rule and ties)
        base = simple[0][1]
        simple.append([f"s{len(simple)}", sorted(set(base) | set(rng.sample(cells, 2)))])
    used = {c for _, cs in simple for c in cs}
    rest = [c for c in cells if c not in used]
    if rest:
        simple.append(["ref_cell", sorted(rest)])
    if rng.random() < 0.3 and simple:
        # rich = the simple parameters unchanged + extra predicates (as H04G -> H04GGK)
        rich = [[n, list(cs)] for n, cs in simple if n != "ref_cell"]
        have = {tuple(map(tuple, cs)) for _, cs in simple}
        for k in range(rng.randint(1, 3)):
            cs = sorted(rng.sample(cells, rng.randint(1, 4)))
            if tuple(cs) not in have:  # a predicate identical to an existing one is not an "extra" predicate
                have.add(tuple(cs))
                rich.append([f"x{k}", cs])
        rng.shuffle(rich)
        rich.append(["ref_cell", [rng.choice(cells)]])
        return dict(kind="pmap", rich=[[n, [list(c) for c in cs]] for n, cs in rich],
                    simple=[[n, [list(c) for c in cs]] for n, cs in simple])
    rich = []
    for k in range(rng.randint(len(simple), len(simple) + 4)):
        if simple and rng.random() < 0.8:
            src = rng.choice(simple)[1]
            cs = sorted(rng.sample(src, rng.randint(1, len(src))))
        else:
            cs = sorted(rng.sample(cells, rng.randint(1, 3)))
        rich.append([f"r{k}", cs])
    if rng.random() < 0.7:
        rich[-1][0] = "ref_cell"
    return dict(kind="pmap", rich=[[n, [list(c) for c in cs]] for n, cs in rich], simple=[[n, [list(c) for c in cs]] for n, cs in simple])


def rand_scoped(rng):
    edges = list("abcd")
    pars = ["p", "q", "length"]

    def rules(rich):
        out = []
        for p in pars:
            u = rng.random()
            if u < 0.25:
                continue
            if u < 0.5:
                out.append(dict(par=p, edges=None, val=rng.randint(1, 9)))
            elif u < 0.8:
                k = rng.randint(1, 3)
                es = sorted(rng.sample(edges, k))
                out.append(dict(par=p, edges=es, val=rng.randint(1, 9), single=rng.random() < 0.5))
                restes = [e for e in edges if e not in es]
                if rng.random() < 0.8:
                    out.append(dict(par=p, edges=restes, val=rng.randint(1, 9), single=rng.random() < 0.5))
            else:
                for e in edges:
                    if rng.random() < 0.9:
                        out.append(dict(par=p, edges=[e], val=rng.randint(1, 9), single=rng.random() < 0.7))
        rng.shuffle(out)
        return out

    return dict(kind="scoped", rich=rules(True), null=rules(False))


def zs(s):
    return "[" + ";".join(str(ord(ch)) for ch in s) + "]"


def coq_coords(d):
    return "[" + ";".join(f"({zs(n)}, [" + ";".join(f"({zlit(i)},{zlit(j)})" for i, j in cs) + "])" for n, cs in d) + "]"


def coq_rule(r):
    e = "None" if r["edges"] is None else "(Some [" + ";".join(zs(x) for x in r["edges"]) + "])"
    return f"(mkrule {zs(r['par'])} {e} {zlit(r['val'])})"


PRIMES = [2, 3, 5, 7, 11, 13, 17, 19, 23, 29, 31, 37, 41, 43, 47, 53]


def pmap_rules(simple):
    """one global integer-valued rule per (non reference) simple parameter + a pass-through rule"""
    rules = [dict(par=n, edges=None, val=PRIMES[i % len(PRIMES)]) for i, (n, _) in enumerate(simple) if n != "ref_cell"]
    return rules + [dict(par="length", edges=["a"], val=7)]


VARIANT = dict(keep_unmatched=False, exact_rule=False)  # set from the implementation's behaviour (kind "probe")


def coq_pmap(rich, simple):
    rules = pmap_rules(simple)
    return (f"CMap {'true' if VARIANT['exact_rule'] else 'false'} {coq_coords(rich)} {coq_coords(simple)} "
            f"[{';'.join(coq_rule(r) for r in rules)}]")


def coq_scoped(c):
    return (f"CScoped {'true' if VARIANT['keep_unmatched'] else 'false'} [{';'.join(coq_rule(r) for r in c['rich'])}] "
            f"[{';'.join(coq_rule(r) for r in c['null'])}]")


def is_extension(rich, simple):
    """the rich dictionary contains every (non reference) simple parameter unchanged, plus extra predicates"""
    rd = {n: sorted(map(tuple, cs)) for n, cs in rich}
    return all(n in rd and rd[n] == sorted(map(tuple, cs)) for n, cs in simple if n != "ref_cell") and any(
        n != "ref_cell" for n, _ in simple)


def canon_rules(rs):
    return sorted(([p, None if e is None else sorted(e), v] for p, e, v in rs), key=repr)


def exact_projection_exists(rich, simple, cap=30000):
    """brute force, independent of the code's rule: is there an assignment rich parameter -> (simple parameter
    containing it | nothing) under which every cell is covered by the same multiset of simple parameters?
    None = search space too large"""
    rp = [(n, {tuple(c) for c in cs}) for n, cs in rich if n != "ref_cell"]
    sp = [(n, {tuple(c) for c in cs}) for n, cs in simple if n != "ref_cell"]
    cells = sorted(set().union(*[cs for _, cs in rp + sp])) if rp or sp else []
    want = {c: sorted(n for n, cs in sp if c in cs) for c in cells}
    options = [[None] + [n for n, cs in sp if rcs and rcs <= cs] for _, rcs in rp]
    size = 1
    for o in options:
        size *= len(o)
        if size > cap:
            return None
    for choice in itertools.product(*options):
        if all(sorted(ch for (_, rcs), ch in zip(rp, choice) if ch is not None and c in rcs) == want[c] for c in cells):
            return True
    return False


def oracle_pmap(rich, simple, proj, nested_ok, named):
    """projection_exact on the IMPLEMENTATION's projected rules: when an exact projection exists (in particular
    when the model's nesting condition holds), on every cell the product of the rich parameters' values equals
    the product of the simple parameters' values (distinct primes, so equal products = equal multisets)"""
    if isinstance(proj, dict):
        return []  # explicit refusal (tie: ValueError; fewer rich parameters: AssertionError)
    # the specification applies to: pairs satisfying the model's nesting condition (hypothesis of
    # projection_exact); rich = simple + extra predicates; named cogent3 models for which an exact assignment
    # exists at all (brute force)
    if not (nested_ok or is_extension(rich, simple) or (named and exact_projection_exists(rich, simple))):
        return []
    theta = {r["par"]: r["val"] for r in pmap_rules(simple)}
    val = {p: v for p, e, v in proj if p != "length"}
    cells = {tuple(c) for _, cs in rich for c in cs} | {tuple(c) for _, cs in simple for c in cs}
    for c in sorted(cells):
        pr = 1
        for n, cs in rich:
            if n != "ref_cell" and list(c) in [list(x) for x in cs]:
                pr *= val.get(n, 1)
        ps = 1
        for n, cs in simple:
            if n != "ref_cell" and list(c) in [list(x) for x in cs]:
                ps *= theta[n]
        if pr != ps:
            return [("pmap:projection-not-exact:" + ("named-models" if named else "extra-predicates"),
                     f"cell {c}: rich product {pr} != simple product {ps}")]
    return []


ALL_EDGES = list("abcd")


def _by_par(rules):
    d = {}
    for r in rules:
        d.setdefault(r["par"], []).append(None if r["edges"] is None else frozenset(r["edges"]))
    return d


def _partition_like(scopes):
    if None in scopes:
        return len(scopes) == 1
    return all(a.isdisjoint(b) for i, a in enumerate(scopes) for b in scopes[i + 1:]) and all(scopes)


def scopes_nested(c):
    """both rule lists are unambiguous (per parameter: one global rule or disjoint edge sets), and every scoped
    rich rule lies inside one null rule of its parameter or is disjoint from all of them"""
    rich, null = _by_par(c["rich"]), _by_par(c["null"])
    if not all(_partition_like(v) for v in rich.values()) or not all(_partition_like(v) for v in null.values()):
        return False
    for p, scopes in rich.items():
        for es in scopes:
            if es is None:
                continue
            for ns in null.get(p, []):
                if ns is not None and not (es <= ns or es.isdisjoint(ns)):
                    return False
    return True


def value_at(rules, p, e):
    for rp, es, v in rules:
        if rp == p and (es is None or e in es):
            return v
    return None


def oracle_scoped(c, out):
    """scope_exact on the implementation's output"""
    if not scopes_nested(c):
        return []
    if isinstance(out, dict):
        return [("scoped:raises-on-nested-scopes", f"update_scoped_rules raised (exception code {out.get('exc')}) on nested scopes")]
    null = [[r["par"], r["edges"], r["val"]] for r in c["null"]]
    for r in c["rich"]:
        for e in (ALL_EDGES if r["edges"] is None else r["edges"]):
            want = value_at(null, r["par"], e)
            got = value_at(out, r["par"], e)
            if want is not None and got != want:
                return [("scoped:value-not-inherited", f"parameter {r['par']} on edge {e}: nested value {want}, alternate gets {got}")]
    return []


def compare_nested_logic(rep, pmap_cases, pmap_out, scoped_cases, scoped_out, proof_broken, disagreements, nontrivial):
    terms, meta = [], []
    for c, r in zip(pmap_cases, pmap_out):
        if "map" not in r:
            rep.violation("pmap:harness-case-raised", dict(case=c, observed_impl=r, broken="runner raised"))
            continue
        rich = r.get("rich") or c["rich"]
        simple = r.get("simple") or c["simple"]
        terms.append(coq_pmap(rich, simple))
        meta.append(("pmap", c, r, rich, simple))
    for c, r in zip(scoped_cases, scoped_out):
        terms.append(coq_scoped(c))
        meta.append(("scoped", c, r, None, None))
    vals = None
    try:
        imports = ["Model.Nested", "Spec.NestedSpec", "Model.NestedRun"]
        n_named = sum(1 for c in pmap_cases if "models" in c and "map" in pmap_out[pmap_cases.index(c)])
        # named model pairs first (codon models have thousands of cells: one coqc each, in parallel)
        vals = core.coq_eval(PROP, imports, "run_ncase", terms[:n_named], "ncase", shard=1, tag="nn") if n_named else []
        vals += core.coq_eval(PROP, imports, "run_ncase", terms[n_named:], "ncase", shard=300, tag="n")
    except core.CheckError as e:
        if not proof_broken:
            raise
        rep.notes.append(f"nested model not runnable: {str(e)[:300]}")
    n_ok = 0
    for k, (kind, c, r, rich, simple) in enumerate(meta):
        mv = vals[k] if vals is not None else None
        if kind == "pmap":
            imap = from_jsonable(r["map"])
            iproj = from_jsonable(r["proj"])
            iproj_c = canon_rules(iproj) if isinstance(iproj, list) else iproj
            nested_ok = bool(mv[2]) if mv is not None else True
            bad = oracle_pmap(rich, simple, iproj if isinstance(iproj, list) else {"exc": 1}, nested_ok, "models" in c)
            for key, what in bad:
                rep.violation(key, dict(case=dict(kind="pmap", rich=rich, simple=simple), observed_impl=dict(map=r["map"], proj=r["proj"]),
                                        expected_by_spec="per-cell products of rate parameters agree (projection_exact)", what=what,
                                        model_output=jsonable(mv), broken="projection_exact on the implementation's projected rules"))
            if mv is not None:
                mmap = mv[0] if not isinstance(mv[0], list) else sorted([k2, sorted(v)] for k2, v in mv[0] if v)
                mproj = mv[1] if not isinstance(mv[1], list) else canon_rules(mv[1])
                if not isinstance(imap, list):
                    imap_c, iproj_c = imap, imap
                else:
                    imap_c = sorted([k2, sorted(v)] for k2, v in imap)
                if (imap_c != mmap or iproj_c != mproj) and not bad:
                    disagreements.append(dict(key="pmap", case=dict(kind="pmap", rich=rich, simple=simple),
                                              observed_impl=jsonable([imap_c, iproj_c]), model_output=jsonable([mmap, mproj])))
                if isinstance(imap, list) and imap and nested_ok:
                    nontrivial.add(json.dumps(["pmap", rich, simple]))
                    n_ok += 1
        else:
            iout = from_jsonable(r)
            iout_c = canon_rules(iout) if isinstance(iout, list) else "exc"
            bad = oracle_scoped(c, iout if isinstance(iout, list) else {"exc": getattr(iout, "code", None)})
            for key, what in bad:
                rep.violation(key, dict(case=c, observed_impl=jsonable(iout), expected_by_spec="every (parameter, edge) of the alternate "
                                        "inherits the nested model's value (scope_exact)", what=what, model_output=jsonable(mv),
                                        broken="scope_exact on the implementation's update_scoped_rules"))
            if mv is not None:
                mout = canon_rules(mv) if isinstance(mv, list) else "exc"
                if iout_c != mout and not bad:
                    disagreements.append(dict(key="scoped", case=c, observed_impl=jsonable(iout_c), model_output=jsonable(mout)))
                if isinstance(iout, list) and len(iout) > 1:
                    nontrivial.add(json.dumps(["scoped", c["rich"], c["null"]]))
    return n_ok


# ---------------------------------------------------------------------- stationary -> non-stationary projection

PMAPNS_PAIRS = [("HKY85", "GN"), ("TN93", "GN"), ("GTR", "GN"), ("F81", "GN"), ("K80", "GN"), ("JC69", "GN"), ("K80", "ssGN"),
                ("HKY85", "ssGN")]


def rand_fracs(rng, n, lo=1, hi=9):
    return [[rng.randint(lo, hi), rng.randint(1, 9)] for _ in range(n)]


def rand_pmapns(rng):
    """GN-like rich dictionaries (one parameter per cell, one reference cell) with perturbations"""
    dim = rng.choice([3, 4])
    cells = [(i, j) for i in range(dim) for j in range(dim) if i != j]
    simple, used = [], set()
    for k in range(rng.randint(0, 3)):
        cs = sorted(c for c in rng.sample(cells, rng.randint(1, 5)) if c not in used)
        if cs:
            used |= set(cs)
            simple.append([f"s{k}", cs])
    rest = [c for c in cells if c not in used]
    if not rest:
        rest = simple.pop()[1]
    simple.append(["ref_cell", sorted(rest)])
    order = cells[:]
    rng.shuffle(order)
    nref = 1 if rng.random() < 0.8 else 2
    pool = [c for c in order if c in set(rest)] if rng.random() < 0.85 else order
    refc = pool[:nref]
    others = [c for c in order if c not in refc]
    rich = []
    while others:
        c = others.pop()
        group = [c]
        u = rng.random()
        if u < 0.12 and others:                       # a two-cell parameter, same target state if possible
            same = [d for d in others if d[1] == c[1]]
            d = rng.choice(same) if same and rng.random() < 0.7 else rng.choice(others)
            others.remove(d)
            group.append(d)
        rich.append([f"r{len(rich)}", sorted(group)])
    if rng.random() < 0.08 and len(rich) > 1:
        rich[0][1] = sorted(set(rich[0][1]) | {rich[1][1][0]})   # overlapping parameters
    rich.append(["ref_cell", sorted(refc)])
    return dict(kind="pmapns", rich=[[n, [list(c) for c in cs]] for n, cs in rich],
                simple=[[n, [list(c) for c in cs]] for n, cs in simple], pi=rand_fracs(rng, dim), vals=rand_fracs(rng, 4),
                const=[rng.random() < 0.4 for _ in range(3)])


def coq_pmapns(c, r):
    pis = "[" + ";".join(f"({n},{d})" for n, d in c["pi"]) + "]"
    vals = c["vals"]
    consts = c.get("const") or [False]
    rules = "[" + ";".join(f"({zs(n)},{vals[i % len(vals)][0]},{vals[i % len(vals)][1]},{'true' if consts[i % len(consts)] else 'false'})"
                           for i, n in enumerate(r["rule_names"])) + "]"
    return (f"({'true' if VARIANT['exact_rule'] else 'false'}, {pis}, {coq_coords(r['rich_iter'])}, "
            f"{coq_coords(r['simple_iter'])}, {rules})")


def oracle_pmapns(c, r, nested_ok_ns):
    """projection_exact_not_same on the implementation's projected values: Q_rich(c) * rho == pi_j * R_simple(c)"""
    from fractions import Fraction

    if not nested_ok_ns or isinstance(r["proj"], dict):
        return []
    pis = [Fraction(n, d) for n, d in c["pi"]]
    rich, simple = r["rich_iter"], r["simple_iter"]
    refcells = next(cs for n, cs in rich if n == "ref_cell")
    rho = float(pis[refcells[0][1]])
    if any(pis[cc[1]] != pis[refcells[0][1]] for cc in refcells):
        return []
    theta = {n: float(Fraction(*c["vals"][i % len(c["vals"])])) for i, n in enumerate(r["rule_names"])}
    val = dict((n, v) for n, v in r["proj"])
    cells = {tuple(x) for _, cs in rich for x in cs} | {tuple(x) for _, cs in simple for x in cs}
    for cell in sorted(cells):
        qr = 1.0
        for n, cs in rich:
            if n != "ref_cell" and list(cell) in cs:
                qr *= val.get(n, 1.0)
        qs = float(pis[cell[1]])
        for n, cs in simple:
            if n != "ref_cell" and list(cell) in cs:
                qs *= theta[n]
        if abs(qr * rho - qs) > 1e-9 * max(1.0, abs(qs)):
            return [("pmapns:projection-not-exact", f"cell {cell}: Q_rich*rho = {qr * rho} != Q_simple = {qs}")]
    return []


def compare_pmapns(rep, cases, outs, proof_broken, disagreements, nontrivial):
    from fractions import Fraction

    ok = [(c, r) for c, r in zip(cases, outs) if "proj" in r]
    for c, r in zip(cases, outs):
        if "proj" not in r:
            rep.violation("pmapns:harness-case-raised", dict(case=c, observed_impl=r, broken="runner raised"))
    vals = None
    try:
        vals = core.coq_eval(PROP, ["Model.Nested", "Model.NestedNS", "Spec.NestedNSSpec", "Model.NestedNSRun"], "run_nscase",
                             [coq_pmapns(c, r) for c, r in ok], "bool * list (Z * Z) * coords * coords * list (name * Z * Z * bool)",
                             shard=300, tag="ns")
    except core.CheckError as e:
        if not proof_broken:
            raise
        rep.notes.append(f"not-same model not runnable: {str(e)[:300]}")
    n_ok = 0
    for k, (c, r) in enumerate(ok):
        mv = vals[k] if vals is not None else None
        nok = bool(mv[1]) if mv is not None else False
        n_ok += nok
        bad = oracle_pmapns(c, r, nok)
        small = dict(c)
        for key, what in bad:
            rep.violation(key, dict(case=small, observed_impl=r, expected_by_spec="Q_rich * rho == pi_j * R_simple on every cell "
                                    "(projection_exact_not_same)", what=what, model_output=jsonable(mv),
                                    broken="projection_exact_not_same on the implementation's projected rules"))
        if mv is None or bad:
            continue
        if isinstance(r["proj"], dict) or not isinstance(mv[0], list):
            same = isinstance(r["proj"], dict) and not isinstance(mv[0], list)
        else:
            mproj = sorted([n, Fraction(q[0], q[1])] for n, e, q in mv[0] if n != "length" and q is not None)
            iproj = r["proj"]
            same = len(mproj) == len(iproj) and all(a[0] == b[0] and abs(float(a[1]) - b[1]) <= 1e-12 * max(1.0, abs(b[1]))
                                                    for a, b in zip(mproj, iproj))
            if nok and iproj:
                nontrivial.add(json.dumps(["pmapns", r["rich_iter"], r["simple_iter"], c["pi"]]))
        if not same:
            disagreements.append(dict(key="pmapns", case=small, observed_impl=r["proj"], model_output=str(jsonable(mv))[:1500]))
    return n_ok


# ---------------------------------------------------------------------- update_from_calculator

def rand_ufc(rng):
    """one setting: bounds in units of 1e-12 (multiples of 1e-3), calculator value on / one ulp-ish beside / inside /
    far outside a bound; None and 0.0 bounds; constants"""
    unit = 10 ** 9   # 1e-3
    lo = rng.choice([None, 0, 1, 10, 500, 3000]) 
    hi = rng.choice([None, 1000, 3000, 7000, 10 ** 9])
    lo = None if lo is None else lo * unit
    hi = None if hi is None else hi * unit
    if lo is not None and hi is not None and lo >= hi:
        hi = lo + 1000 * unit
    anchor = rng.choice([b for b in (lo, hi) if b is not None] or [1000 * unit])
    off = rng.choice([0, 1, -1, 3, -3, 2000, -2000, anchor // 10 ** 7, -(anchor // 10 ** 7), anchor // 10, -(anchor // 10),
                      5 * 10 ** 11, -5 * 10 ** 11])
    return dict(kind="ufc", const=rng.random() < 0.1, lower=lo, upper=hi, output=anchor + off)


def coq_ufc(c):
    o = lambda z: "None" if z is None else f"(Some {zlit(z)})"  # noqa: E731
    return f"({'true' if c['const'] else 'false'}, {o(c['lower'])}, {o(c['upper'])}, {zlit(c['output'])})"


def compare_ufc(rep, cases, outs, proof_broken, disagreements, nontrivial):
    try:
        vals = core.coq_eval(PROP, ["Model.UpdateFromCalc"], "run_ufc", [coq_ufc(c) for c in cases], "bool * option Z * option Z * Z",
                             shard=400, tag="ufc")
    except core.CheckError as e:
        if not proof_broken:
            raise
        rep.notes.append(f"update_from_calculator model not runnable: {str(e)[:300]}")
        return
    for c, r, mv in zip(cases, outs, vals):
        # specification (update_snaps_to_the_overshot_bound / update_moves_within_tolerance) on the implementation's output
        if "value" in r and not c["const"]:
            v, out = r["value"], c["output"] * 1e-12
            tol = 1e-8 + 1e-5 * max(abs(b * 1e-12) for b in (c["lower"], c["upper"]) if b is not None) if (
                c["lower"] is not None or c["upper"] is not None) else 0.0
            if abs(v - out) > tol * 1.0001 + 1e-15:
                rep.violation("ufc:stored-value-far-from-calculator-value",
                              dict(case=c, observed_impl=r, expected_by_spec="stored value = calculator value, or the bound it overshot "
                                   "within numpy.allclose tolerance", model_output=jsonable(mv),
                                   broken="update_moves_within_tolerance on the real update_from_calculator"))
                continue
        m_exc = not isinstance(mv, int)
        i_exc = "value" not in r
        same = (m_exc == i_exc) and (m_exc or abs(r["value"] - mv * 1e-12) <= 1e-9 * max(1.0, abs(r["value"])) * 1e-3 + 1e-18)
        if not same:
            disagreements.append(dict(key="ufc", case=c, observed_impl=r, model_output=jsonable(mv)))
        elif not i_exc and c["output"] * 1e-12 != r["value"]:
            nontrivial.add(json.dumps(["ufc", c["lower"], c["upper"], c["output"]]))


# ====================================================================== the check

def tier_sizes(tier):
    if tier == "quick":
        return dict(wrap=1500, real=60, nested=26, nested_codon=2, hyp=6, hyp_opts=16, lfopt=16, lfbounds=14, on_bound=10, nested_const=8, pmap=300, scoped=400, pmapns=300, ufc=400)
    return dict(wrap=20000, real=1500, nested=700, nested_codon=40, hyp=160, hyp_opts=400, lfopt=500, lfbounds=400, on_bound=300, nested_const=250, pmap=4000, scoped=5000, pmapns=4000, ufc=4000)


def run(tier: str, seed: int) -> int:
    rep = core.Report(PROP, tier, seed)
    rng = random.Random(seed * 7919 + 16)
    pr = core.proof_stage(PROP, COQ_TARGETS)
    core.proof_coverage(rep, pr, "make theories/Properties/C16.vo theories/Model/OptimRun.vo theories/Model/NestedRun.vo && coqc gen/assum_C16.v (Print Assumptions)", [
        "the optimisers (Powell, scipy line search, simulated annealing) are NOT modelled: they are the universally quantified adversary "
        "script of the theorems; the real ones are only run against the specification oracle",
        "objective function assumed deterministic (a function of the parameter vector); values modelled as Z + {+inf,-inf,NaN,raise}; "
        "IEEE rounding, numpy comparison and the numba likelihood kernels are exercised by the real-lf cases, not verified",
        "parameter projection theorems speak about the per-cell product of rate parameters (the calcQ structure); that equal rate "
        "matrices give equal likelihood is C02/C05's subject and here checked numerically on real likelihood functions",
        "scripted optimisers are installed by replacing cogent3.maths.optimisers.LocalOptimiser/GlobalOptimiser in the harness' "
        "implementation subprocess only",
    ])
    rep.assumptions += [
        "optimiser theorems: the objective is a pure function of the parameter vector; statements are conditional on the try/finally "
        "block of maximise being entered (valid start), which runs_from_every_valid_start shows happens for every valid start",
        "nested initialisation: pairs genuinely nested by rate-matrix structure and edge scoping, one bin, one locus "
        "(more bins/loci are refused by the code with NotImplementedError)",
    ]
    proof_broken = bool(pr["problems"])
    sz = tier_sizes(tier)
    if proof_broken:
        sz = {k: v * 3 for k, v in sz.items()}

    probe = core.run_impl_lines(IMPL, [dict(kind="probe")])[0]
    if "keep_unmatched" not in probe:
        raise core.CheckError(f"variant probe failed: {probe}")
    VARIANT.update(keep_unmatched=bool(probe["keep_unmatched"]), exact_rule=bool(probe["exact_rule"]))
    rep.notes.append(f"implementation variant: {VARIANT}")

    # ---------------- generate
    wrap_cases = exhaustive_wrap(tier) + [rand_wrap(rng) for _ in range(sz["wrap"])]
    real_cases = [rand_real(rng) for _ in range(sz["real"])]
    pmap_cases = [dict(kind="pmap", models=list(p)) for p in PMAP_PAIRS + (PMAP_CODON if tier != "quick" else PMAP_CODON_QUICK)]
    pmap_cases += [rand_pmap(rng) for _ in range(sz["pmap"])]
    scoped_cases = [rand_scoped(rng) for _ in range(sz["scoped"])]
    pmapns_cases = [dict(kind="pmapns", models=list(p), pi=rand_fracs(rng, 4), vals=rand_fracs(rng, 5),
                         const=[rng.random() < 0.5 for _ in range(5)]) for p in PMAPNS_PAIRS for _ in range(3)]
    pmapns_cases += [rand_pmapns(rng) for _ in range(sz["pmapns"])]
    ufc_cases = [rand_ufc(rng) for _ in range(sz["ufc"])]
    light = wrap_cases + real_cases + pmap_cases + scoped_cases + pmapns_cases + ufc_cases
    heavy = corpus_nested() + corpus_hyp() + corpus_hyp_opts() + corpus_lfbounds() + corpus_on_bound()
    heavy += [rand_on_bound(rng) for _ in range(sz["on_bound"])]
    heavy += [rand_nested_const(rng) for _ in range(sz["nested_const"])]
    heavy += [rand_lfbounds(rng) for _ in range(sz["lfbounds"])]
    heavy += [rand_nested(rng, tier) for _ in range(sz["nested"])]
    heavy += [rand_nested(rng, tier, codon=True) for _ in range(sz["nested_codon"])]
    heavy += [rand_hyp(rng) for _ in range(sz["hyp"])]
    heavy += [rand_hyp_opts(rng) for _ in range(sz["hyp_opts"])]
    heavy += [rand_lfopt(rng) for _ in range(sz["lfopt"])]

    # ---------------- run the implementation
    import concurrent.futures as cf

    with cf.ThreadPoolExecutor(max_workers=2) as ex:
        fh = ex.submit(core.run_impl_sharded, IMPL, heavy, None, max(1, min(core.NPROC - 1, len(heavy) // 4)))
        fl = ex.submit(core.run_impl_sharded, IMPL, light, None, 2 if tier == "quick" else 3)
        light_out, heavy_out = fl.result(), fh.result()
    nw, nr, npm = len(wrap_cases), len(real_cases), len(pmap_cases)
    wrap_out, real_out = light_out[:nw], light_out[nw:nw + nr]
    nsc = len(scoped_cases)
    pmap_out, scoped_out = light_out[nw + nr:nw + nr + npm], light_out[nw + nr + npm:nw + nr + npm + nsc]
    pmapns_out = light_out[nw + nr + npm + nsc:nw + nr + npm + nsc + len(pmapns_cases)]
    ufc_out = light_out[nw + nr + npm + nsc + len(pmapns_cases):]

    disagreements = []
    counts = dict(wrap=0, real=0, pmap=0, scoped=0, pmapns=0, ufc=0, nested=0, hyp=0, lfopt=0, lfbounds=0)
    nontrivial = set()
    dist = dict(wrap_endings={}, wrap_local={}, nested_classes={}, hyp_classes={}, hyp_pairs={}, nested_pairs={}, lfopt_modes={})

    # ---------------- (a) wrapper: model vs implementation vs oracle
    ok_idx = [i for i, r in enumerate(wrap_out) if "obs" in r]
    coq_terms = []
    for i in ok_idx:
        gs, ls = model_scripts(wrap_cases[i], wrap_out[i])
        coq_terms.append(coq_wrap(wrap_cases[i], gs, ls))
    model_vals = None
    try:
        model_vals = core.coq_eval(PROP, ["Model.Optim", "Model.OptimRun"], "run_case", coq_terms, "case", shard=400, tag="w")
    except core.CheckError as e:
        if not proof_broken:
            raise
        rep.notes.append(f"wrapper model not runnable: {str(e)[:300]}")
    mv_of = dict(zip(ok_idx, model_vals)) if model_vals is not None else {}
    for i, (c, r) in enumerate(zip(wrap_cases, wrap_out)):
        counts["wrap"] += 1
        if "obs" not in r:
            rep.violation(f"wrap:harness-case-raised:{loc(c)}", dict(case=c, observed_impl=r, broken="scripted run raised inside the runner"))
            continue
        obs = r["obs"]
        dist["wrap_endings"][obs[0].split(":")[0]] = dist["wrap_endings"].get(obs[0].split(":")[0], 0) + 1
        dist["wrap_local"][loc(c)] = dist["wrap_local"].get(loc(c), 0) + 1
        bad = oracle_wrap(c, obs)
        mobs = model_obs(mv_of[i], c["ret_count"]) if i in mv_of else None
        if bad:
            for clause in bad:
                rep.violation(f"wrap:{clause}:{loc(c)}:{obs[0].split(':')[0]}",
                              dict(case=c, expected_by_spec=f"clause `{clause}` of the specification holds", observed_impl=obs,
                                   model_output=mobs, broken="never_worse / within_bounds / calculator_left_at_best / best_is_max / "
                                                             "evaluation_limit_respected (Properties/C16.v) on the real wrapper"))
        if bad is not None and len(obs[5]) > 2 and any(q != c["x0"] for q in obs[5]):
            nontrivial.add(json.dumps([c["tbl"], c["x0"], obs[5], c["maxev"], c["local"]]))
        if mobs is not None:
            iobs = list(obs)
            iobs[0] = "unexpected:IndexError" if obs[0].startswith("unexpected:IndexError") else obs[0]
            if iobs != mobs and not bad:
                disagreements.append(dict(key=f"wrap:{loc(c)}:{iobs[0]}-vs-{mobs[0]}", case=c, observed_impl=iobs, model_output=mobs))

    # ---------------- (b) real optimisers vs oracle
    for c, r in zip(real_cases, real_out):
        counts["real"] += 1
        bad = oracle_real(c, r)
        for clause in bad:
            small = dict(r)
            small["trace"] = r.get("trace", [])[:3] + r.get("trace", [])[-3:]
            rep.violation(f"real:{clause}:{loc(c)}", dict(case=c, expected_by_spec=f"clause `{clause}` holds", observed_impl=small,
                                                          broken="specification on the real Powell/SimulatedAnnealing run"))
        if not bad and len(r.get("trace", [])) > 3:
            nontrivial.add(json.dumps(["real", c["surface"], c["x0"], c["maxev"], c["local"], c["seed"]]))

    # ---------------- (c) parameter mapping and scoped rules vs the model
    n_nested_ok = compare_nested_logic(rep, pmap_cases, pmap_out, scoped_cases, scoped_out, proof_broken, disagreements, nontrivial)
    dist["pmap_nested_ok"] = n_nested_ok
    counts["pmap"], counts["scoped"] = len(pmap_cases), len(scoped_cases)
    dist["pmapns_nested_ok"] = compare_pmapns(rep, pmapns_cases, pmapns_out, proof_broken, disagreements, nontrivial)
    counts["pmapns"] = len(pmapns_cases)
    compare_ufc(rep, ufc_cases, ufc_out, proof_broken, disagreements, nontrivial)
    counts["ufc"] = len(ufc_cases)

    # ---------------- (d) likelihood functions
    for c, r in zip(heavy, heavy_out):
        k = c["kind"]
        counts[k] += 1
        if r.get("hang"):
            rep.violation(f"{k}:hang:{c.get('cls', '')}", dict(case=c, observed_impl=r, broken="the case did not finish"))
            continue
        if k == "nested":
            dist["nested_classes"][c["cls"]] = dist["nested_classes"].get(c["cls"], 0) + 1
            npair = f"{c['null']['sm']}{'[scoped]' if c['null'].get('rules') else ''} -> {c['alt']['sm']}{'[scoped]' if c['alt'].get('rules') else ''} | {c['cls']}"
            dist["nested_pairs"][npair] = dist["nested_pairs"].get(npair, 0) + 1
            bad = oracle_nested(c, r)
            if not bad and "lnL_alt_fit" in r:
                nontrivial.add(json.dumps(["nested", c["null"], c["alt"], c["tree"], r["lnL_null"]]))
        elif k == "hyp":
            dist["hyp_classes"][c["cls"]] = dist["hyp_classes"].get(c["cls"], 0) + 1
            dist["hyp_pairs"][hyp_label(c)] = dist["hyp_pairs"].get(hyp_label(c), 0) + 1
            bad = oracle_hyp(c, r)
            if not bad:
                nontrivial.add(json.dumps(["hyp", c["null"], c["alts"], r.get("lnL")]))
        elif k == "lfbounds":
            bad = oracle_lfbounds(c, r)
            if c.get("on_bound"):
                ob = c["on_bound"]
                lab = f"{ob['scale']}:{ob['side']}:exp(log(b)) {ob['direction']} b"
                still = any(abs(v - ob["bound"]) <= 1e-9 * max(1.0, ob["bound"]) for be in r.get("values", {}).values() for v in be.values())
                dist.setdefault("on_bound", {})
                dist["on_bound"][lab + (" | best stays on bound" if still else " | moved inside")] = \
                    dist["on_bound"].get(lab + (" | best stays on bound" if still else " | moved inside"), 0) + 1
            if not bad:
                decl = declared_bounds(c, r)
                at = sum(1 for par, be in r["values"].items() for e, v in be.items()
                         if min(v - decl[par][e][0], decl[par][e][1] - v) <= 1e-6 * max(1.0, abs(v)))
                dist["lfbounds_values_at_a_declared_bound"] = dist.get("lfbounds_values_at_a_declared_bound", 0) + at
                nontrivial.add(json.dumps(["lfbounds", c["sm"], c["steps"], r["after"]]))
        else:
            m = f"{loc(c['opt'])}:{c['opt']['limit_action']}"
            dist["lfopt_modes"][m] = dist["lfopt_modes"].get(m, 0) + 1
            bad = oracle_lfopt(c, r)
            if not bad and r["after"] > r["before"]:
                nontrivial.add(json.dumps(["lfopt", c["model"], c["opt"], r["before"]]))
        for key, what in bad:
            rep.violation(key, dict(case=c, expected_by_spec="lnL(alt initialised from null) == lnL(null) within 1e-6; lnL never decreases "
                                                             "under optimisation; parameters within bounds; LR >= 0",
                                    observed_impl=r, what=what, broken="property C16 on real likelihood functions"))

    # ---------------- (e) the app-level state machine Model.AppSeq.configure vs what was observed inside the apps
    ECODE = {"AssertionError": 9, "NotImplementedError": 7, "IndexError": 1, "ValueError": 2, "KeyError": 5}
    cfg_terms, cfg_obs, cfg_cases = [], [], []
    for c, r in zip(heavy, heavy_out):
        if c["kind"] != "hyp" or "per" not in r or not (c.get("sequential", True) and c.get("init_alt") is None):
            continue
        for i in range(1, len(r["nfp"])):
            inits = r["per"][i]["init"]
            if not inits:
                continue
            ini = inits[-1]
            het = c["alts"][i - 1].get("app_args", {}).get("time_het") is not None
            assertion = ini.get("exc") == "AssertionError" and ini["nfp_self"] <= ini["nfp_nested"]
            pc = 0 if ("exc" not in ini or assertion) else ECODE.get(ini["exc"], 9)
            nfin = r["nfp"][i]
            cfg_terms.append(f"(true, true, {zlit(ini['nfp_nested'])}, {zlit(nfin)}, {'Some ' + zlit(nfin) if het else 'None'}, {pc})")
            cfg_obs.append([1 if "exc" not in ini else [2, ECODE.get(ini["exc"], 9)], ini["nfp_self"]])
            cfg_cases.append(dict(kind="hyp", case={k: v for k, v in c.items()}, alt=i))
    if cfg_terms:
        try:
            mv = core.coq_eval(PROP, ["Model.Optim", "Model.Nested", "Model.AppSeq"], "run_cfg", cfg_terms,
                               "bool * bool * Z * Z * option Z * Z", shard=400, tag="cfg")
            for cc, o, m_ in zip(cfg_cases, cfg_obs, mv):
                if o != m_:
                    disagreements.append(dict(key="appseq", case=cc["case"], observed_impl=o, model_output=jsonable(m_)))
        except core.CheckError as e:
            if not proof_broken:
                raise
            rep.notes.append(f"app-sequence model not runnable: {str(e)[:300]}")
    dist["appseq_configure_compared"] = len(cfg_terms)

    # model/implementation differences are reported even when other (possibly known) violations exist
    for d in disagreements[:3]:
        d = dict(d)
        d.setdefault("broken", "correspondence Model.OptimRun / Model.NestedRun vs implementation: they differ on this input while "
                               "the specification oracle does not flag it")
        d["n_disagreements"] = len(disagreements)
        rep.violation("correspondence:" + str(d.get("key", "")), d, no_input=True)
    print(f"[C16] model/implementation disagreements: {len(disagreements)}", flush=True)

    total = sum(counts.values())
    sample_i = next((i for i in ok_idx if wrap_cases[i]["block"] == "random" and len(wrap_out[i]["obs"][5]) > 3), ok_idx[0])
    rep.coverage.update(
        evaluations=total, distinct_nontrivial=len(nontrivial),
        rule="one evaluation = one run of maximise/minimise (scripted or real optimiser), one parameter-mapping / scoped-rule "
             "computation, one null-fit + initialise_from_nested + short optimisation, one hypothesis app call, or one lf.optimise; "
             "non-trivial = the run evaluated the function at >= 2 points other than the start and the specification applied "
             "(valid start), or the mapping was non-empty, or the likelihood function case completed with a changed lnL",
        samples=[dict(case=wrap_cases[sample_i], impl=wrap_out[sample_i]["obs"]),
                 dict(case={k: v for k, v in heavy[0].items() if k != "seqs"}, impl=heavy_out[0])],
        input_distribution=dict(counts=counts, **dist, exhaustive_wrap=sum(1 for c in wrap_cases if c["block"] == "exhaustive")),
        model_impl_disagreements=len(disagreements),
        partial=[
            "the optimisers themselves (convergence, step rules) are outside the theorems by design: they are the universally "
            "quantified adversary; the real Powell / simulated annealing runs are checked against the specification oracle only",
            "lnL(alt init) = lnL(null) is proved as equality of the per-cell products of rate parameters (projection_exact, "
            "initialised_rates_exact) and of the per-(parameter, edge) values (scope_exact) under the stated nesting conditions; "
            "that equal rate matrices give equal likelihood is not re-proved here (C02/C05; checked numerically on real functions)",
            "bins / loci > 1: the refusal (compatible_likelihood_functions) is modelled and proved (bins_refused); what exact "
            "initialisation would mean is stated as Definition stmt_bins_exact, not a theorem about the code",
            "stationary -> non-stationary projection: projection_exact_not_same covers rich parameters whose cells share one "
            "target state (GN); ssGN (two target states per parameter, exact only for equal motif probabilities) is compared "
            "numerically only",
            "per-scope bounds: the bound table of one parameter under re-scoping rules is modelled and proved (Model/ScopeBounds.v); "
            "rules that merge cells with different declared bounds into one tied scope (the code takes the envelope) are not generated; "
            "constant settings and the transform to optimiser space are not modelled",
            "update_from_calculator: the clipping branches are modelled on fixed-point integers with numpy.allclose as a "
            "parameter; the float rounding of exp(log(x)) itself is exercised by the on-bound cases, not modelled",
            "theorems for the nested initialisation are stated for both transcribed variants of the source (pinned / with proposed "
            "fixes); the two *_refuted theorems show the pinned variant violating totality / exactness on nested inputs",
        ],
        exhaustive=False,
    )
    core.conclude(rep, pr, f"{total} cases (wrapper scripts incl. exhaustive small scope, real optimisers, parameter mappings, "
                           f"nested pairs, hypothesis app, lf.optimise) against the specification oracle",
                  disagreements[:5], "Model.OptimRun.run_case / Model.NestedRun vs cogent3.maths.optimisers / "
                                     "cogent3.evolve.likelihood_function", tier, PROP)
    return rep.finish("proof")


def replay(path: str) -> int:
    d = json.loads(open(path).read())
    if "case" not in d:
        print("replay names a broken obligation, not an input:", d.get("broken"))
        return 1
    c = d["case"]
    r = core.run_impl_lines(IMPL, [c])[0]
    k = c["kind"]
    if k == "wrap":
        bad = oracle_wrap(c, r["obs"]) if "obs" in r else ["raised"]
        print("impl  :", r.get("obs", r))
    elif k == "real":
        bad = oracle_real(c, r)
        print("impl  :", {kk: v for kk, v in r.items() if kk != "trace"}, "trace tail", r.get("trace", [])[-2:])
    elif k == "nested":
        bad = oracle_nested(c, r)
        print("impl  :", r)
    elif k == "hyp":
        bad = oracle_hyp(c, r)
        print("impl  :", r)
    elif k == "lfopt":
        bad = oracle_lfopt(c, r)
        print("impl  :", r)
    elif k == "lfbounds":
        bad = oracle_lfbounds(c, r)
        print("impl  :", r)
    else:
        probe = core.run_impl_lines(IMPL, [dict(kind="probe")])[0]
        VARIANT.update(keep_unmatched=bool(probe["keep_unmatched"]), exact_rule=bool(probe["exact_rule"]))
        rep = core.Report(PROP, "replay", 0)
        rep.findings = []
        dis = []
        if k == "ufc":
            compare_ufc(rep, [c], [r], False, dis, set())
        elif k == "pmapns":
            compare_pmapns(rep, [c], [r], False, dis, set())
        elif k == "pmap":
            compare_nested_logic(rep, [c], [r], [], [], False, dis, set())
        else:
            compare_nested_logic(rep, [], [], [c], [r], False, dis, set())
        print("impl  :", r)
        bad = [v["key"] for v in rep.violations] + [d["key"] + ": model differs" for d in dis]
    print("oracle:", bad if bad else "all clauses hold")
    print("REPRODUCED" if bad else "not reproduced")
    return 1 if bad else 0
